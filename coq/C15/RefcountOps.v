(* C15/RefcountOps.v — every operation, run from a state that satisfies the invariant
   with no handle left in a local, ends in such a state and never touches a destroyed object. *)
From MptV Require Import Base.Mem C15.RefcountModel C15.RefcountSpec C15.RefcountCounter C15.RefcountInv C15.RefcountSteps C15.RefcountFr.
Local Open Scope nat_scope.

Definition Good (s : st) : Prop := Inv s /\ pend s = [].

Lemma bank_bound d : bank d <> 5 -> d < NSLOT.
Proof.
  unfold bank, NSLOT. intros H.
  destruct (Nat.ltb_spec d 6); [lia|]. destruct (Nat.ltb_spec d 9); [lia|].
  destruct (Nat.ltb_spec d 12); [lia|]. destruct (Nat.ltb_spec d 15); [lia|].
  destruct (Nat.ltb_spec d 18); [lia|]. congruence.
Qed.
Lemma bank_eqb_bound d k : (bank d =? k) = true -> k < 5 -> d < NSLOT.
Proof. intros H Hk. apply Nat.eqb_eq in H. apply bank_bound. lia. Qed.

Lemma slot_hs s s' i : hs s' = hs s -> slot s' i = slot s i.
Proof. unfold slot. intros ->. reflexivity. Qed.
Lemma slot_set s s' d v i : hs s' = set_nth d v (hs s) -> d < length (hs s) ->
  slot s' i = if Nat.eqb d i then v else slot s i.
Proof.
  unfold slot. intros -> H. rewrite nth_set_nth.
  destruct (Nat.eqb_spec d i); cbn [andb]; [|reflexivity].
  destruct (Nat.ltb_spec d (length (hs s))); [reflexivity|lia].
Qed.

Lemma is_none_true {A} (v : option A) : is_none v = true -> v = None.
Proof. destruct v; [discriminate|reflexivity]. Qed.
Lemma is_none_false {A} (v : option A) : negb (is_none v) = true -> exists a, v = Some a.
Proof. destruct v; [eauto|discriminate]. Qed.

Lemma rm_opt_o2l v l : rm_opt v (o2l v ++ l) = l.
Proof. destruct v; cbn [rm_opt o2l app]; [apply remove_one_cons|reflexivity]. Qed.

Lemma eq_opt_false a b : eq_opt a b = false -> a <> b.
Proof.
  destruct a as [x|], b as [y|]; cbn; intros H; try discriminate; try congruence.
  intros E; inversion E; subst. rewrite Nat.eqb_refl in H. discriminate.
Qed.

Ltac split_guard G :=
  repeat match type of G with
         | (_ && _ = true) => let A := fresh G in apply andb_prop in G; destruct G as [G A]
         end.

(* ---------- retain: addref for a store ---------- *)
Lemma retain_ok s v : Inv s -> (forall o, v = Some o -> 0 < H3 s o) ->
  exists s1 ok, retain s v = Ok (s1, ok) /\ Inv s1 /\ same_kinds s s1 /\ hs s1 = hs s /\
    pend s1 = (if ok then o2l v else []) ++ pend s.
Proof.
  intros I H. destruct v as [o|]; cbn [retain].
  - destruct (m_addref_ok s o I (H o eq_refl)) as (s1 & r & E & I1 & K1 & H1 & P1).
    rewrite E. cbn [bind]. eexists _, _. split; [reflexivity|]. split; [assumption|]. split; [assumption|].
    split; [assumption|]. rewrite P1. destruct (r =? 0)%N; reflexivity.
  - exists s, true. split; [reflexivity|]. split; [assumption|]. split; [apply same_kinds_refl|]. auto.
Qed.

(* retain keeps the handle every object owns *)
Lemma m_addref_inner s o s' r : m_addref s o = Ok (s', r) ->
  forall o' x0, nth_error (objs s) o' = Some x0 -> exists x1, nth_error (objs s') o' = Some x1 /\ oinner x1 = oinner x0.
Proof.
  unfold m_addref. destruct (live s o) as [x| |] eqn:L; cbn [bind]; try discriminate.
  destruct (live_inv s o x L) as [E D].
  destruct (cls_of (okind x)).
  - destruct (raise (ocnt x)) as [c r0]. intros X; inversion X; subst. intros o' x0 E0.
    assert (Q : exists x1, nth_error (set_nth o (with_cnt x c) (objs s)) o' = Some x1 /\ oinner x1 = oinner x0).
    { rewrite nth_error_set_nth. destruct (Nat.eqb_spec o o') as [<-|n].
      - rewrite E. exists (with_cnt x c). split; [reflexivity|]. rewrite E in E0. inversion E0. reflexivity.
      - eauto. }
    destruct (r =? 0)%N; simp_st; exact Q.
  - intros X; inversion X; subst. intros o' x0 E0. simp_st. eauto.
  - intros X; inversion X; subst. intros o' x0 E0. simp_st. eauto.
Qed.
Lemma retain_inner s v s' ok : retain s v = Ok (s', ok) ->
  forall o' x0, nth_error (objs s) o' = Some x0 -> exists x1, nth_error (objs s') o' = Some x1 /\ oinner x1 = oinner x0.
Proof.
  destruct v as [o|]; cbn [retain].
  - destruct (m_addref s o) as [[s1 r]| |] eqn:E; cbn [bind]; try discriminate.
    intros X; inversion X; subst. eapply m_addref_inner; eassumption.
  - intros X; inversion X; subst. eauto.
Qed.

(* ---------- replace what a slot holds by a handle held in a local ---------- *)
Lemma replace_ok s d v : Inv s -> d < NSLOT -> (forall o, v = Some o -> In o (pend s)) ->
  exists s3, unref_opt (fst (m_take s d)) (snd (m_take s d)) = Ok s3 /\
    Inv (m_put s3 d v) /\ same_kinds s (m_put s3 d v) /\
    hs (m_put s3 d v) = set_nth d v (hs s) /\ pend (m_put s3 d v) = rm_opt v (pend s).
Proof.
  intros I Hd Hv.
  destruct (m_take_ok s d I) as (I2 & K2 & O2 & H2 & P2 & V2).
  destruct (unref_opt_ok (fst (m_take s d)) (snd (m_take s d)) I2) as (s3 & E3 & I3 & K3 & H3' & P3).
  { intros a Ha. rewrite P2, <- V2, Ha. left. reflexivity. }
  exists s3. split; [assumption|].
  rewrite P2, <- V2, rm_opt_o2l in P3.
  assert (Hl : d < length (hs s)) by (rewrite (inv_len s I); assumption).
  destruct (m_put_ok s3 d v I3) as (I4 & K4 & O4 & H4 & P4).
  { rewrite (slot_set (fst (m_take s d)) s3 d None d); [rewrite Nat.eqb_refl; reflexivity| |].
    - rewrite H3', H2. symmetry. apply set_nth_twice.
    - rewrite H2, length_set_nth. assumption. }
  { assumption. }
  { intros o Ho. rewrite P3. auto. }
  split; [assumption|]. split; [eapply same_kinds_trans; [exact K2|eapply same_kinds_trans; eassumption]|].
  split; [rewrite H4, H3', H2; apply set_nth_twice|]. rewrite P4, P3. reflexivity.
Qed.

(* ---------- unref of what a slot holds ---------- *)
Lemma p_unref_ok s i : Good s ->
  exists s', p_unref s i = Ok (s', OD) /\ Good s' /\ same_kinds s s' /\ hs s' = set_nth i None (hs s).
Proof.
  intros [I P]. unfold p_unref.
  destruct (m_take_ok s i I) as (I2 & K2 & O2 & H2 & P2 & V2).
  destruct (m_take s i) as [s1 v]. cbn [fst snd] in *.
  destruct (unref_opt_ok s1 v I2) as (s3 & E3 & I3 & K3 & H3' & P3).
  { intros a Ha. rewrite P2, <- V2, Ha. left. reflexivity. }
  rewrite E3. cbn [bind]. exists s3. split; [reflexivity|]. split; [|split].
  - split; [assumption|]. rewrite P3, P2, <- V2, P. destruct v; cbn [o2l app rm_opt]; [apply remove_one_cons|reflexivity].
  - eapply same_kinds_trans; eassumption.
  - congruence.
Qed.

(* ---------- traits init ---------- *)
Lemma p_refinit_ok s si d : Good s -> slot s d = None -> d < NSLOT ->
  exists s' t, p_refinit s si d = Ok (s', t) /\ Good s' /\ same_kinds s s' /\
    (hs s' = hs s \/ (is_ret t = true /\ hs s' = set_nth d (slot s si) (hs s))) /\
    (is_ret t = false -> hs s' = hs s).
Proof.
  intros [I P] Hs Hd. unfold p_refinit. destruct (slot s si) as [o|] eqn:S.
  - destruct (m_addref_ok s o I (H3_slot s si o S)) as (s1 & r & E & I1 & K1 & H1 & P1).
    rewrite E. cbn [bind]. destruct (r =? 0)%N.
    + eexists _, _. split; [reflexivity|]. split; [split; [assumption|congruence]|]. split; [assumption|]. split; auto.
    + destruct (m_put_ok s1 d (Some o) I1) as (I4 & K4 & O4 & H4 & P4).
      { rewrite (slot_hs s s1 d H1). assumption. }
      { assumption. }
      { intros a Ha. inversion Ha; subst. rewrite P1. left. reflexivity. }
      eexists _, _. split; [reflexivity|]. split; [|split; [eapply same_kinds_trans; eassumption|]].
      * split; [assumption|]. rewrite P4, P1, P. cbn [rm_opt]. apply remove_one_cons.
      * split; [right; split; [reflexivity|congruence]|]. cbn [is_ret]. discriminate.
  - eexists _, _. split; [reflexivity|]. split; [split; assumption|]. split; [apply same_kinds_refl|]. split; auto.
Qed.

(* ---------- creation ---------- *)
Lemma find_kind_spec p l i id : find_kind p l i = Some id ->
  i <= id /\ exists x, nth_error l (id - i) = Some x /\ p (okind x) = true.
Proof.
  revert i; induction l as [|h t IH]; intros i; cbn [find_kind]; [discriminate|].
  destruct (p (okind h)) eqn:Ph.
  - intros X; inversion X; subst. split; [lia|]. rewrite Nat.sub_diag. exists h. auto.
  - intros X. destruct (IH (S i) X) as (Hle & x & Ex & Px). split; [lia|].
    exists x. split; [|assumption]. replace (id - i) with (S (id - S i)) by lia. exact Ex.
Qed.

Lemma add_pend_static s id x : Inv s -> nth_error (objs s) id = Some x -> is_static (okind x) = true ->
  Inv (add_pend s id) /\ same_kinds s (add_pend s id).
Proof.
  intros I E Hs. pose proof (inv_obj s I id x E) as (C1 & C2 & C3).
  assert (D : odead x = false).
  { destruct (odead x); [|reflexivity]. destruct C3 as (_ & _ & _ & F). congruence. }
  apply (Inv_upd1 s _ id x x I E); simp_st; try reflexivity; try assumption.
  - symmetry. apply set_nth_same, E.
  - apply I.
  - intros o' n. rewrite H3_add_pend. destruct (Nat.eqb_spec id o'); [congruence|lia].
  - rewrite D. unfold is_static in Hs. destruct (cls_of (okind x)); try discriminate. exact Logic.I.
Qed.

Lemma kind_in_bank_bound k d : kind_in_bank k (bank d) = true -> d < NSLOT.
Proof.
  intros H. apply bank_bound. intros E. rewrite E in H. cbn in H. discriminate.
Qed.

Lemma new_put_ok s k inner d : Inv s -> pend s = o2l inner -> slot s d = None -> d < NSLOT ->
  (forall b, inner = Some b -> is_buf k = false /\ exists y, nth_error (objs s) b = Some y /\ is_buf (okind y) = true) ->
  Good (m_put (fst (m_new s k inner)) d (Some (snd (m_new s k inner)))) /\
  same_kinds s (m_put (fst (m_new s k inner)) d (Some (snd (m_new s k inner)))) /\
  hs (m_put (fst (m_new s k inner)) d (Some (snd (m_new s k inner)))) = set_nth d (Some (length (objs s))) (hs s).
Proof.
  intros I P Hs Hd Hin.
  destruct (m_new_ok s k inner I) as (I1 & K1 & H1 & P1 & V1 & _).
  { intros b Hb. destruct (Hin b Hb) as (A & B). split; [|split; assumption]. rewrite P, Hb. left. reflexivity. }
  rewrite V1.
  destruct (m_put_ok (fst (m_new s k inner)) d (Some (length (objs s))) I1) as (I4 & K4 & O4 & H4 & P4).
  { rewrite (slot_hs s _ d H1). assumption. }
  { assumption. }
  { intros a Ha. inversion Ha; subst. rewrite P1. left. reflexivity. }
  split; [split; [assumption|]|split; [eapply same_kinds_trans; eassumption|congruence]].
  rewrite P4, P1. cbn [rm_opt]. rewrite remove_one_cons, P. destruct inner; cbn [rm_opt o2l]; [apply remove_one_cons|reflexivity].
Qed.

Lemma p_new_ok s k d : Good s -> slot s d = None -> d < NSLOT ->
  exists s', p_new s k d = Ok (s', OD) /\ Good s' /\ same_kinds s s'.
Proof.
  intros [I P] Hs Hd. unfold p_new.
  destruct (if is_static k then find_kind is_static (objs s) 0 else None) as [id|] eqn:F.
  - destruct (is_static k); [|discriminate].
    destruct (find_kind_spec _ _ _ _ F) as (_ & x & Ex & Px). rewrite Nat.sub_0_r in Ex.
    destruct (add_pend_static s id x I Ex Px) as [I1 K1].
    destruct (m_put_ok (add_pend s id) d (Some id) I1) as (I4 & K4 & O4 & H4 & P4); try assumption.
    { intros a Ha. inversion Ha; subst. left. reflexivity. }
    eexists. split; [reflexivity|]. split; [|eapply same_kinds_trans; eassumption].
    split; [assumption|]. rewrite P4. cbn [rm_opt add_pend pend]. rewrite remove_one_cons. assumption.
  - destruct (new_put_ok s k None d I P Hs Hd) as (G & K & _); [discriminate|].
    destruct (m_new s k None) as [s1 id]. cbn [fst snd] in *. eexists. split; [reflexivity|]. auto.
Qed.

Lemma mk_metabuf_ok s src d : Good s -> slot s d = None -> d < NSLOT ->
  (forall b, src = Some b -> 0 < H3 s b /\ exists y, nth_error (objs s) b = Some y /\ is_buf (okind y) = true) ->
  exists s1 id, mk_metabuf s src = Ok (s1, id) /\ Good (m_put s1 d (Some id)) /\ same_kinds s (m_put s1 d (Some id)).
Proof.
  intros [I P] Hs Hd Hsrc. unfold mk_metabuf.
  destruct (retain_ok s src I) as (s1 & ok & E & I1 & K1 & H1 & P1).
  { intros o Ho. apply (Hsrc o Ho). }
  rewrite E. cbn [bind].
  destruct (new_put_ok s1 KMetaBuf (if ok then src else None) d I1) as (G & K & _).
  - rewrite P1, P, app_nil_r. destruct ok; reflexivity.
  - rewrite (slot_hs s s1 d H1). assumption.
  - assumption.
  - intros b Hb. split; [reflexivity|]. assert (src = Some b) by (destruct ok; [assumption|discriminate]).
    destruct (Hsrc b H) as (_ & y & Ey & By). destruct K1 as [_ K1]. destruct (K1 b y Ey) as (y' & Ey' & Ky).
    exists y'. split; [assumption|congruence].
  - destruct (m_new s1 KMetaBuf (if ok then src else None)) as [s2 id]. cbn [fst snd] in *.
    eexists _, _. split; [reflexivity|]. split; [assumption|]. eapply same_kinds_trans; eassumption.
Qed.

Lemma kind_is_spec s v p : kind_is (kind_at s) v p = true ->
  exists o x, v = Some o /\ nth_error (objs s) o = Some x /\ p (okind x) = true.
Proof.
  unfold kind_is, kind_at. destruct v as [o|]; [|discriminate].
  destruct (nth_error (objs s) o) as [x|] eqn:E; [|discriminate]. intros H. exists o, x. auto.
Qed.

Lemma p_addref_ok s o d si : Good s -> slot s si = Some o -> slot s d = None -> d < NSLOT ->
  exists s' r, p_addref s o d = Ok (s', r) /\ Good s' /\ same_kinds s s'.
Proof.
  intros [I P] S Hs Hd. unfold p_addref.
  destruct (m_addref_ok s o I (H3_slot s si o S)) as (s1 & r & E & I1 & K1 & H1 & P1).
  rewrite E. cbn [bind]. destruct (r =? 0)%N.
  - eexists _, _. split; [reflexivity|]. split; [split; [assumption|congruence]|assumption].
  - destruct (m_put_ok s1 d (Some o) I1) as (I4 & K4 & O4 & H4 & P4).
    { rewrite (slot_hs s s1 d H1). assumption. }
    { assumption. }
    { intros a Ha. inversion Ha; subst. rewrite P1. left. reflexivity. }
    eexists _, _. split; [reflexivity|]. split; [|eapply same_kinds_trans; eassumption].
    split; [assumption|]. rewrite P4, P1, P. cbn [rm_opt]. apply remove_one_cons.
Qed.

Lemma p_clone_ok s o d si : Good s -> slot s si = Some o -> slot s d = None -> d < NSLOT ->
  exists s' t, p_clone s o d = Ok (s', t) /\ Good s' /\ same_kinds s s'.
Proof.
  intros G S Hs Hd. pose proof G as [I P]. unfold p_clone.
  destruct (inv_live s o I (H3_slot s si o S)) as (x & E & D). rewrite (live_ok s o x E D). cbn [bind].
  assert (N : forall k, exists s' t, (let '(s1, id) := m_new s k None in Ok (m_put s1 d (Some id), OD)) = Ok (s', t)
                                    /\ Good s' /\ same_kinds s s').
  { intros k. destruct (new_put_ok s k None d I P Hs Hd) as (G1 & K1 & _); [discriminate|].
    destruct (m_new s k None) as [s1 id]. cbn [fst snd] in *. eexists _, _. split; [reflexivity|]. auto. }
  assert (Z : exists s' t, Ok (s, OE) = Ok (s', t) /\ Good s' /\ same_kinds s s').
  { eexists _, _. split; [reflexivity|]. split; [assumption|apply same_kinds_refl]. }
  destruct (okind x) eqn:K; try exact Z; try apply N.
  pose proof (inv_obj s I o x E) as (_ & C2 & _).
  destruct (mk_metabuf_ok s (oinner x) d G Hs Hd) as (s1 & id & E1 & G1 & K1).
  { intros b Hb. split; [apply (H3_inner s o x b E Hb)|apply C2, Hb]. }
  rewrite E1. cbn [bind]. eexists _, _. split; [reflexivity|]. auto.
Qed.

(* ---------- assignment through conversion ---------- *)
Lemma p_conv_ok s si d : Good s -> d < NSLOT ->
  exists s' t, p_conv s si d = Ok (s', t) /\ Good s' /\ same_kinds s s'.
Proof.
  intros [I P] Hd. unfold p_conv.
  destruct (retain_ok s (slot s si) I) as (s1 & ok & E & I1 & K1 & H1 & P1).
  { intros o Ho. apply (H3_slot s si o Ho). }
  rewrite E. cbn [bind]. rewrite P, app_nil_r in P1. destruct ok; cbn [negb].
  - destruct (replace_ok s1 d (slot s si) I1 Hd) as (s3 & E3 & I4 & K4 & H4 & P4).
    { intros o Ho. rewrite P1, Ho. left. reflexivity. }
    destruct (m_take s1 d) as [s2 old]. cbn [fst snd] in E3. rewrite E3. cbn [bind].
    eexists _, _. split; [reflexivity|]. split; [|eapply same_kinds_trans; eassumption].
    split; [assumption|]. rewrite P4, P1. rewrite <- (app_nil_r (o2l (slot s si))). apply rm_opt_o2l.
  - eexists _, _. split; [reflexivity|]. split; [split; assumption|assumption].
Qed.

(* ---------- element-wise reference array copy ---------- *)
Lemma slot_after_init s s' d v i t :
  Inv s -> d < NSLOT -> i <> d ->
  (hs s' = hs s \/ (t /\ hs s' = set_nth d v (hs s))) -> slot s' i = slot s i.
Proof.
  intros I Hd Hi [H|[_ H]]; [apply slot_hs, H|].
  rewrite (slot_set s s' d v i H) by (rewrite (inv_len s I); assumption).
  destruct (Nat.eqb_spec d i); [congruence|reflexivity].
Qed.

Lemma p_refcopy_ok s : Good s -> slot s 3 = None -> slot s 4 = None -> slot s 5 = None ->
  exists s' t, p_refcopy s = Ok (s', t) /\ Good s' /\ same_kinds s s'.
Proof.
  intros G S3 S4 S5. unfold p_refcopy, p_reffini.
  assert (B3 : 3 < NSLOT) by (unfold NSLOT; lia). assert (B4 : 4 < NSLOT) by (unfold NSLOT; lia).
  assert (B5 : 5 < NSLOT) by (unfold NSLOT; lia).
  destruct (p_refinit_ok s 0 3 G S3 B3) as (s1 & r1 & E1 & G1 & K1 & H1 & _). rewrite E1. cbn [bind].
  destruct (is_ret r1); cbn [negb].
  2:{ eexists _, _. split; [reflexivity|]. auto. }
  assert (S4' : slot s1 4 = None) by (rewrite (slot_after_init s s1 3 (slot s 0) 4 _ (proj1 G) B3 ltac:(lia) H1); assumption).
  assert (S5' : slot s1 5 = None) by (rewrite (slot_after_init s s1 3 (slot s 0) 5 _ (proj1 G) B3 ltac:(lia) H1); assumption).
  destruct (p_refinit_ok s1 1 4 G1 S4' B4) as (s2 & r2 & E2 & G2 & K2 & H2 & _). rewrite E2. cbn [bind].
  destruct (is_ret r2); cbn [negb].
  2:{ destruct (p_unref_ok s2 3 G2) as (s3 & E3 & G3 & K3 & _). rewrite E3. cbn [bind].
      eexists _, _. split; [reflexivity|]. split; [assumption|].
      eapply same_kinds_trans; [exact K1|]. eapply same_kinds_trans; eassumption. }
  assert (S5'' : slot s2 5 = None) by (rewrite (slot_after_init s1 s2 4 (slot s1 1) 5 _ (proj1 G1) B4 ltac:(lia) H2); assumption).
  destruct (p_refinit_ok s2 2 5 G2 S5'' B5) as (s3 & r3 & E3 & G3 & K3 & H3' & _). rewrite E3. cbn [bind].
  assert (K13 : same_kinds s s3) by (eapply same_kinds_trans; [exact K1|]; eapply same_kinds_trans; eassumption).
  destruct (is_ret r3); cbn [negb].
  - eexists _, _. split; [reflexivity|]. auto.
  - destruct (p_unref_ok s3 4 G3) as (s4 & E4 & G4 & K4 & _). rewrite E4. cbn [bind].
    destruct (p_unref_ok s4 3 G4) as (s5 & E5 & G5 & K5 & _). rewrite E5. cbn [bind].
    eexists _, _. split; [reflexivity|]. split; [assumption|].
    eapply same_kinds_trans; [exact K13|]. eapply same_kinds_trans; eassumption.
Qed.

(* ---------- array clone / clear ---------- *)
Lemma store_then_unref s d set old :
  Inv s -> d < NSLOT -> slot s d = None -> pend s = o2l old ++ o2l set -> old <> set \/ old = None ->
  exists s', unref_opt (m_put s d set) old = Ok s' /\ Good s' /\ same_kinds s s'.
Proof.
  intros I Hd Hs P Hne.
  destruct (m_put_ok s d set I Hs Hd) as (I4 & K4 & O4 & H4 & P4).
  { intros o Ho. rewrite P, Ho. apply in_or_app. right. left. reflexivity. }
  assert (Pp : pend (m_put s d set) = o2l old).
  { rewrite P4, P. destruct set as [b|]; cbn [rm_opt o2l]; [|apply app_nil_r].
    destruct old as [a|]; cbn [o2l app remove_one].
    - destruct (Nat.eqb_spec a b) as [->|n]; [destruct Hne; congruence|]. rewrite Nat.eqb_refl. reflexivity.
    - rewrite Nat.eqb_refl. reflexivity. }
  destruct (unref_opt_ok (m_put s d set) old I4) as (s' & E & I' & K' & H' & P').
  { intros a Ha. rewrite Pp, Ha. left. reflexivity. }
  exists s'. split; [exact E|]. split; [|exact (same_kinds_trans _ _ _ K4 K')].
  split; [exact I'|]. rewrite P', Pp. rewrite <- (app_nil_r (o2l old)). apply rm_opt_o2l.
Qed.

Lemma p_arrclone_ok s si d : Good s -> d < NSLOT ->
  exists s' t, p_arrclone s si d = Ok (s', t) /\ Good s' /\ same_kinds s s'.
Proof.
  intros G Hd. pose proof G as [I P]. unfold p_arrclone.
  destruct (eq_opt (slot s si) (slot s d)) eqn:Q.
  { eexists _, _. split; [reflexivity|]. split; [assumption|apply same_kinds_refl]. }
  apply eq_opt_false in Q.
  destruct (tmismatch _ _ _); [eexists _, _; split; [reflexivity|]; split; [assumption|apply same_kinds_refl]|].
  destruct (retain_ok s (slot s si) I) as (s1 & ok & E & I1 & K1 & H1 & P1).
  { intros o Ho. apply (H3_slot s si o Ho). }
  rewrite E. cbn [bind]. rewrite P, app_nil_r in P1. destruct ok; cbn [negb].
  2:{ eexists _, _. split; [reflexivity|]. split; [split; assumption|assumption]. }
  destruct (m_take_ok s1 d I1) as (I2 & K2 & O2 & H2 & P2 & V2).
  destruct (m_take s1 d) as [s2 old]. cbn [fst snd] in *.
  assert (Vo : old = slot s d) by (rewrite V2; apply slot_hs, H1).
  destruct (store_then_unref s2 d (slot s si) old I2 Hd) as (s' & E' & G' & K').
  { rewrite (slot_set s1 s2 d None d H2) by (rewrite (inv_len s1 I1); assumption). rewrite Nat.eqb_refl. reflexivity. }
  { rewrite P2, P1, <- V2. reflexivity. }
  { left. congruence. }
  assert (KK : same_kinds s s') by (eapply same_kinds_trans; [exact K1|]; eapply same_kinds_trans; eassumption).
  destruct old as [a|]; cbn [unref_opt] in E'.
  - rewrite E'. cbn [bind]. eexists _, _. split; [reflexivity|]. auto.
  - inversion E'; subst s'. eexists _, _. split; [reflexivity|]. auto.
Qed.

Lemma p_arrclear_ok s d : Good s ->
  exists s' t, p_arrclear s d = Ok (s', t) /\ Good s' /\ same_kinds s s'.
Proof.
  intros G. destruct (p_unref_ok s d G) as (s' & E & G' & K' & _).
  unfold p_unref in E. unfold p_arrclear. destruct (m_take s d) as [s1 old]. destruct old as [a|]; cbn [unref_opt bind] in *.
  - destruct (m_unref s1 a) as [s2| |]; cbn [bind] in *; try discriminate. inversion E; subst.
    eexists _, _. split; [reflexivity|]. auto.
  - inversion E; subst. eexists _, _. split; [reflexivity|]. auto.
Qed.

(* ---------- detach ---------- *)
Lemma p_detach_ok s a o : Good s -> slot s a = Some o -> a < NSLOT ->
  exists s' t, p_detach s a o = Ok (s', t) /\ Good s' /\ same_kinds s s'.
Proof.
  intros G S Ha. pose proof G as [I P]. unfold p_detach.
  destruct (inv_live s o I (H3_slot s a o S)) as (x & E & D). rewrite (live_ok s o x E D). cbn [bind].
  destruct (ocnt x <? 2)%N.
  { eexists _, _. split; [reflexivity|]. split; [assumption|apply same_kinds_refl]. }
  destruct (m_new_ok s KBuf None I) as (I1 & K1 & H1 & P1 & V1 & _); [discriminate|].
  destruct (m_new s KBuf None) as [s1 n]. cbn [fst snd] in *. subst n.
  destruct (m_take_ok s1 a I1) as (I2 & K2 & O2 & H2 & P2 & V2).
  destruct (m_take s1 a) as [s2 old]. cbn [fst snd] in *.
  assert (So : slot s1 a = Some o) by (rewrite (slot_hs s s1 a H1); assumption).
  rewrite So in P2. cbn [o2l app] in P2.
  destruct (m_unref_ok s2 o I2) as (s3 & E3 & I3 & K3 & H3' & P3).
  { rewrite P2. left. reflexivity. }
  rewrite E3. cbn [bind]. rewrite P2, remove_one_cons, P1, P in P3. cbn [rm_opt] in P3.
  destruct (m_put_ok s3 a (Some (length (objs s))) I3) as (I4 & K4 & O4 & H4 & P4).
  { rewrite (slot_set s1 s3 a None a) by (try (rewrite (inv_len s1 I1); assumption); congruence).
    rewrite Nat.eqb_refl. reflexivity. }
  { assumption. }
  { intros b Hb. inversion Hb; subst. rewrite P3. left. reflexivity. }
  eexists _, _. split; [reflexivity|]. split.
  - split; [assumption|]. rewrite P4, P3. cbn [rm_opt]. apply remove_one_cons.
  - eapply same_kinds_trans; [exact K1|]. eapply same_kinds_trans; [exact K2|]. eapply same_kinds_trans; eassumption.
Qed.

Lemma raise_mid c : (0 < c)%N -> (c < CMAX)%N -> raise c = ((c + 1)%N, (c + 1)%N).
Proof. intros H1 H2. assert (Hw : (c < W)%N) by (rewrite W_val; lia). destruct (raise_refuses c Hw) as [_ A]. apply A. lia. Qed.

Lemma p_detachf_ok s a o : Good s -> slot s a = Some o -> kind_is (kind_at s) (slot s a) is_libbuf = true ->
  exists s' t, p_detachf s o = Ok (s', t) /\ Good s' /\ same_kinds s s'.
Proof.
  intros G S Hk. pose proof G as [I P]. unfold p_detachf.
  destruct (inv_live s o I (H3_slot s a o S)) as (x & E & D). rewrite (live_ok s o x E D). cbn [bind].
  destruct (N.ltb_spec (ocnt x) 2) as [L|L].
  { eexists _, _. split; [reflexivity|]. split; [assumption|apply same_kinds_refl]. }
  destruct (kind_is_spec s _ _ Hk) as (o0 & x0 & S0 & E0 & B0). rewrite S in S0. inversion S0; subst o0.
  rewrite E in E0. inversion E0; subst x0.
  assert (K : cls_of (okind x) = Counted) by (destruct (okind x); try discriminate; reflexivity).
  pose proof (inv_obj s I o x E) as (C1 & C2 & C3). rewrite D, K in C3. destruct C3 as (Hc & H0 & Hw).
  rewrite (lower_pos _ H0 Hw).
  replace (ocnt x - 1 =? 0)%N with false by (symmetry; apply N.eqb_neq; lia).
  rewrite raise_mid by (rewrite W_val in Hw; lia). replace (ocnt x - 1 + 1)%N with (ocnt x) by lia.
  eexists _, _. split; [reflexivity|].
  assert (R : Inv (set_obj s o (with_cnt x (ocnt x))) /\ same_kinds s (set_obj s o (with_cnt x (ocnt x)))).
  { apply (Inv_upd1 s _ o x (with_cnt x (ocnt x)) I E); simp_st; cbn [with_cnt okind oinner odead oext ocnt];
      try reflexivity; try assumption.
    - apply I.
    - intros o' n. apply (H3_set_obj s o x); [assumption|reflexivity].
    - rewrite D, K. rewrite (H3_set_obj s o x _ o E) by reflexivity. auto. }
  destruct R as [R1 R2]. split; [split; [assumption|exact P]|assumption].
Qed.

(* ---------- the array member of an object ---------- *)
Lemma take_inner_ok s o x : Inv s -> nth_error (objs s) o = Some x -> odead x = false ->
  Inv (take_inner s o x) /\ same_kinds s (take_inner s o x).
Proof.
  intros I E D. pose proof (inv_obj s I o x E) as (C1 & C2 & C3). rewrite D in C3.
  assert (EH : forall o', H3 (take_inner s o x) o' = H3 s o').
  { intros o'. unfold H3, take_inner. cbn [objs hs pend]. rewrite cnt_app.
    pose proof (cnt_flat_set_nth oin (objs s) o (with_inner x None) x o' E) as Q.
    unfold oin at 2 4 in Q. cbn [with_inner oinner o2l] in Q. rewrite cnt_nil in Q. lia. }
  apply (Inv_upd1 s _ o x (with_inner x None) I E); try reflexivity.
  - apply I.
  - intros o' _. apply EH.
  - discriminate.
  - cbn [with_inner odead okind ocnt oext]. rewrite D, EH. assumption.
Qed.

Lemma put_inner_ok s o x v : Inv s -> nth_error (objs s) o = Some x -> odead x = false -> oinner x = None ->
  (forall b, v = Some b -> In b (pend s) /\ is_buf (okind x) = false /\
             exists y, nth_error (objs s) b = Some y /\ is_buf (okind y) = true) ->
  exists s', put_inner s o v = Ok s' /\ Inv s' /\ same_kinds s s' /\ hs s' = hs s /\ pend s' = rm_opt v (pend s).
Proof.
  intros I E D Hi Hv. unfold put_inner. rewrite (live_ok s o x E D). cbn [bind].
  eexists. split; [reflexivity|].
  pose proof (inv_obj s I o x E) as (C1 & C2 & C3). rewrite D in C3.
  set (s' := mkst (set_nth o (with_inner x v) (objs s)) (hs s) (rm_opt v (pend s)) (elog s)).
  assert (EH : forall o', H3 s' o' = H3 s o').
  { intros o'. unfold H3, s'. cbn [objs hs pend].
    pose proof (cnt_flat_set_nth oin (objs s) o (with_inner x v) x o' E) as Q.
    unfold oin at 2 4 in Q. rewrite Hi in Q. cbn [with_inner oinner o2l] in Q. rewrite cnt_nil in Q.
    destruct v as [b|]; cbn [rm_opt o2l] in *.
    - destruct (Hv b eq_refl) as (Hb & _). pose proof (cnt_remove_one (pend s) b o' Hb) as R.
      rewrite cnt_cons, cnt_nil in Q. lia.
    - rewrite cnt_nil in Q. lia. }
  assert (R : Inv s' /\ same_kinds s s').
  { apply (Inv_upd1 s s' o x (with_inner x v) I E); try reflexivity.
    - apply I.
    - intros o' _. apply EH.
    - cbn [with_inner okind oinner]. intros Hb. destruct v as [b|]; [|reflexivity].
      destruct (Hv b eq_refl) as (_ & F & _). congruence.
    - cbn [with_inner oinner]. intros b Hb. apply (Hv b Hb).
    - cbn [with_inner odead okind ocnt oext]. rewrite D, EH. assumption. }
  destruct R as [R1 R2]. auto.
Qed.

Lemma p_setinner_ok s m o a : Good s -> slot s m = Some o ->
  kind_is (kind_at s) (slot s m) is_raw = true ->
  (is_none (slot s a) || kind_is (kind_at s) (slot s a) is_buf) = true ->
  exists s' t, p_setinner s o a = Ok (s', t) /\ Good s' /\ same_kinds s s'.
Proof.
  intros G S Hk Ha. pose proof G as [I P]. unfold p_setinner.
  destruct (inv_live s o I (H3_slot s m o S)) as (x & E & D). rewrite (live_ok s o x E D). cbn [bind].
  destruct (eq_opt (slot s a) (oinner x)) eqn:Q.
  { eexists _, _. split; [reflexivity|]. split; [assumption|apply same_kinds_refl]. }
  apply eq_opt_false in Q.
  destruct (tmismatch _ _ _); [eexists _, _; split; [reflexivity|]; split; [assumption|apply same_kinds_refl]|].
  destruct (kind_is_spec s _ _ Hk) as (o0 & x0 & S0 & E0 & B0). rewrite S in S0. inversion S0; subst o0.
  rewrite E in E0. inversion E0; subst x0.
  assert (NB : is_buf (okind x) = false) by (destruct (okind x); try discriminate; reflexivity).
  destruct (retain_ok s (slot s a) I) as (s1 & ok & E1 & I1 & K1 & H1 & P1).
  { intros b Hb. apply (H3_slot s a b Hb). }
  rewrite E1. cbn [bind]. rewrite P, app_nil_r in P1. destruct ok; cbn [negb].
  2:{ eexists _, _. split; [reflexivity|]. split; [split; assumption|assumption]. }
  destruct (retain_inner s _ s1 _ E1 o x E) as (x1 & Ex1 & Hi1).
  assert (Hp1 : 0 < H3 s1 o).
  { apply (H3_slot s1 m). rewrite (slot_hs s s1 m H1). assumption. }
  destruct (inv_live s1 o I1 Hp1) as (x1' & Ex1' & D1). rewrite Ex1 in Ex1'. inversion Ex1'; subst x1'.
  rewrite (live_ok s1 o x1 Ex1 D1). cbn [bind].
  destruct (take_inner_ok s1 o x1 I1 Ex1 D1) as [I2 K2].
  assert (E2 : nth_error (objs (take_inner s1 o x1)) o = Some (with_inner x1 None)).
  { unfold take_inner. cbn [objs]. rewrite nth_error_set_nth, Nat.eqb_refl, Ex1. reflexivity. }
  assert (Kx : okind x1 = okind x).
  { destruct K1 as [_ K1]. destruct (K1 o x E) as (x1' & Ex1'' & Kx). rewrite Ex1 in Ex1''. inversion Ex1''; subst. assumption. }
  destruct (put_inner_ok (take_inner s1 o x1) o (with_inner x1 None) (slot s a) I2 E2 D1 eq_refl) as (s3 & E3 & I3 & K3 & H3' & P3).
  { intros b Hb. split; [|split].
    - unfold take_inner. cbn [pend]. rewrite P1, Hb. apply in_or_app. right. left. reflexivity.
    - cbn [with_inner okind]. congruence.
    - rewrite Hb in Ha. cbn [is_none orb] in Ha. destruct (kind_is_spec s _ _ Ha) as (b0 & y & Sb & Ey & By).
      inversion Sb; subst b0.
      assert (KK : same_kinds s (take_inner s1 o x1)) by (eapply same_kinds_trans; eassumption).
      destruct KK as [_ KK]. destruct (KK b y Ey) as (y' & Ey' & Ky). exists y'. split; [assumption|congruence]. }
  rewrite E3. cbn [bind].
  assert (P3' : pend s3 = o2l (oinner x)).
  { rewrite P3. unfold take_inner. cbn [pend]. rewrite P1, Hi1.
    destruct (slot s a) as [b|]; cbn [rm_opt o2l]; [|apply app_nil_r].
    destruct (oinner x) as [c|]; cbn [o2l app remove_one].
    - destruct (Nat.eqb_spec c b) as [->|n]; [congruence|]. rewrite Nat.eqb_refl. reflexivity.
    - rewrite Nat.eqb_refl. reflexivity. }
  assert (K13 : same_kinds s s3) by (eapply same_kinds_trans; [exact K1|]; eapply same_kinds_trans; eassumption).
  destruct (oinner x) as [c|] eqn:Hc.
  - destruct (m_unref_ok s3 c I3) as (s4 & E4 & I4 & K4 & H4 & P4); [rewrite P3'; left; reflexivity|].
    rewrite E4. cbn [bind]. eexists _, _. split; [reflexivity|]. split; [|eapply same_kinds_trans; eassumption].
    split; [assumption|]. rewrite P4, P3'. cbn [o2l]. apply remove_one_cons.
  - eexists _, _. split; [reflexivity|]. split; [split; assumption|assumption].
Qed.

(* ---------- counters written by the environment ---------- *)
Lemma p_force_ok s i o v : Good s -> slot s i = Some o -> kind_is (kind_at s) (slot s i) is_counted = true ->
  (1 <=? v)%N = true -> (v <? W)%N = true -> (held s o <=? v)%N = true ->
  exists s' t, p_force s o v = Ok (s', t) /\ Good s' /\ same_kinds s s'.
Proof.
  intros G S Hk H1 Hw Hh. pose proof G as [I P]. unfold p_force.
  destruct (inv_live s o I (H3_slot s i o S)) as (x & E & D). rewrite (live_ok s o x E D). cbn [bind].
  destruct (kind_is_spec s _ _ Hk) as (o0 & x0 & S0 & E0 & B0). rewrite S in S0. inversion S0; subst o0.
  rewrite E in E0. inversion E0; subst x0.
  assert (K : cls_of (okind x) = Counted) by (unfold is_counted in B0; destruct (cls_of (okind x)); try discriminate; reflexivity).
  apply N.leb_le in H1, Hh. apply N.ltb_lt in Hw. rewrite held_H3 in *.
  pose proof (inv_obj s I o x E) as (C1 & C2 & C3).
  eexists _, _. split; [reflexivity|].
  set (x' := mkobj (okind x) v (v - N.of_nat (H3 s o))%N (odead x) (oinner x)).
  assert (R : Inv (set_obj s o x') /\ same_kinds s (set_obj s o x')).
  { apply (Inv_upd1 s _ o x x' I E); simp_st; cbn [x' okind oinner odead oext ocnt]; try reflexivity; try assumption.
    - apply I.
    - intros o' n. apply (H3_set_obj s o x); [assumption|reflexivity].
    - rewrite D, K. rewrite (H3_set_obj s o x _ o E) by reflexivity. split; [|split]; lia. }
  destruct R as [R1 R2]. split; [split; [assumption|exact P]|assumption].
Qed.

Lemma unforce_ok n : forall i s, Good s -> exists s', unforce s i n = Ok s' /\ Good s' /\ same_kinds s s'.
Proof.
  induction n as [|n IH]; intros i s G.
  { exists s. split; [reflexivity|]. split; [assumption|apply same_kinds_refl]. }
  pose proof G as [I P]. cbn [unforce].
  destruct (nth_error (objs s) i) as [x|] eqn:E.
  2:{ exists s. split; [reflexivity|]. split; [assumption|apply same_kinds_refl]. }
  destruct (odead x) eqn:D; cbn [orb]; [apply IH, G|].
  destruct (is_counted (okind x)) eqn:B; cbn [negb]; [|apply IH, G].
  assert (K : cls_of (okind x) = Counted) by (unfold is_counted in B; destruct (cls_of (okind x)); try discriminate; reflexivity).
  pose proof (inv_obj s I i x E) as (C1 & C2 & C3). rewrite D, K in C3. destruct C3 as (Hc & H0 & Hw).
  rewrite held_H3.
  destruct (N.eqb_spec (N.of_nat (H3 s i)) 0) as [Z|Z].
  - (* kept only by the environment: release it *)
    set (x' := mkobj (okind x) 1%N 0%N false (oinner x)).
    assert (R : Inv (add_pend (set_obj s i x') i) /\ same_kinds s (add_pend (set_obj s i x') i)).
    { apply (Inv_upd1 s _ i x x' I E); simp_st; cbn [x' okind oinner odead oext ocnt]; try reflexivity; try assumption.
      - apply I.
      - intros o' n0. rewrite H3_add_pend, (H3_set_obj s i x _ o' E) by reflexivity.
        destruct (Nat.eqb_spec i o'); [congruence|lia].
      - rewrite K. rewrite H3_add_pend, (H3_set_obj s i x _ i E), Nat.eqb_refl by reflexivity.
        split; [lia|]. split; reflexivity. }
    destruct R as [R1 R2].
    destruct (m_unref_ok (add_pend (set_obj s i x') i) i R1) as (s1 & E1 & I1 & K1 & H1 & P1); [left; reflexivity|].
    rewrite E1. cbn [bind].
    assert (G1 : Good s1).
    { split; [assumption|]. rewrite P1. cbn [add_pend pend set_obj]. rewrite remove_one_cons. exact P. }
    destruct (IH (S i) s1 G1) as (s2 & E2 & G2 & K2). exists s2. split; [assumption|]. split; [assumption|].
    eapply same_kinds_trans; [exact R2|]. eapply same_kinds_trans; eassumption.
  - set (x' := mkobj (okind x) (N.of_nat (H3 s i)) 0%N false (oinner x)).
    assert (R : Inv (set_obj s i x') /\ same_kinds s (set_obj s i x')).
    { apply (Inv_upd1 s _ i x x' I E); simp_st; cbn [x' okind oinner odead oext ocnt]; try reflexivity; try assumption.
      - apply I.
      - intros o' n0. apply (H3_set_obj s i x); [assumption|reflexivity].
      - rewrite K. rewrite (H3_set_obj s i x _ i E) by reflexivity. split; [lia|]. split; lia. }
    destruct R as [R1 R2].
    destruct (IH (S i) (set_obj s i x') (conj R1 P)) as (s2 & E2 & G2 & K2). exists s2. split; [assumption|].
    split; [assumption|]. eapply same_kinds_trans; eassumption.
Qed.

(* ---------- reference<T> ---------- *)
Lemma x_new_ok s k d : Good s -> d < NSLOT -> exists s' t, x_new s k d = Ok (s', t) /\ Good s' /\ same_kinds s s'.
Proof.
  intros [I P] Hd. unfold x_new.
  destruct (m_new_ok s k None I) as (I1 & K1 & H1 & P1 & V1 & _); [discriminate|].
  destruct (m_new s k None) as [s1 n]. cbn [fst snd] in *. subst n.
  destruct (replace_ok s1 d (Some (length (objs s))) I1 Hd) as (s3 & E3 & I4 & K4 & H4 & P4).
  { intros o Ho. inversion Ho; subst. rewrite P1. left. reflexivity. }
  destruct (m_take s1 d) as [s2 old]. cbn [fst snd] in E3. rewrite E3. cbn [bind].
  eexists _, _. split; [reflexivity|]. split; [|eapply same_kinds_trans; eassumption].
  split; [assumption|]. rewrite P4, P1, P. cbn [rm_opt]. apply remove_one_cons.
Qed.

Lemma x_assign_ok s si d : Good s -> d < NSLOT -> exists s' t, x_assign s si d = Ok (s', t) /\ Good s' /\ same_kinds s s'.
Proof.
  intros G Hd. pose proof G as [I P]. unfold x_assign.
  destruct (eq_opt (slot s si) (slot s d)).
  { eexists _, _. split; [reflexivity|]. split; [assumption|apply same_kinds_refl]. }
  destruct (retain_ok s (slot s si) I) as (s1 & ok & E & I1 & K1 & H1 & P1).
  { intros o Ho. apply (H3_slot s si o Ho). }
  rewrite E. cbn [bind]. rewrite P, app_nil_r in P1.
  destruct (replace_ok s1 d (if ok then slot s si else None) I1 Hd) as (s3 & E3 & I4 & K4 & H4 & P4).
  { intros o Ho. rewrite P1. destruct ok; [rewrite Ho; left; reflexivity|discriminate]. }
  destruct (m_take s1 d) as [s2 old]. cbn [fst snd] in E3. rewrite E3. cbn [bind].
  eexists _, _. split; [reflexivity|]. split; [|eapply same_kinds_trans; eassumption].
  split; [assumption|]. rewrite P4, P1. destruct ok; [|reflexivity].
  rewrite <- (app_nil_r (o2l (slot s si))). apply rm_opt_o2l.
Qed.

Lemma x_copy_ok s si d : Good s -> d < NSLOT -> exists s' t, x_copy s si d = Ok (s', t) /\ Good s' /\ same_kinds s s'.
Proof.
  intros G Hd. unfold x_copy.
  destruct (p_unref_ok s d G) as (s2 & E2 & G2 & K2 & _). unfold p_unref in E2.
  destruct (m_take s d) as [s1 old]. destruct (unref_opt s1 old) as [s2'| |]; cbn [bind] in *; try discriminate.
  inversion E2; subst s2'.
  destruct (x_assign_ok s2 si d G2 Hd) as (s' & t & E & G' & K'). rewrite E.
  eexists _, _. split; [reflexivity|]. split; [assumption|]. eapply same_kinds_trans; eassumption.
Qed.

Lemma x_move_ok s si d : Good s -> d < NSLOT -> exists s' t, x_move s si d = Ok (s', t) /\ Good s' /\ same_kinds s s'.
Proof.
  intros [I P] Hd. unfold x_move.
  destruct (m_take_ok s si I) as (I1 & K1 & O1 & H1 & P1 & V1).
  destruct (m_take s si) as [s1 r]. cbn [fst snd] in *. rewrite P, app_nil_r, <- V1 in P1.
  destruct (replace_ok s1 d r I1 Hd) as (s3 & E3 & I4 & K4 & H4 & P4).
  { intros o Ho. rewrite P1, Ho. left. reflexivity. }
  destruct (m_take s1 d) as [s2 old]. cbn [fst snd] in E3. rewrite E3. cbn [bind].
  eexists _, _. split; [reflexivity|]. split; [|eapply same_kinds_trans; eassumption].
  split; [assumption|]. rewrite P4, P1. rewrite <- (app_nil_r (o2l r)). apply rm_opt_o2l.
Qed.

Lemma x_detach_ok s si d : Good s -> d < NSLOT -> slot s d = None -> si <> d ->
  exists s' t, x_detach s si d = Ok (s', t) /\ Good s' /\ same_kinds s s'.
Proof.
  intros [I P] Hd Hs Hn. unfold x_detach.
  destruct (m_take_ok s si I) as (I1 & K1 & O1 & H1 & P1 & V1).
  destruct (m_take s si) as [s1 v]. cbn [fst snd] in *. rewrite P, app_nil_r, <- V1 in P1.
  destruct (m_put_ok s1 d v I1) as (I4 & K4 & O4 & H4 & P4).
  { unfold slot. rewrite H1, nth_set_nth. destruct (Nat.eqb_spec si d); [congruence|]. exact Hs. }
  { assumption. }
  { intros o Ho. rewrite P1, Ho. left. reflexivity. }
  eexists _, _. split; [reflexivity|]. split; [|eapply same_kinds_trans; eassumption].
  split; [assumption|]. rewrite P4, P1. rewrite <- (app_nil_r (o2l v)). apply rm_opt_o2l.
Qed.

Lemma x_clone_ok s o d si : Good s -> slot s si = Some o -> slot s d = None -> d < NSLOT ->
  exists s' t, x_clone s o d = Ok (s', t) /\ Good s' /\ same_kinds s s'.
Proof.
  intros G S Hs Hd. pose proof G as [I P]. unfold x_clone.
  destruct (inv_live s o I (H3_slot s si o S)) as (x & E & D). rewrite (live_ok s o x E D). cbn [bind].
  destruct (new_put_ok s (okind x) None d I P Hs Hd) as (G1 & K1 & _); [discriminate|].
  destruct (m_new s (okind x) None) as [s1 id]. cbn [fst snd] in *. eexists _, _. split; [reflexivity|]. auto.
Qed.

(* ---------- the stage array of a rawdata object ---------- *)
Lemma kind_is_stage_buf kd v : (is_none v || kind_is kd v is_stage) = true -> (is_none v || kind_is kd v is_buf) = true.
Proof.
  destruct v as [o|]; [|reflexivity]. cbn [is_none orb kind_is]. destruct (kd o) as [k|]; [|discriminate].
  destruct k; try discriminate; reflexivity.
Qed.

Lemma is_raw_not_buf k : is_raw k = true -> is_buf k = false.
Proof. destruct k; try discriminate; reflexivity. Qed.

Lemma new_inner_ok s o x : Good s -> nth_error (objs s) o = Some x -> odead x = false -> oinner x = None ->
  is_buf (okind x) = false ->
  exists s2, (let '(s1, n) := m_new s KStage None in put_inner s1 o (Some n)) = Ok s2 /\ Good s2 /\ same_kinds s s2 /\ hs s2 = hs s.
Proof.
  intros [I P] E D Hi NB.
  destruct (m_new_ok s KStage None I) as (I1 & K1 & H1 & P1 & V1 & En); [discriminate|].
  unfold m_new in *. cbn [fst snd] in *.
  set (s1 := mkst (objs s ++ [mkobj KStage match cls_of KStage with Counted => 1%N | _ => 0%N end 0%N false None]) (hs s)
                  (length (objs s) :: rm_opt None (pend s)) (elog s)) in *.
  assert (E1 : nth_error (objs s1) o = Some x).
  { unfold s1. cbn [objs]. rewrite nth_error_app1; [assumption|]. apply nth_error_Some. congruence. }
  destruct (put_inner_ok s1 o x (Some (length (objs s))) I1 E1 D Hi) as (s2 & E2 & I2 & K2 & H2 & P2).
  { intros b Hb. injection Hb as <-. split; [rewrite P1; left; reflexivity|]. split; [assumption|].
    eexists. split; [exact En|reflexivity]. }
  exists s2. split; [exact E2|]. split; [|split; [eapply same_kinds_trans; eassumption|congruence]].
  split; [assumption|]. rewrite P2, P1, P. cbn [rm_opt]. apply remove_one_cons.
Qed.

Lemma p_advance_ok s m o : Good s -> slot s m = Some o -> kind_is (kind_at s) (slot s m) is_raw = true ->
  exists s' t, p_advance s o = Ok (s', t) /\ Good s' /\ same_kinds s s'.
Proof.
  intros G S Hk. pose proof G as [I P]. unfold p_advance.
  destruct (inv_live s o I (H3_slot s m o S)) as (x & E & D). rewrite (live_ok s o x E D). cbn [bind].
  destruct (kind_is_spec s _ _ Hk) as (o0 & x0 & S0 & E0 & B0). rewrite S in S0. inversion S0; subst o0.
  rewrite E in E0. inversion E0; subst x0.
  destruct (oinner x) as [b|] eqn:Hi.
  - eexists _, _. split; [reflexivity|]. split; [assumption|apply same_kinds_refl].
  - destruct (new_inner_ok s o x G E D Hi (is_raw_not_buf _ B0)) as (s2 & E2 & G2 & K2 & _).
    destruct (m_new s KStage None) as [s1 n]. rewrite E2. cbn [bind]. eexists _, _. split; [reflexivity|]. auto.
Qed.

Lemma p_modify_ok s m o : Good s -> slot s m = Some o -> kind_is (kind_at s) (slot s m) is_raw = true ->
  exists s' t, p_modify s o = Ok (s', t) /\ Good s' /\ same_kinds s s'.
Proof.
  intros G S Hk. pose proof G as [I P]. unfold p_modify.
  destruct (inv_live s o I (H3_slot s m o S)) as (x & E & D). rewrite (live_ok s o x E D). cbn [bind].
  destruct (kind_is_spec s _ _ Hk) as (o0 & x0 & S0 & E0 & B0). rewrite S in S0. inversion S0; subst o0.
  rewrite E in E0. inversion E0; subst x0.
  pose proof (is_raw_not_buf _ B0) as NB.
  destruct (oinner x) as [b|] eqn:Hi.
  2:{ destruct (new_inner_ok s o x G E D Hi NB) as (s2 & E2 & G2 & K2 & _).
      destruct (m_new s KStage None) as [s1 n]. rewrite E2. cbn [bind]. eexists _, _. split; [reflexivity|]. auto. }
  destruct (inv_live s b I (H3_inner s o x b E Hi)) as (y & Ey & Dy). rewrite (live_ok s b y Ey Dy). cbn [bind].
  destruct (ocnt y <? 2)%N.
  { eexists _, _. split; [reflexivity|]. split; [assumption|apply same_kinds_refl]. }
  destruct (m_new_ok s KStage None I) as (I1 & K1 & H1 & P1 & V1 & En); [discriminate|].
  unfold m_new in *. cbn [fst snd] in *.
  set (s1 := mkst (objs s ++ [mkobj KStage match cls_of KStage with Counted => 1%N | _ => 0%N end 0%N false None]) (hs s)
                  (length (objs s) :: rm_opt None (pend s)) (elog s)) in *.
  assert (E1 : nth_error (objs s1) o = Some x).
  { unfold s1. cbn [objs]. rewrite nth_error_app1; [assumption|]. apply nth_error_Some. congruence. }
  rewrite (live_ok s1 o x E1 D). cbn [bind].
  destruct (take_inner_ok s1 o x I1 E1 D) as [I2 K2].
  assert (P2 : pend (take_inner s1 o x) = [b; length (objs s)]).
  { unfold take_inner. cbn [pend]. rewrite Hi. unfold s1. cbn [pend o2l app rm_opt]. rewrite P. reflexivity. }
  destruct (m_unref_ok (take_inner s1 o x) b I2) as (s3 & E3 & I3 & K3 & H3' & P3); [rewrite P2; left; reflexivity|].
  rewrite E3. cbn [bind]. rewrite P2, remove_one_cons in P3.
  destruct (m_unref_fr _ _ _ E3) as [[_ F3] _].
  destruct (F3 o (with_inner x None)) as (x3 & Ex3 & Kx3 & _ & Dx3).
  { unfold take_inner. cbn [objs]. rewrite nth_error_set_nth, Nat.eqb_refl, E1. reflexivity. }
  assert (S3 : slot s3 m = Some o).
  { rewrite (slot_hs (take_inner s1 o x) s3 m H3'). exact S. }
  destruct (inv_live s3 o I3 (H3_slot s3 m o S3)) as (x3' & Ex3' & D3). rewrite Ex3 in Ex3'. injection Ex3' as <-.
  destruct (Dx3 D3) as [_ Hi3]. cbn [with_inner oinner okind] in *.
  assert (K13 : same_kinds s s3).
  { eapply same_kinds_trans; [exact K1|]. eapply same_kinds_trans; eassumption. }
  destruct (put_inner_ok s3 o x3 (Some (length (objs s))) I3 Ex3 D3 Hi3) as (s4 & E4 & I4 & K4 & H4 & P4).
  { intros n Hn. injection Hn as <-. split; [rewrite P3; left; reflexivity|]. split; [congruence|].
    assert (KK : same_kinds s1 s3) by (eapply same_kinds_trans; eassumption).
    destruct KK as [_ KK]. destruct (KK _ _ En) as (y' & Ey' & Ky'). exists y'. split; [assumption|]. rewrite Ky'. reflexivity. }
  rewrite E4. cbn [bind]. eexists _, _. split; [reflexivity|]. split; [|eapply same_kinds_trans; eassumption].
  split; [assumption|]. rewrite P4, P3. cbn [rm_opt]. apply remove_one_cons.
Qed.

Lemma p_rawget_ok s m o a : Good s -> slot s m = Some o -> a < NSLOT ->
  exists s' t, p_rawget s o a = Ok (s', t) /\ Good s' /\ same_kinds s s'.
Proof.
  intros G S Ha. pose proof G as [I P]. unfold p_rawget.
  destruct (inv_live s o I (H3_slot s m o S)) as (x & E & D). rewrite (live_ok s o x E D). cbn [bind].
  destruct (eq_opt (oinner x) (slot s a)) eqn:Q.
  { eexists _, _. split; [reflexivity|]. split; [assumption|apply same_kinds_refl]. }
  apply eq_opt_false in Q.
  destruct (tmismatch _ _ _); [eexists _, _; split; [reflexivity|]; split; [assumption|apply same_kinds_refl]|].
  destruct (retain_ok s (oinner x) I) as (s1 & ok & E1 & I1 & K1 & H1 & P1).
  { intros b Hb. apply (H3_inner s o x b E Hb). }
  rewrite E1. cbn [bind]. rewrite P, app_nil_r in P1. destruct ok; cbn [negb].
  2:{ eexists _, _. split; [reflexivity|]. split; [split; assumption|assumption]. }
  destruct (m_take_ok s1 a I1) as (I2 & K2 & O2 & H2 & P2 & V2).
  destruct (m_take s1 a) as [s2 old]. cbn [fst snd] in *.
  assert (Vo : old = slot s a) by (rewrite V2; apply slot_hs, H1).
  destruct (store_then_unref s2 a (oinner x) old I2 Ha) as (s' & E' & G' & K').
  { rewrite (slot_set s1 s2 a None a H2) by (rewrite (inv_len s1 I1); assumption). rewrite Nat.eqb_refl. reflexivity. }
  { rewrite P2, P1, <- V2. reflexivity. }
  { left. congruence. }
  assert (KK : same_kinds s s') by (eapply same_kinds_trans; [exact K1|]; eapply same_kinds_trans; eassumption).
  destruct old as [b|]; cbn [unref_opt] in E'.
  - rewrite E'. cbn [bind]. eexists _, _. split; [reflexivity|]. auto.
  - inversion E'; subst s'. eexists _, _. split; [reflexivity|]. auto.
Qed.
