(* C15 — Reference counts track handles exactly (first part: the counter). *)
From MptV Require Import Base.Mem C15.RefcountModel C15.RefcountSpec C15.RefcountCounter.
Local Open Scope N_scope.

Theorem C15_raise_refuses_zero_and_max :
  forall c, c < W ->
    (c = 0 \/ c = CMAX -> raise c = (c, 0)) /\ (0 < c < CMAX -> raise c = (c + 1, c + 1)).
Proof. exact raise_refuses. Qed.

Theorem C15_lower_returns_remaining :
  forall c, c < W ->
    (0 < c -> lower c = (c - 1, c - 1)) /\ (c = 0 -> lower c = (0, CMAX)).
Proof. exact lower_remaining. Qed.

Print Assumptions C15_raise_refuses_zero_and_max.
Print Assumptions C15_lower_returns_remaining.
