(* C15 — Reference counts track handles exactly.
   This file holds only the property theorems (each closed by [exact] of a lemma proved
   elsewhere), their non-vacuity examples and Print Assumptions.

   Reading guide (C15/RefcountModel.v).  [raise]/[lower] transcribe mpt_refcount_raise/lower on a
   64 bit field ([W] = 2^64, [CMAX] = 2^64-1).  A state [st] holds the objects created so far
   ([ocnt] counter field, [odead] destroyed, [oinner] a buffer handle the object owns, [oext]
   handles the environment holds by having written the counter field), the handle slots [hs]
   and [pend], the handles in local variables of the running function.  [handles s] is the
   multiset (list) of ALL handles, [held s o] the number of handles on object [o].  [mrun init ops]
   runs a history of the 24 operations (addref, unref, clone, assignment through conversion,
   traits init/fini, reference array copy, array clone/clear, detach, rawdata array member, reply
   defer, forced counters, reference<T> set_instance/assign/copy/move/detach) from the empty
   state; [final init ops] is its last state, [None] after a use of a destroyed object ([Fault]).
   All theorems quantify over ALL histories [ops] (induction over the list, no bound). *)
From MptV Require Import Base.Mem C15.RefcountModel C15.RefcountSpec C15.RefcountCounter C15.RefcountInv
  C15.RefcountSteps C15.RefcountOps C15.RefcountRun C15.RefcountAssign C15.RefcountAbs.
Local Open Scope N_scope.

(* ---- the counter ---- *)
(* a counter at 0 (object in destruction) or at the maximum cannot be raised: failure (0) is
   reported and the field keeps its value — no wrap; otherwise it is incremented and returned *)
Theorem C15_raise_refuses_zero_and_max :
  forall c, c < W ->
    (c = 0 \/ c = CMAX -> raise c = (c, 0)) /\ (0 < c < CMAX -> raise c = (c + 1, c + 1)).
Proof. exact raise_refuses. Qed.

(* lower returns the remaining count; at 0 it reports (uintptr_t)-1 and does not wrap the field *)
Theorem C15_lower_returns_remaining :
  forall c, c < W ->
    (0 < c -> lower c = (c - 1, c - 1)) /\ (c = 0 -> lower c = (0, CMAX)).
Proof. exact lower_remaining. Qed.

(* any history of set/raise/lower on the bare counter: the modular code equals the counter
   written without modulus ([sraise]/[slower] of C15/RefcountSpec.v) *)
Theorem C15_counter_refines_spec :
  forall ops c, c < W -> Forall (fun o => match o with CSet v => v < W | _ => True end) ops ->
    crun c ops = scrun c ops.
Proof. exact (fun ops c => crun_spec ops c). Qed.

(* ---- all histories ---- *)
(* the counter of every live counted object equals the number of handles on it (slots, locals,
   handles owned by other objects) plus the handles the environment forced; it never is 0 and
   never leaves the 64 bit range *)
Theorem C15_count_is_handles :
  forall ops s, final init ops = Some s ->
  forall o x, nth_error (objs s) o = Some x -> odead x = false -> cls_of (okind x) = Counted ->
    ocnt x = held s o + oext x /\ 0 < ocnt x /\ ocnt x < W.
Proof. exact count_is_handles_l. Qed.

(* kinds that cannot be shared (geninfo, meta buffer, config root: addref = 0, callers clone) have
   exactly one handle while they exist *)
Theorem C15_unique_has_one_handle :
  forall ops s, final init ops = Some s ->
  forall o x, nth_error (objs s) o = Some x -> odead x = false -> cls_of (okind x) = Unique -> held s o = 1.
Proof. exact unique_one_handle_l. Qed.

(* no history performs an operation on a destroyed object (no use after free, no double free) *)
Theorem C15_history_never_faults :
  forall ops, exists s, final init ops = Some s /\ ~ In ObsFault (fst (mrun init ops)).
Proof. exact never_faults_l. Qed.

(* destroyed <-> no handle left (never earlier, never later); and no handle refers to a destroyed object *)
Theorem C15_destroy_exactly_at_zero :
  forall ops s, final init ops = Some s ->
  (forall o x, nth_error (objs s) o = Some x -> is_static (okind x) = false ->
     (odead x = true <-> held s o + oext x = 0)) /\
  (forall o, In o (handles s) -> exists x, nth_error (objs s) o = Some x /\ odead x = false).
Proof. exact destroy_exactly_at_zero_l. Qed.

(* "never later" in the form LeakSanitizer observes: an object that no handle reaches is alive only
   while the environment holds a forced count on it *)
Theorem C15_unreachable_only_if_forced :
  forall ops s, final init ops = Some s ->
  forall o x, nth_error (objs s) o = Some x -> odead x = false -> is_static (okind x) = false ->
    held s o = 0 -> 0 < oext x.
Proof. exact unreachable_is_forced_l. Qed.

(* the specification (C15/RefcountSpec.v) keeps no counter: it DERIVES "alive" and the count an object
   must show from the handles alone ([salive], [stotal]).  Applied to the handles of any state a
   history reaches ([abs] forgets counters, destruction flags, locals and the call log) it yields
   exactly what the model reads from its counter fields and destruction flags, and the same
   "unreachable but alive" verdict *)
Theorem C15_spec_observation_agrees :
  forall ops s, final init ops = Some s ->
  forall t, sobserve (abs s) t = match observe s t with Obs o d h _ => Obs o d h [] | ObsFault => ObsFault end.
Proof. exact history_observation_l. Qed.

Theorem C15_spec_leak_agrees :
  forall ops s, final init ops = Some s -> sleaked (abs s) = leaked s.
Proof. exact history_leak_l. Qed.

(* the invariant is inductive: from ANY state that satisfies it (not only reachable ones) every
   operation succeeds without fault and re-establishes it with no handle left in a local *)
Theorem C15_step_preserves_invariant :
  forall s o, Good s -> exists s' t, step s o = Ok (s', t) /\ Good s' /\ same_kinds s s'.
Proof. exact step_ok. Qed.

(* ---- assignment through conversion: _mpt_metatype_wrap(&slot si, TypeMetaRef, &slot d) ---- *)
(* old referent [a] and new referent [b] distinct, counted, [b] below the maximum: the target slot
   holds [b] afterwards, all other slots are unchanged, the counter of [b] is raised by exactly one,
   the counter of [a] lowered by exactly one, [a] is destroyed iff that was its last handle, no
   other object changes *)
Theorem C15_assign_releases_old_once_retains_new_once :
  forall s si d a b xa xb,
  Good s -> (d < NSLOT)%nat ->
  slot s si = Some b -> slot s d = Some a -> a <> b ->
  nth_error (objs s) b = Some xb -> cls_of (okind xb) = Counted -> ocnt xb < CMAX ->
  nth_error (objs s) a = Some xa -> cls_of (okind xa) = Counted -> oinner xa = None ->
  exists s', p_conv s si d = Ok (s', OD) /\
    slot s' d = Some b /\ (forall i, i <> d -> slot s' i = slot s i) /\ pend s' = [] /\
    (exists xb', nth_error (objs s') b = Some xb' /\ ocnt xb' = ocnt xb + 1 /\ odead xb' = false) /\
    (exists xa', nth_error (objs s') a = Some xa' /\ ocnt xa' = ocnt xa - 1 /\
                 (odead xa' = true <-> ocnt xa = 1)) /\
    (forall o, o <> a -> o <> b -> nth_error (objs s') o = nth_error (objs s) o).
Proof. exact conv_counts. Qed.

(* a new referent that cannot be shared (kind without counter, or counter at the maximum): the
   conversion reports failure and changes no slot and no object *)
Theorem C15_assign_refused_unchanged :
  forall s si d b xb,
  Good s -> slot s si = Some b -> nth_error (objs s) b = Some xb ->
  (cls_of (okind xb) = Unique \/ (cls_of (okind xb) = Counted /\ ocnt xb = CMAX)) ->
  exists s', p_conv s si d = Ok (s', OE) /\ hs s' = hs s /\ objs s' = objs s /\ pend s' = [].
Proof. exact conv_refused. Qed.

(* assigning the referent the target already holds: raised once, lowered once — nothing changes *)
Theorem C15_assign_same_unchanged :
  forall s si d b xb,
  Good s -> (d < NSLOT)%nat -> slot s si = Some b -> slot s d = Some b ->
  nth_error (objs s) b = Some xb -> cls_of (okind xb) = Counted -> ocnt xb < CMAX ->
  exists s', p_conv s si d = Ok (s', OD) /\ hs s' = hs s /\ objs s' = objs s /\ pend s' = [].
Proof. exact conv_same. Qed.

(* ---- non-vacuity ---- *)
Example C15_ex_raise_at_max : raise CMAX = (CMAX, 0) /\ raise 0 = (0, 0) /\ lower 0 = (0, CMAX)
                              /\ raise (CMAX - 1) = (CMAX, CMAX) /\ lower 1 = (0, 0).
Proof. vm_compute. repeat split. Qed.

Example C15_ex_init_good : Good init.
Proof. exact Good_init. Qed.

(* a counted metatype shared twice, assigned over a geninfo (which is thereby destroyed), then all dropped *)
Example C15_ex_history :
  map (fun r => match r with Obs t d _ _ => Some (t, d) | ObsFault => None end)
      (fst (mrun init [ONew KHCnt 0; OAddref 0 1; ONew KGen 2; OConv 0 2; OUnref 0; OUnref 1; OUnref 2]%nat))
  = [Some (OD, [DCnt 1]); Some (ORet 2, [DCnt 2]); Some (OD, [DCnt 2; DUni]); Some (OD, [DCnt 3; DDead]);
     Some (OD, [DCnt 2; DDead]); Some (OD, [DCnt 1; DDead]); Some (OD, [DDead; DDead])].
Proof. vm_compute. reflexivity. Qed.

(* the hypotheses of the assignment theorem are met by a reachable state: two counted metatypes *)
Example C15_ex_assign_state :
  match final init [ONew KHCnt 0; ONew KReply 1]%nat with
  | Some s =>
      Good s -> (* (C15_step_preserves_invariant gives it) *)
      slot s 0%nat = Some 0%nat /\ slot s 1%nat = Some 1%nat /\
      match nth_error (objs s) 0%nat, nth_error (objs s) 1%nat with
      | Some xb, Some xa => cls_of (okind xb) = Counted /\ ocnt xb < CMAX /\
                            cls_of (okind xa) = Counted /\ oinner xa = None
      | _, _ => False
      end
  | None => False
  end.
Proof. vm_compute. intros _. repeat split. Qed.

(* a counter forced to the maximum: the next share fails, the handle multiset is unchanged *)
Example C15_ex_forced_max :
  map (fun r => match r with Obs t d _ _ => Some (t, d) | ObsFault => None end)
      (fst (mrun init [ONew KHCnt 0; OForce 0 CMAX; OAddref 0 1; OConv 0 2; OUnforce; OUnref 0]%nat))
  = [Some (OD, [DCnt 1]); Some (OD, [DCnt CMAX]); Some (ORet 0, [DCnt CMAX]); Some (OE, [DCnt CMAX]);
     Some (OD, [DCnt 1]); Some (OD, [DDead])].
Proof. vm_compute. reflexivity. Qed.

Print Assumptions C15_raise_refuses_zero_and_max.
Print Assumptions C15_lower_returns_remaining.
Print Assumptions C15_counter_refines_spec.
Print Assumptions C15_count_is_handles.
Print Assumptions C15_unique_has_one_handle.
Print Assumptions C15_history_never_faults.
Print Assumptions C15_destroy_exactly_at_zero.
Print Assumptions C15_unreachable_only_if_forced.
Print Assumptions C15_spec_observation_agrees.
Print Assumptions C15_spec_leak_agrees.
Print Assumptions C15_step_preserves_invariant.
Print Assumptions C15_assign_releases_old_once_retains_new_once.
Print Assumptions C15_assign_refused_unchanged.
Print Assumptions C15_assign_same_unchanged.
