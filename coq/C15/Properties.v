(* C15 — Reference counts track handles exactly.
   This file holds only the property theorems (each closed by [exact] of a lemma proved
   elsewhere), their non-vacuity examples and Print Assumptions.

   Reading guide (C15/RefcountModel.v).  [raise]/[lower] transcribe mpt_refcount_raise/lower on a
   64 bit field ([W] = 2^64, [CMAX] = 2^64-1).  A state [st] holds the objects created so far
   ([ocnt] counter field, [odead] destroyed, [oinner] a buffer handle the object owns, [oext]
   handles the environment holds by having written the counter field), the handle slots [hs]
   and [pend], the handles in local variables of the running function.  [handles s] is the
   multiset (list) of ALL handles, [held s o] the number of handles on object [o].  [mrun init ops]
   runs a history of the 30 operations (addref, unref, clone, assignment through conversion,
   traits init/fini, reference array copy, array clone/clear, detach, reply defer, forced counters,
   the plot data object rawdata: modify / advance / its stage array shared out / handed in / calls
   that take no reference, reference<T> set_instance/assign/copy/move/detach, metatype::generic
   create/clone) over the 16 object kinds from the empty state; [final init ops] is its last state, [None] after a use of a destroyed object ([Fault]).
   All theorems quantify over ALL histories [ops] (induction over the list, no bound). *)
From MptV Require Import Base.Mem C15.RefcountModel C15.RefcountSpec C15.RefcountCounter C15.RefcountInv
  C15.RefcountSteps C15.RefcountFr C15.RefcountOps C15.RefcountRun C15.RefcountAssign C15.RefcountRel C15.RefcountFrame
  C15.RefcountSim C15.RefcountRefine C15.ChainModel C15.ChainSpec C15.ChainInv C15.ChainOps C15.ChainSim
  C15.ReplyModel C15.ReplySpec C15.ReplySim.
Local Open Scope N_scope.

(* ---- the counter ---- *)
(* a counter at 0 (object in destruction) or at the maximum cannot be raised: failure (0) is
   reported and the field keeps its value — no wrap; otherwise it is incremented and returned *)
Theorem C15_raise_refuses_zero_and_max :
  forall c, c < W ->
    (c = 0 \/ c = CMAX -> raise c = (c, 0)) /\ (0 < c < CMAX -> raise c = (c + 1, c + 1)).
Proof. exact raise_refuses. Qed.

(* lower returns the remaining count; at 0 it reports (uintptr_t)-1 and does not wrap the field *)
Theorem C15_lower_returns_remaining :
  forall c, c < W ->
    (0 < c -> lower c = (c - 1, c - 1)) /\ (c = 0 -> lower c = (0, CMAX)).
Proof. exact lower_remaining. Qed.

(* any history of set/raise/lower on the bare counter: the modular code equals the counter
   written without modulus ([sraise]/[slower] of C15/RefcountSpec.v) *)
Theorem C15_counter_refines_spec :
  forall ops c, c < W -> Forall (fun o => match o with CSet v => v < W | _ => True end) ops ->
    crun c ops = scrun c ops.
Proof. exact (fun ops c => crun_spec ops c). Qed.

(* ---- all histories ---- *)
(* the counter of every live counted object equals the number of handles on it (slots, locals,
   handles owned by other objects) plus the handles the environment forced; it never is 0 and
   never leaves the 64 bit range *)
Theorem C15_count_is_handles :
  forall ops s, final init ops = Some s ->
  forall o x, nth_error (objs s) o = Some x -> odead x = false -> cls_of (okind x) = Counted ->
    ocnt x = held s o + oext x /\ 0 < ocnt x /\ ocnt x < W.
Proof. exact count_is_handles_l. Qed.

(* kinds that cannot be shared (geninfo, meta buffer, config root: addref = 0, callers clone) have
   exactly one handle while they exist *)
Theorem C15_unique_has_one_handle :
  forall ops s, final init ops = Some s ->
  forall o x, nth_error (objs s) o = Some x -> odead x = false -> cls_of (okind x) = Unique -> held s o = 1.
Proof. exact unique_one_handle_l. Qed.

(* no history performs an operation on a destroyed object (no use after free, no double free) *)
Theorem C15_history_never_faults :
  forall ops, exists s, final init ops = Some s /\ ~ In ObsFault (fst (mrun init ops)).
Proof. exact never_faults_l. Qed.

(* destroyed <-> no handle left (never earlier, never later); and no handle refers to a destroyed object *)
Theorem C15_destroy_exactly_at_zero :
  forall ops s, final init ops = Some s ->
  (forall o x, nth_error (objs s) o = Some x -> is_static (okind x) = false ->
     (odead x = true <-> held s o + oext x = 0)) /\
  (forall o, In o (handles s) -> exists x, nth_error (objs s) o = Some x /\ odead x = false).
Proof. exact destroy_exactly_at_zero_l. Qed.

(* "never later" in the form LeakSanitizer observes: an object that no handle reaches is alive only
   while the environment holds a forced count on it *)
Theorem C15_unreachable_only_if_forced :
  forall ops s, final init ops = Some s ->
  forall o x, nth_error (objs s) o = Some x -> odead x = false -> is_static (okind x) = false ->
    held s o = 0 -> 0 < oext x.
Proof. exact unreachable_is_forced_l. Qed.

(* ---- refinement: the mechanism model refines the handle-multiset specification ----
   The specification (C15/RefcountSpec.v) keeps NO counter and NO destruction flag.  Its state is the
   created objects (kind, handles the environment holds, handle owned by the object) and the slots; its
   step [sstep] only moves handles ("slot d := what slot si holds", refused when [shareable] says the
   multiset cannot take one more); [salive], [stotal], [shareable] and the observation [sobserve] are
   DERIVED from the handles.  [Refines s ss] (C15/RefcountRel.v): the model state [s] satisfies the
   invariant with no handle in a local, has the slots of [ss], and every object has in [ss] a record
   of the same kind with the same environment handles and, while it exists, the same owned handle. *)

(* related states are observed identically: counters, destruction, slots, result (the vtable call log,
   which the specification does not have, aside) and the LeakSanitizer verdict *)
Theorem C15_refinement_preserves_observation :
  forall s ss, Refines s ss ->
    (forall t, sobserve ss t = strip (observe s t)) /\ sleaked ss = leaked s.
Proof. exact (fun s ss RF => conj (observe_ref s ss RF) (sleaked_ref s ss RF)). Qed.

(* STEP refinement, every one of the 30 operations, from EVERY pair of related states (not only reachable
   ones): the model step does not fault, returns exactly the specification's output and ends in a state
   related to the specification's next state *)
Theorem C15_step_refines_spec :
  forall s ss o, Refines s ss ->
    exists s', step s o = Ok (s', snd (sstep ss o)) /\ Refines s' (fst (sstep ss o)).
Proof. exact sim_step. Qed.

(* the same with the abstraction FUNCTION [abs] (forget counters, destruction flags, locals, call log):
   abs (model step s) = clean (spec step (abs s)) with the same output.  [sclean] erases the records of
   objects the specification no longer counts as existing (it never erases anything itself, the model
   clears the owned handle of a destroyed object); the uncleaned state is related as well, so it has
   the same observation and the same future *)
Theorem C15_step_commutes_with_abstraction :
  forall s o, Wf s ->
    exists s', step s o = Ok (s', snd (sstep (abs s) o)) /\ Wf s' /\
      abs s' = sclean (fst (sstep (abs s) o)) /\ Refines s' (fst (sstep (abs s) o)).
Proof. exact step_commutes_l. Qed.

(* HISTORY refinement: for every history the sequence of observations of the model (result, every
   counter field / destruction flag, every slot after every operation) IS the sequence the counter-free
   specification derives by running its own steps; the final states are related *)
Theorem C15_history_refines_spec :
  forall ops,
    map strip (fst (mrun init ops)) = fst (srun sinit ops) /\
    exists s, final init ops = Some s /\ Refines s (snd (srun sinit ops)).
Proof. exact history_refines_l. Qed.

(* both ways to obtain a specification state for a reached model state — running the specification over
   the history, or abstracting the model state — yield the model's observation and leak verdict *)
Theorem C15_spec_observation_agrees :
  forall ops s, final init ops = Some s ->
  forall t, sobserve (snd (srun sinit ops)) t = strip (observe s t) /\ sobserve (abs s) t = strip (observe s t).
Proof. exact history_observation_l. Qed.

Theorem C15_spec_leak_agrees :
  forall ops s, final init ops = Some s ->
    sleaked (snd (srun sinit ops)) = leaked s /\ sleaked (abs s) = leaked s.
Proof. exact history_leak_l. Qed.

(* corollary, every history: an object is destroyed EXACTLY when the last handle on it is dropped — never
   earlier, never later — where "the handles on it" are those of the specification state reached by the
   specification's own steps (slots + handles owned by existing objects + environment handles); and the
   counter field of an existing counted object is that number *)
Theorem C15_destroyed_iff_last_handle_dropped :
  forall ops, exists s, final init ops = Some s /\
    length (objs s) = length (sobjs (snd (srun sinit ops))) /\
    forall o x, nth_error (objs s) o = Some x ->
      odead x = negb (salive (snd (srun sinit ops)) o) /\
      (is_static (okind x) = false -> (odead x = true <-> stotal (snd (srun sinit ops)) o = 0)) /\
      (odead x = false -> cls_of (okind x) = Counted -> ocnt x = stotal (snd (srun sinit ops)) o).
Proof. exact destroyed_iff_no_handle_l. Qed.

(* corollary: a share the counter cannot take (saturated: field = 2^64-1; or a kind without counter) is
   REFUSED with the failure result of the operation (addref 0, conversion / traits init / defer error)
   and changes nothing observable: every counter, destruction flag and slot as before *)
Theorem C15_saturated_share_refused :
  forall s ss op si b x t,
  Refines s ss -> share_src op = Some si -> share_fail op = Some t ->
  slot s si = Some b -> nth_error (objs s) b = Some x ->
  (cls_of (okind x) = Unique \/ (cls_of (okind x) = Counted /\ ocnt x = CMAX)) ->
  guard (hs s) (kind_at s) (held s) op = true ->
  exists s', step s op = Ok (s', t) /\ Refines s' ss /\ strip (observe s' t) = strip (observe (clear_log s) t).
Proof. exact refused_share_l. Qed.

(* corollary: replacing a held reference, all three forms (conversion _mpt_metatype_wrap, mpt_array_clone,
   reference<T>::operator=), ALL object kinds (owners of buffers included), target empty / held / same:
   the target slot afterwards holds what the source holds and no other slot changes, i.e. the old
   referent lost exactly one slot handle and the new one gained exactly one; the resulting state refines
   "slot d := slot si", so every counter is again the number of handles and the old referent is
   destroyed iff that was its last handle (C15_refinement_preserves_observation) *)
Theorem C15_assign_any_form_releases_old_once_retains_new_once :
  forall s ss op si d,
  Refines s ss -> assign_op op = Some (si, d) ->
  shareable_opt ss (slot s si) = true ->
  tmismatch (kind_at s) (slot s si) (slot s d) = false ->   (* mpt_array_clone: a typed (stage) buffer is not replaced by an untyped one *)
  guard (hs s) (kind_at s) (held s) op = true ->
  exists s' t, step s op = Ok (s', t) /\ t <> OE /\ Refines s' (sput ss d (slot s si)) /\
    hs s' = set_nth d (slot s si) (hs s) /\
    forall o, (cnt (flat_map o2l (hs s')) o + ind (slot s d) o = cnt (flat_map o2l (hs s)) o + ind (slot s si) o)%nat.
Proof. exact assign_l. Qed.

(* corollary for the plot data object (mptplot/rawdata_create.c): modify, advance and the calls that take no
   reference never change what any slot holds — whoever shares the object's stage buffer (an array, another
   rawdata object, a meta buffer) keeps it; a modify of a shared buffer gives the OBJECT a fresh one (copy on
   write, [sstep]); the resulting state refines the specification's, so every counter is again the number of
   handles and the shared buffer lives exactly as long as somebody holds it *)
Theorem C15_rawdata_modify_keeps_sharers :
  forall s ss op, Refines s ss -> raw_local op = true ->
    exists s', step s op = Ok (s', snd (sstep ss op)) /\ Refines s' (fst (sstep ss op)) /\ hs s' = hs s.
Proof. exact raw_local_l. Qed.

(* the invariant is inductive: from ANY state that satisfies it (not only reachable ones) every
   operation succeeds without fault and re-establishes it with no handle left in a local *)
Theorem C15_step_preserves_invariant :
  forall s o, Good s -> exists s' t, step s o = Ok (s', t) /\ Good s' /\ same_kinds s s'.
Proof. exact step_ok. Qed.

(* ---- assignment through conversion: _mpt_metatype_wrap(&slot si, TypeMetaRef, &slot d) ---- *)
(* old referent [a] and new referent [b] distinct, counted, [b] below the maximum: the target slot
   holds [b] afterwards, all other slots are unchanged, the counter of [b] is raised by exactly one,
   the counter of [a] lowered by exactly one, [a] is destroyed iff that was its last handle, no
   other object changes *)
Theorem C15_assign_releases_old_once_retains_new_once :
  forall s si d a b xa xb,
  Good s -> (d < NSLOT)%nat ->
  slot s si = Some b -> slot s d = Some a -> a <> b ->
  nth_error (objs s) b = Some xb -> cls_of (okind xb) = Counted -> ocnt xb < CMAX ->
  nth_error (objs s) a = Some xa -> cls_of (okind xa) = Counted -> oinner xa = None ->
  exists s', p_conv s si d = Ok (s', OD) /\
    slot s' d = Some b /\ (forall i, i <> d -> slot s' i = slot s i) /\ pend s' = [] /\
    (exists xb', nth_error (objs s') b = Some xb' /\ ocnt xb' = ocnt xb + 1 /\ odead xb' = false) /\
    (exists xa', nth_error (objs s') a = Some xa' /\ ocnt xa' = ocnt xa - 1 /\
                 (odead xa' = true <-> ocnt xa = 1)) /\
    (forall o, o <> a -> o <> b -> nth_error (objs s') o = nth_error (objs s) o).
Proof. exact conv_counts. Qed.

(* a new referent that cannot be shared (kind without counter, or counter at the maximum): the
   conversion reports failure and changes no slot and no object *)
Theorem C15_assign_refused_unchanged :
  forall s si d b xb,
  Good s -> slot s si = Some b -> nth_error (objs s) b = Some xb ->
  (cls_of (okind xb) = Unique \/ (cls_of (okind xb) = Counted /\ ocnt xb = CMAX)) ->
  exists s', p_conv s si d = Ok (s', OE) /\ hs s' = hs s /\ objs s' = objs s /\ pend s' = [].
Proof. exact conv_refused. Qed.

(* assigning the referent the target already holds: raised once, lowered once — nothing changes *)
Theorem C15_assign_same_unchanged :
  forall s si d b xb,
  Good s -> (d < NSLOT)%nat -> slot s si = Some b -> slot s d = Some b ->
  nth_error (objs s) b = Some xb -> cls_of (okind xb) = Counted -> ocnt xb < CMAX ->
  exists s', p_conv s si d = Ok (s', OD) /\ hs s' = hs s /\ objs s' = objs s /\ pend s' = [].
Proof. exact conv_same. Qed.

(* ---- objects that OWN a reference to another object of their family (linked nodes) ----
   C15/ChainModel.v transcribes reference<T> of core.h for a class with a member  reference<node> next :
   [nobjs] (counter [ncnt], destroyed [ndead], owned handle [nnext]), slots [nhs], handles in locals [npend];
   type::unref() at zero runs the destructor, which releases the owned handle — the destruction CASCADE [n_unref];
   operator= RETAINS the new referent and THEN releases the old one ([n_assign_ptr], [n_assign_next]).
   11 operations [nop]: set_instance(new), copy-assign, copy-construct, move, detach, set_instance(raw), drop, raw
   addref/unref,  r[d]->next = r[s]  ([NSetNext], towards objects created earlier only: the harness guard keeps the
   ownership graph acyclic) and  r[d] = r[s]->next  ([NNext]; s = d walks along a chain).
   C15/ChainSpec.v is the specification: NO counter, NO destruction flag; created objects with the handle each owns
   (never erased) + slots; [ctotal] = slots holding the object + EXISTING objects owning a handle on it, [calive] =
   that number is not 0; a step only says what the target holds afterwards.  [CRef s ss]: the model state satisfies
   the invariant (counter = number of handles, destroyed = no handle, owned handles point to older objects) with no
   handle in a local, has the slots of [ss], and every existing object has in [ss] the record of its owned handle. *)

(* STEP refinement, each of the 11 operations, from EVERY pair of related states: no fault (no use of a destroyed
   object, the cascade terminates), the specification's output, related successors *)
Theorem C15_chain_step_refines_spec :
  forall s ss o, CRef s ss ->
    exists s', nstep s o = Ok (s', snd (csstep ss o)) /\ CRef s' (fst (csstep ss o)).
Proof. exact csim_step. Qed.

(* related states are observed identically: every counter, every destruction flag, every owned handle of an
   existing object, every slot, the result — and nothing is left for LeakSanitizer *)
Theorem C15_chain_refinement_preserves_observation :
  forall s ss, CRef s ss ->
    (forall t, csobserve ss t = nstrip (nobserve s t)) /\ csleaked ss = nleaked s /\
    (forall o, N.of_nat (ctotal ss o) = nheld s o).
Proof.
  exact (fun s ss RF => conj (cobserve_ref s ss RF) (conj (cleaked_ref s ss RF)
           (fun o => eq_trans (f_equal N.of_nat (ctotal_ref s ss RF o)) (eq_sym (nheld_NH s o))))).
Qed.

(* HISTORY refinement: for every history the model's observation sequence is the one the specification derives by
   its own steps; the final states are related; no history faults *)
Theorem C15_chain_history_refines_spec :
  forall ops,
    map nstrip (fst (nrun ninit ops)) = fst (csrun csinit ops) /\
    exists s, nfinal ninit ops = Some s /\ CRef s (snd (csrun csinit ops)).
Proof. exact chain_history_l. Qed.

Theorem C15_chain_history_never_faults :
  forall ops, exists s, nfinal ninit ops = Some s /\ ~ In NObsFault (fst (nrun ninit ops)).
Proof. exact chain_never_faults_l. Qed.

(* every history: an object is destroyed EXACTLY when its last handle goes — a handle OWNED by an existing object is
   a handle like a slot — never earlier, never later; the counter of an existing object is the number of its
   handles and it still owns what the specification says *)
Theorem C15_chain_destroyed_iff_last_handle_dropped :
  forall ops, exists s, nfinal ninit ops = Some s /\
    length (nobjs s) = length (cnx (snd (csrun csinit ops))) /\
    forall o x, nth_error (nobjs s) o = Some x ->
      ndead x = negb (calive (snd (csrun csinit ops)) o) /\
      (ndead x = true <-> ctotal (snd (csrun csinit ops)) o = 0%nat) /\
      (ndead x = false -> ncnt x = N.of_nat (ctotal (snd (csrun csinit ops)) o) /\
                          csnext (snd (csrun csinit ops)) o = nnext x).
Proof. exact chain_destroyed_iff_l. Qed.

(* the step along a chain  r[d] = r[d].instance()->next  from ANY related state: afterwards the slot holds the
   successor [b] and [b] EXISTS — also when the only handle on [b] was the one the old head owned and the old head
   loses its last handle in this very assignment (it is destroyed, its owned handle released: the count of [b] goes
   2 -> 1, never through 0); the state refines "slot d := b" *)
Theorem C15_chain_step_keeps_successor :
  forall s ss d o x b,
  CRef s ss -> (bank d =? 3)%nat = true -> nslot s d = Some o -> nth_error (nobjs s) o = Some x -> nnext x = Some b ->
  cshareable ss b = true ->
  exists s', nstep s (NNext d d) = Ok (s', OD) /\ CRef s' (csput ss d (Some b)) /\ nslot s' d = Some b /\
    exists xb, nth_error (nobjs s') b = Some xb /\ ndead xb = false /\ 0 < ncnt xb.
Proof. exact chain_step_along_l. Qed.

(* the destruction cascade: releasing a handle held in a local, from any state that satisfies the invariant, does
   not fault on [o + 1] levels of fuel, restores the invariant, touches no slot, consumes exactly that handle and
   changes the owned handle of no object that exists afterwards *)
Theorem C15_chain_release_cascade :
  forall f s o, NInv s -> In o (npend s) -> (o < f)%nat ->
    exists s', n_unref f s o = Ok s' /\ NInv s' /\ nhs s' = nhs s /\ npend s' = remove_one o (npend s) /\ nframe s s'.
Proof. exact n_unref_ok. Qed.

Theorem C15_chain_step_preserves_invariant :
  forall s o, NGood s -> exists s' t, nstep s o = Ok (s', t) /\ NGood s'.
Proof. exact chain_step_ok_l. Qed.

(* ---- non-vacuity ---- *)
Example C15_ex_raise_at_max : raise CMAX = (CMAX, 0) /\ raise 0 = (0, 0) /\ lower 0 = (0, CMAX)
                              /\ raise (CMAX - 1) = (CMAX, CMAX) /\ lower 1 = (0, 0).
Proof. vm_compute. repeat split. Qed.

Example C15_ex_init_good : Good init.
Proof. exact Good_init. Qed.

(* a counted metatype shared twice, assigned over a geninfo (which is thereby destroyed), then all dropped *)
Example C15_ex_history :
  map (fun r => match r with Obs t d _ _ => Some (t, d) | ObsFault => None end)
      (fst (mrun init [ONew KHCnt 0; OAddref 0 1; ONew KGen 2; OConv 0 2; OUnref 0; OUnref 1; OUnref 2]%nat))
  = [Some (OD, [DCnt 1]); Some (ORet 2, [DCnt 2]); Some (OD, [DCnt 2; DUni]); Some (OD, [DCnt 3; DDead]);
     Some (OD, [DCnt 2; DDead]); Some (OD, [DCnt 1; DDead]); Some (OD, [DDead; DDead])].
Proof. vm_compute. reflexivity. Qed.

(* the hypotheses of the assignment theorem are met by a reachable state: two counted metatypes *)
Example C15_ex_assign_state :
  match final init [ONew KHCnt 0; ONew KReply 1]%nat with
  | Some s =>
      Good s -> (* (C15_step_preserves_invariant gives it) *)
      slot s 0%nat = Some 0%nat /\ slot s 1%nat = Some 1%nat /\
      match nth_error (objs s) 0%nat, nth_error (objs s) 1%nat with
      | Some xb, Some xa => cls_of (okind xb) = Counted /\ ocnt xb < CMAX /\
                            cls_of (okind xa) = Counted /\ oinner xa = None
      | _, _ => False
      end
  | None => False
  end.
Proof. vm_compute. intros _. repeat split. Qed.

(* a counter forced to the maximum: the next share fails, the handle multiset is unchanged *)
Example C15_ex_forced_max :
  map (fun r => match r with Obs t d _ _ => Some (t, d) | ObsFault => None end)
      (fst (mrun init [ONew KHCnt 0; OForce 0 CMAX; OAddref 0 1; OConv 0 2; OUnforce; OUnref 0]%nat))
  = [Some (OD, [DCnt 1]); Some (OD, [DCnt CMAX]); Some (ORet 0, [DCnt CMAX]); Some (OE, [DCnt CMAX]);
     Some (OD, [DCnt 1]); Some (OD, [DDead])].
Proof. vm_compute. reflexivity. Qed.

(* the refinement relation is inhabited at the start, and by every reached state (C15_history_refines_spec) *)
Example C15_ex_refines_init : Refines init sinit /\ Wf init.
Proof. split; [exact Refines_init|exact (Refines_wf _ _ Refines_init)]. Qed.

(* a buffer owned by a meta buffer: dropping the owner destroys it and releases the buffer handle it owns;
   the specification, run by its own steps, shows the same counters and destruction — and keeps the
   record of the destroyed owner (which is why the commuting square is stated up to [sclean]) *)
Example C15_ex_owner_history :
  let ops := [ONew KBuf 6; OMetaBuf 6 0; OUnref 0; OArrClear 6]%nat in
  map (fun r => match r with Obs t d _ _ => Some (t, d) | ObsFault => None end) (fst (srun sinit ops))
  = [Some (OD, [DCnt 1]); Some (OD, [DCnt 2; DUni]); Some (OD, [DCnt 1; DDead]); Some (ORet 2, [DDead; DDead])] /\
  fst (srun sinit ops) = map strip (fst (mrun init ops)) /\
  match final init ops with
  | Some s => abs s <> snd (srun sinit ops) /\ abs s = sclean (snd (srun sinit ops))
  | None => False
  end.
Proof. vm_compute. repeat split. discriminate. Qed.

(* clone of a counted kind makes a NEW object with its own count of 1 and leaves the source alone (file
   iterator created by name, metatype::generic); a file iterator without name refuses to clone *)
Example C15_ex_clone_counted :
  map (fun r => match r with Obs t d _ _ => Some (t, d) | ObsFault => None end)
      (fst (mrun init [ONew KIterName 0; OClone 0 1; OAddref 1 2; OUnref 0; ONew KIterFd 3; OClone 3 4;
                       XGen 12; XClone 12 15; XDrop 12]%nat))
  = [Some (OD, [DCnt 1]); Some (OD, [DCnt 1; DCnt 1]); Some (ORet 2, [DCnt 1; DCnt 2]); Some (OD, [DDead; DCnt 2]);
     Some (OD, [DDead; DCnt 2; DCnt 1]); Some (OE, [DDead; DCnt 2; DCnt 1]);
     Some (OD, [DDead; DCnt 2; DCnt 1; DCnt 1]); Some (OD, [DDead; DCnt 2; DCnt 1; DCnt 1; DCnt 1]);
     Some (OD, [DDead; DCnt 2; DCnt 1; DDead; DCnt 1])].
Proof. vm_compute. reflexivity. Qed.

(* the plot data object (rawdata_create.c): advance / modify give it a stage buffer; shared out into an array
   (count 2) the next modify detaches — the object gets a private copy (count 1), the array keeps the old one
   (count 1), which dies with the array; a refused modify touches nothing; the last unref releases the copy.
   Third component: what array slot 6 holds *)
Example C15_ex_rawdata_copy_on_write :
  map (fun r => match r with Obs t d h _ => Some (t, d, nth 6 h None) | ObsFault => None end)
      (fst (mrun init [ONew KRaw 0; ORawAdvance 0; ORawModify 0; ORawGet 0 6; ORawCall 0 true; ORawModify 0;
                       ORawAdvance 0; OArrClear 6; OUnref 0]%nat))
  = [Some (OD, [DCnt 1], None); Some (OD, [DCnt 1; DCnt 1], None); Some (OD, [DCnt 1; DCnt 1], None);
     Some (ORet 1, [DCnt 1; DCnt 2], Some 1%nat); Some (OE, [DCnt 1; DCnt 2], Some 1%nat);
     Some (OD, [DCnt 1; DCnt 1; DCnt 1], Some 1%nat); Some (OD, [DCnt 1; DCnt 1; DCnt 1], Some 1%nat);
     Some (ORet 2, [DCnt 1; DDead; DCnt 1], None); Some (OD, [DDead; DDead; DDead], None)].
Proof. vm_compute. reflexivity. Qed.

(* the hypotheses of the refusal theorem are met by a reachable state (counter forced to the maximum),
   those of the assignment theorem by another one (a counted metatype assigned over a geninfo) *)
Example C15_ex_refusal_and_assign_states :
  match final init [ONew KHCnt 0; OForce 0 CMAX]%nat, final init [ONew KHCnt 0; ONew KGen 1]%nat with
  | Some s1, Some s2 =>
      slot s1 0%nat = Some 0%nat /\
      match nth_error (objs s1) 0%nat with Some x => cls_of (okind x) = Counted /\ ocnt x = CMAX | None => False end /\
      guard (hs s1) (kind_at s1) (held s1) (OConv 0 1)%nat = true /\
      guard (hs s1) (kind_at s1) (held s1) (OAddref 0 1)%nat = true /\
      shareable_opt (abs s2) (slot s2 0%nat) = true /\
      tmismatch (kind_at s2) (slot s2 0%nat) (slot s2 1%nat) = false /\
      guard (hs s2) (kind_at s2) (held s2) (OConv 0 1)%nat = true
  | _, _ => False
  end.
Proof. vm_compute. repeat split. Qed.

(* linked nodes: chain 2 -> 1 -> 0 built from the tail, held by slot 12 alone; three steps  cur = cur->next : each
   destroys exactly the old head, the successor's count stays 1; last column: the vtable calls (retain BEFORE release) *)
Example C15_ex_chain_walk :
  map (fun r => match r with NObs t d h e => Some (t, d, nth 12 h None, e) | NObsFault => None end)
      (fst (nrun ninit [NNew 12; NNew 13; NSetNext 12 13; NMove 13 12; NNew 13; NSetNext 12 13; NMove 13 12;
                        NNext 12 12; NNext 12 12; NNext 12 12]%nat))
  = [Some (OD, [NLive 1 None], Some 0, []);
     Some (OD, [NLive 1 None; NLive 1 None], Some 0, []);
     Some (OD, [NLive 2 None; NLive 1 (Some 0)], Some 0, [EAdd 0]);
     Some (OD, [NLive 1 None; NLive 1 (Some 0)], Some 1, [EUnr 0]);
     Some (OD, [NLive 1 None; NLive 1 (Some 0); NLive 1 None], Some 1, []);
     Some (OD, [NLive 1 None; NLive 2 (Some 0); NLive 1 (Some 1)], Some 1, [EAdd 1]);
     Some (OD, [NLive 1 None; NLive 1 (Some 0); NLive 1 (Some 1)], Some 2, [EUnr 1]);
     Some (OD, [NLive 1 None; NLive 1 (Some 0); NDead], Some 1, [EAdd 1; EUnr 2; EDel 2; EUnr 1]);
     Some (OD, [NLive 1 None; NDead; NDead], Some 0, [EAdd 0; EUnr 1; EDel 1; EUnr 0]);
     Some (OD, [NDead; NDead; NDead], None, [EUnr 0; EDel 0])]%nat.
Proof. vm_compute. reflexivity. Qed.

(* the ORDER inside operator= is what the theorems are about: with the two halves exchanged (release the old
   referent, then retain the new one) the step along the chain 1 -> 0 uses the destroyed object 0 — a [Fault];
   the transcribed order ends with slot 12 holding object 0, count 1, object 1 destroyed.  The hypotheses of
   C15_chain_step_keeps_successor are met by this reachable state *)
Example C15_ex_release_first_faults :
  match nfinal ninit [NNew 12; NNew 13; NSetNext 12 13; NMove 13 12]%nat with
  | Some s =>
      nslot s 12%nat = Some 1%nat /\ csnext (nabs s) 1%nat = Some 0%nat /\ cshareable (nabs s) 0%nat = true /\
      n_assign_ptr_release_first s (Some 0%nat) 12%nat = Fault /\
      match n_assign_ptr s (Some 0%nat) 12%nat with
      | Ok s' => map ndisp_obj (nobjs s') = [NLive 1 None; NDead] /\ nslot s' 12%nat = Some 0%nat
      | _ => False
      end
  | None => False
  end.
Proof. vm_compute. repeat split. Qed.

Example C15_ex_chain_refines_init : CRef ninit csinit.
Proof. exact CRef_init. Qed.

(* ================= the deferrable reply context (ReplyModel.v / ReplySpec.v / ReplySim.v) =================
   handles on a context = metatype pointers + detached replies; operations PNew PSet PDefer PSend PReply PAddref PUnref PFail *)
Local Open Scope nat_scope.

(* every operation from EVERY state satisfying the invariant: no fault, the specification (run on the abstraction of the
   state: no counter, no destruction flag) returns the same result and the same calls of the send callback, and its
   successor IS the abstraction of the model's successor; the invariant is kept *)
Theorem C15_reply_step_refines_spec : forall s op, PInv s ->
  exists s' out evs, pstep s op = Ok (s', out, evs) /\ psstep (pabs s) op = (pabs s', out, evs) /\ PInv s'.
Proof. exact psim_step. Qed.

Theorem C15_reply_refinement_preserves_observation : forall s r e, PInv s ->
  psobserve (pabs s) r e = pobserve s r e /\ pleaked s = false.
Proof. exact (fun s r e I => conj (pobserve_abs s r e I) (pleaked_never s I)). Qed.

Theorem C15_reply_history_refines_spec : forall ops,
  exists f, prun pinit ops = (fst (psrun psinit ops), Some f) /\ snd (psrun psinit ops) = pabs f /\ PInv f /\
            pleaked f = psleaked (snd (psrun psinit ops)).
Proof. exact preply_history_refines. Qed.

Theorem C15_reply_destroyed_iff_last_handle_dropped : forall ops f,
  prun pinit ops = (fst (psrun psinit ops), Some f) -> snd (psrun psinit ops) = pabs f -> PInv f ->
  forall o x, nth_error (pobjs f) o = Some x ->
    pdead x = negb (palive (snd (psrun psinit ops)) o) /\
    (pdead x = false -> pcnt x = N.of_nat (ptotal (snd (psrun psinit ops)) o)).
Proof. exact preply_destroyed_iff_last. Qed.

(* defer() while no request is pending: no handle, and NOTHING changes (counter, slots, data), in model and specification *)
Theorem C15_reply_refused_defer_unchanged : forall s i d o x,
  PInv s -> mslot s i = Some o -> nth_error (pobjs s) o = Some x -> rlen (pdata x) = 0%N ->
  exists r, pstep s (PDefer i d) = Ok (s, r, []) /\ (r = PE \/ r = PX) /\
            psstep (pabs s) (PDefer i d) = (pabs s, r, []).
Proof. exact preply_refused_defer_unchanged. Qed.

Theorem C15_reply_last_unref_sends_default_reply_once : forall s i o x l id,
  PInv s -> mslot s i = Some o -> PH s o = 1%nat -> nth_error (pobjs s) o = Some x ->
  psend x = true -> abs_data (pdata x) = Some (l, id) ->
  exists s', pstep s (PUnref i) = Ok (s', PD, [mksend o l id false]) /\ PInv s' /\ PH s' o = 0%nat /\
             exists x', nth_error (pobjs s') o = Some x' /\ pdead x' = true.
Proof. exact preply_last_unref_default_reply. Qed.

(* non-vacuity: set id A, defer (accepted), defer (REFUSED: nothing pending, counter stays 2), set id B, answer A through the
   detached reply, drop the last handle: default reply for B, context destroyed *)
Example C15_ex_reply_refused_defer :
  fst (prun pinit [PNew 0 2; PSet 0 2 17; PDefer 0 0; PDefer 0 1; PSet 0 2 34; PReply 0 true; PUnref 0]) =
  [PObs PD [] [PLive 1 true None] [Some 0; None; None; None; None; None] [None; None; None];
   PObs (PR 0) [] [PLive 1 true (Some (2%N, 17%N))] [Some 0; None; None; None; None; None] [None; None; None];
   PObs PD [] [PLive 2 true None] [Some 0; None; None; None; None; None] [Some (0, Some (2%N, 17%N)); None; None];
   PObs PE [] [PLive 2 true None] [Some 0; None; None; None; None; None] [Some (0, Some (2%N, 17%N)); None; None];
   PObs (PR 0) [] [PLive 2 true (Some (2%N, 34%N))] [Some 0; None; None; None; None; None] [Some (0, Some (2%N, 17%N)); None; None];
   PObs (PR 7) [mksend 0 2 17 true] [PLive 1 true (Some (2%N, 34%N))] [Some 0; None; None; None; None; None] [None; None; None];
   PObs PD [mksend 0 2 34 false] [PDead] [None; None; None; None; None; None] [None; None; None]].
Proof. vm_compute. reflexivity. Qed.

Example C15_ex_reply_refines_init : PInv pinit /\ pabs pinit = psinit.
Proof. exact (conj PInv_init pabs_init). Qed.


Print Assumptions C15_raise_refuses_zero_and_max.
Print Assumptions C15_lower_returns_remaining.
Print Assumptions C15_counter_refines_spec.
Print Assumptions C15_count_is_handles.
Print Assumptions C15_unique_has_one_handle.
Print Assumptions C15_history_never_faults.
Print Assumptions C15_destroy_exactly_at_zero.
Print Assumptions C15_unreachable_only_if_forced.
Print Assumptions C15_refinement_preserves_observation.
Print Assumptions C15_step_refines_spec.
Print Assumptions C15_step_commutes_with_abstraction.
Print Assumptions C15_history_refines_spec.
Print Assumptions C15_destroyed_iff_last_handle_dropped.
Print Assumptions C15_saturated_share_refused.
Print Assumptions C15_assign_any_form_releases_old_once_retains_new_once.
Print Assumptions C15_rawdata_modify_keeps_sharers.
Print Assumptions C15_spec_observation_agrees.
Print Assumptions C15_spec_leak_agrees.
Print Assumptions C15_step_preserves_invariant.
Print Assumptions C15_assign_releases_old_once_retains_new_once.
Print Assumptions C15_assign_refused_unchanged.
Print Assumptions C15_assign_same_unchanged.
Print Assumptions C15_chain_step_refines_spec.
Print Assumptions C15_chain_refinement_preserves_observation.
Print Assumptions C15_chain_history_refines_spec.
Print Assumptions C15_chain_history_never_faults.
Print Assumptions C15_chain_destroyed_iff_last_handle_dropped.
Print Assumptions C15_chain_step_keeps_successor.
Print Assumptions C15_chain_release_cascade.
Print Assumptions C15_chain_step_preserves_invariant.
Print Assumptions C15_reply_step_refines_spec.
Print Assumptions C15_reply_refinement_preserves_observation.
Print Assumptions C15_reply_history_refines_spec.
Print Assumptions C15_reply_destroyed_iff_last_handle_dropped.
Print Assumptions C15_reply_refused_defer_unchanged.
Print Assumptions C15_reply_last_unref_sends_default_reply_once.
