(* C15/RefcountModel.v — executable mechanism model of reference counting in mpt-base.
   NO proofs in this file (it must extract and run when a proof breaks).

   Transcribed from (tree with the fix: commits of branch verif-C15):
     mptcore/misc/refcount.c            raise / lower on a uintptr_t counter
     mptcore/array/buffer_alloc.c       shared buffer: addref = raise, unref = lower + free at 0, detach
     mptcore/array/array_clone.c        array assignment (retain new, store, release old)
     mptcore/array/array_traits.c       _array_init / _array_fini
     mptcore/meta/meta_reference_traits.c   _meta_ref_init / _meta_ref_fini
     mptio/input_traits.c               _input_ref_init / _input_ref_fini (same program)
     mptcore/convert/data_converter.c   _mpt_metatype_wrap (assignment through conversion)
     mptcore/meta/meta_geninfo.c        not shareable: addref = 0, unref = free, clone = new
     mptcore/array/meta_buffer.c        not shareable, owns one buffer handle
     mptcore/config/config_global.c     config root (not shareable) and the static top instance
     mptcore/event/reply_deferrable.c   metatype handles + deferred handles on one counter
     mptplot/rawdata_create.c, mptio/stream/stream_input.c   counted metatypes (clone = 0)
     mptcore/core.h reference<T>        copy / assign / move / set_instance / detach
     mptplot/values/iterator_file.c     counted metatype; clone = new object when created by file name, else 0
     mpt++/metatype_generic.cpp         metatype::generic: counted, clone = new object

   A pointer is an object id (index into [objs]); a handle slot is [option nat].
   [pend] is the multiset of handles held in LOCAL VARIABLES of the function being
   executed (between the addref and the store, between the load and the unref); it
   is empty between operations.  [oext] counts handles held by the environment
   (the harness writes the counter field: OForce), it is never read by the
   transcribed functions. *)
From MptV Require Import Base.Mem.
Local Open Scope nat_scope.

(* ---------- the counter (refcount.c), uintptr_t = 64 bit ---------- *)
Definition W : N := 18446744073709551616%N.      (* 2^64 *)
Definition CMAX : N := 18446744073709551615%N.   (* UINTPTR_MAX *)

(* mpt_refcount_raise:  if (!val) return 0; if (++val) return val; --val; return 0;
   result = (new field value, returned value) *)
Definition raise (c : N) : N * N :=
  if (c =? 0)%N then (c, 0%N)
  else let c1 := ((c + 1) mod W)%N in
       if negb (c1 =? 0)%N then (c1, c1)
       else (((c1 + W - 1) mod W)%N, 0%N).

(* mpt_refcount_lower:  if (!val) return -1; return --val; *)
Definition lower (c : N) : N * N :=
  if (c =? 0)%N then (c, CMAX)
  else let c1 := ((c + W - 1) mod W)%N in (c1, c1).

(* ---------- objects ---------- *)
Inductive kind :=
| KBuf      (* _mpt_buffer_alloc *)
| KHBuf     (* harness buffer vtable, counter through mpt_refcount_* *)
| KHCnt     (* harness metatype, counted *)
| KHUni     (* harness metatype, not shareable *)
| KGen      (* mpt_meta_geninfo *)
| KMetaBuf  (* mpt_meta_buffer *)
| KCfg      (* mpt_config_global(path) *)
| KCfgTop   (* mpt_config_global(0): static instance *)
| KReply    (* mpt_reply_deferrable *)
| KRaw      (* mpt_rawdata_create *)
| KStream   (* mpt_stream_input *)
| KCxx      (* reference<T>::type of mpt++ *)
| KIterFd   (* mpt_iterator_file(fd): no file name, cannot be cloned *)
| KIterName (* mpt_iterator_filename(name): clone opens the file again *)
| KXGen     (* metatype::generic of mpt++ (held by reference<metatype>) *)
| KStage.   (* the stage buffer of a rawdata object (rawdata_create.c: _mpt_buffer_alloc with stage traits) *)

Inductive cls := Counted | Unique | Static.

Definition cls_of (k : kind) : cls :=
  match k with
  | KBuf | KHBuf | KHCnt | KReply | KRaw | KStream | KCxx | KIterFd | KIterName | KXGen | KStage => Counted
  | KHUni | KGen | KMetaBuf | KCfg => Unique
  | KCfgTop => Static
  end.

Definition is_buf (k : kind) : bool := match k with KBuf | KHBuf | KStage => true | _ => false end.
Definition is_stage (k : kind) : bool := match k with KStage => true | _ => false end.
Definition is_cxx (k : kind) : bool := match k with KCxx | KXGen => true | _ => false end.
Definition is_xgen (k : kind) : bool := match k with KXGen => true | _ => false end.
Definition is_reply (k : kind) : bool := match k with KReply => true | _ => false end.
Definition is_raw (k : kind) : bool := match k with KRaw => true | _ => false end.
Definition is_libbuf (k : kind) : bool := match k with KBuf => true | _ => false end.
Definition is_static (k : kind) : bool := match cls_of k with Static => true | _ => false end.
Definition is_counted (k : kind) : bool := match cls_of k with Counted => true | _ => false end.
(* kinds whose vtable is implemented by the harness and appends to the event log *)
Definition logged (k : kind) : bool :=
  match k with KHBuf | KHCnt | KHUni | KCxx => true | _ => false end.

Record obj := mkobj { okind : kind; ocnt : N; oext : N; odead : bool; oinner : option nat }.

Inductive ev := EAdd (o : nat) | EUnr (o : nat) | EDel (o : nat).

Record st := mkst { objs : list obj; hs : list (option nat); pend : list nat; elog : list ev }.

Fixpoint set_nth {A} (i : nat) (v : A) (l : list A) : list A :=
  match l, i with
  | [], _ => []
  | _ :: t, O => v :: t
  | h :: t, S j => h :: set_nth j v t
  end.

Fixpoint remove_one (o : nat) (l : list nat) : list nat :=
  match l with
  | [] => []
  | h :: t => if Nat.eqb h o then t else h :: remove_one o t
  end.

Definition o2l (v : option nat) : list nat := match v with Some o => [o] | None => [] end.
Definition rm_opt (v : option nat) (l : list nat) : list nat :=
  match v with Some o => remove_one o l | None => l end.

Definition eq_opt (a b : option nat) : bool :=
  match a, b with
  | Some x, Some y => Nat.eqb x y
  | None, None => true
  | _, _ => false
  end.

(* the multiset of all handles: locals, slots, handles owned by objects *)
Definition handles (s : st) : list nat :=
  pend s ++ flat_map o2l (hs s) ++ flat_map (fun x => o2l (oinner x)) (objs s).
Definition held (s : st) (o : nat) : N := N.of_nat (count_occ Nat.eq_dec (handles s) o).

Definition slot (s : st) (i : nat) : option nat := nth i (hs s) None.

(* dereference: a destroyed (freed) or unknown object is a use-after-free *)
Definition live (s : st) (o : nat) : res obj :=
  match nth_error (objs s) o with
  | Some x => if odead x then Fault else Ok x
  | None => Fault
  end.

Definition set_obj (s : st) (o : nat) (x : obj) : st :=
  mkst (set_nth o x (objs s)) (hs s) (pend s) (elog s).
Definition add_pend (s : st) (o : nat) : st := mkst (objs s) (hs s) (o :: pend s) (elog s).
Definition del_pend (s : st) (o : nat) : st := mkst (objs s) (hs s) (remove_one o (pend s)) (elog s).
Definition log (s : st) (k : kind) (e : ev) : st :=
  if logged k then mkst (objs s) (hs s) (pend s) (e :: elog s) else s.
Definition clear_log (s : st) : st := mkst (objs s) (hs s) (pend s) [].

Definition with_cnt (x : obj) (c : N) : obj := mkobj (okind x) c (oext x) (odead x) (oinner x).
Definition with_inner (x : obj) (v : option nat) : obj := mkobj (okind x) (ocnt x) (oext x) (odead x) v.
Definition freed (x : obj) (c : N) : obj := mkobj (okind x) c (oext x) true None.

(* ---------- vtable calls ---------- *)

(* addref through the vtable; a non-zero result leaves one more handle in a local *)
Definition m_addref (s : st) (o : nat) : res (st * N) :=
  do x <- live s o;
  match cls_of (okind x) with
  | Counted =>
      let '(c, r) := raise (ocnt x) in
      let s1 := log (set_obj s o (with_cnt x c)) (okind x) (EAdd o) in
      Ok (if (r =? 0)%N then s1 else add_pend s1 o, r)
  | Unique => Ok (log s (okind x) (EAdd o), 0%N)          (* metaRef/bufferRef/configRef: return 0 *)
  | Static => Ok (add_pend s o, 1%N)                       (* configTopRef: return 1 *)
  end.

(* unref of an object that owns no handle (buffers): lower, free at 0 *)
Definition unref_leaf (s : st) (o : nat) : res st :=
  do x <- live s o;
  match cls_of (okind x) with
  | Counted =>
      let '(c, r) := lower (ocnt x) in
      let s1 := log s (okind x) (EUnr o) in
      if (r =? 0)%N then Ok (log (set_obj s1 o (freed x c)) (okind x) (EDel o))
      else Ok (set_obj s1 o (with_cnt x c))
  | Unique => Ok (log (log (set_obj s o (freed x (ocnt x))) (okind x) (EUnr o)) (okind x) (EDel o))
  | Static => Ok s
  end.

(* destructor body: release the owned buffer handle (mpt_array_clone(&a, 0)), then free *)
Definition destroy (s : st) (o : nat) (x : obj) (c : N) : res st :=
  do s1 <- match oinner x with Some b => unref_leaf s b | None => Ok s end;
  Ok (log (set_obj s1 o (freed x c)) (okind x) (EDel o)).

(* unref through the vtable of a handle held in a local *)
Definition m_unref (s : st) (o : nat) : res st :=
  let s := del_pend s o in
  do x <- live s o;
  match cls_of (okind x) with
  | Counted =>
      let '(c, r) := lower (ocnt x) in
      let s1 := log s (okind x) (EUnr o) in
      if (r =? 0)%N then destroy s1 o x c
      else Ok (set_obj s1 o (with_cnt x c))
  | Unique => destroy (log s (okind x) (EUnr o)) o x (ocnt x)
  | Static => Ok s
  end.

Definition unref_opt (s : st) (v : option nat) : res st :=
  match v with Some a => m_unref s a | None => Ok s end.

(* malloc + initialise: counter 1 (counted kinds); the new pointer is in a local;
   a handle moved into the object leaves the locals *)
Definition m_new (s : st) (k : kind) (inner : option nat) : st * nat :=
  let id := length (objs s) in
  let x := mkobj k (match cls_of k with Counted => 1%N | _ => 0%N end) 0%N false inner in
  (mkst (objs s ++ [x]) (hs s) (id :: rm_opt inner (pend s)) (elog s), id).

(* local := slot; slot := 0 (ownership moves to the local) *)
Definition m_take (s : st) (d : nat) : st * option nat :=
  let v := slot s d in
  (mkst (objs s) (set_nth d None (hs s)) (o2l v ++ pend s) (elog s), v).
(* slot := local *)
Definition m_put (s : st) (d : nat) (v : option nat) : st :=
  mkst (objs s) (set_nth d v (hs s)) (rm_opt v (pend s)) (elog s).

(* the array member of an object (RawData.st) used as a slot *)
Definition take_inner (s : st) (o : nat) (x : obj) : st :=
  mkst (set_nth o (with_inner x None) (objs s)) (hs s) (o2l (oinner x) ++ pend s) (elog s).
Definition put_inner (s : st) (o : nat) (v : option nat) : res st :=
  do x <- live s o;
  Ok (mkst (set_nth o (with_inner x v) (objs s)) (hs s) (rm_opt v (pend s)) (elog s)).

(* ---------- slot banks ----------
   0..5  metatype pointers (bank 0; 0..2 = array A, 3..5 = array B of references)
   6..8  MPT_STRUCT(array) (bank 1)      9..11 deferred reply handles (bank 2)
   12..14 reference<T> of mpt++ (bank 3) 15..17 raw T* of mpt++ (bank 4) *)
Definition NSLOT : nat := 18.
Definition bank (i : nat) : nat :=
  if i <? 6 then 0 else if i <? 9 then 1 else if i <? 12 then 2 else if i <? 15 then 3
  else if i <? 18 then 4 else 5.

Inductive op :=
| ONew (k : kind) (d : nat)        (* create, store the only handle in slot d *)
| OMetaBuf (a d : nat)             (* mpt_meta_buffer(&arr[a]) -> slot d *)
| OAddref (s d : nat)              (* vtable addref; slot d := same pointer when non-zero *)
| OUnref (s : nat)                 (* vtable unref (bank 2: deferred reply with no message); slot := 0 *)
| OClone (s d : nat)               (* vtable clone *)
| OConv (s d : nat)                (* _mpt_metatype_wrap(&slot s, TypeMetaRef, &slot d) *)
| ORefInit (via : nat) (s d : nat) (* traits->init(&slot d, &slot s): 0 meta_reference / array traits, 1 input_reference *)
| ORefFini (via : nat) (d : nat)   (* traits->fini(&slot d); slot := 0 *)
| ORefCopy                         (* copy the reference array 0..2 to 3..5 element by element, undo on failure *)
| OArrClone (s d : nat)            (* mpt_array_clone(&arr[d], &arr[s]) *)
| OArrClear (d : nat)              (* mpt_array_clone(&arr[d], 0) *)
| ODetach (a : nat)                (* arr[a]._buf = buf->_vptr->detach(buf, len) *)
| ODetachF (a : nat)               (* detach while the content cannot be copied (typed, partial last element) *)
| OSetInner (m a : nat)            (* mpt_array_clone(&rawdata->st, &arr[a]) *)
| ODefer (s d : nat)               (* reply_context::defer *)
| OForce (s : nat) (v : N)         (* write the counter field *)
| OUnforce                         (* give the counters back: field := handles (destroy when none) *)
| XNew (d : nat)                   (* r[d].set_instance(new type) *)
| XAssign (s d : nat)              (* r[d] = r[s] *)
| XCopy (s d : nat)                (* r[d].~reference(); new (&r[d]) reference(r[s]) *)
| XMove (s d : nat)                (* r[d] = std::move(r[s]) *)
| XDetach (s d : nat)              (* p[d] = r[s].detach() *)
| XSetInst (s d : nat)             (* r[d].set_instance(p[s]); p[s] = 0 *)
| XDrop (d : nat)                  (* r[d].set_instance(0) *)
| XGen (d : nat)                   (* r[d].set_instance(metatype::generic::create(type, ptr)) *)
| XClone (s d : nat)               (* p[d] = r[s].instance()->clone() *)
| ORawModify (m : nat)             (* rawdata->modify(dim, value, dest) that stores a value *)
| ORawAdvance (m : nat)            (* rawdata->advance() (cycle limit 0) *)
| ORawGet (m a : nat)              (* mpt_array_clone(&arr[a], &rawdata->st) *)
| ORawCall (m : nat) (fails : bool). (* a call that takes no reference: conversions, values/dimensions/stages;
                                      modify refused for its type or cycle (fails) *)

Inductive out := OX | OD | OE | ORet (n : N).

(* ---------- harness level preconditions (shared with the specification) ----------
   [hsl] slots, [kd] kind of an object id, [hld] number of handles on an object *)
Definition kind_in_bank (k : kind) (b : nat) : bool :=
  match b with
  | 0 => negb (is_buf k) && negb (is_cxx k)
  | 1 => is_buf k
  | 2 => is_reply k
  | 3 | 4 => is_cxx k
  | _ => false
  end.
Definition creatable (k : kind) : bool :=
  match k with KMetaBuf | KCxx | KXGen | KStage => false | _ => true end.
Definition is_none {A} (v : option A) : bool := match v with None => true | _ => false end.
Definition kind_is (kd : nat -> option kind) (v : option nat) (p : kind -> bool) : bool :=
  match v with Some o => match kd o with Some k => p k | None => false end | None => false end.

Definition guard (hsl : list (option nat)) (kd : nat -> option kind) (hld : nat -> N) (o : op) : bool :=
  let sl i := nth i hsl None in
  match o with
  | ONew k d => creatable k && kind_in_bank k (bank d) && is_none (sl d)
  | OMetaBuf a d => (bank a =? 1) && (bank d =? 0) && is_none (sl d)
                    && (is_none (sl a) || kind_is kd (sl a) is_buf)   (* bank 1 holds buffers *)
  | OAddref s d => (bank s =? bank d) && ((bank s =? 0) || (bank s =? 1) || (bank s =? 4))
                   && negb (is_none (sl s)) && is_none (sl d)
  | OUnref s => ((bank s =? 0) || (bank s =? 1) || (bank s =? 2) || (bank s =? 4)) && negb (is_none (sl s))
  | OClone s d => (bank s =? 0) && (bank d =? 0) && negb (is_none (sl s)) && is_none (sl d)
  | OConv s d => (bank s =? 0) && (bank d =? 0)
  | ORefInit via s d => (bank s =? bank d) && (((bank s =? 0) && (via <? 2)) || ((bank s =? 1) && (via =? 0)))
                        && is_none (sl d)
  | ORefFini via d => ((bank d =? 0) && (via <? 2)) || ((bank d =? 1) && (via =? 0))
  | ORefCopy => is_none (sl 3) && is_none (sl 4) && is_none (sl 5)
  | OArrClone s d => (bank s =? 1) && (bank d =? 1)
  | OArrClear d => bank d =? 1
  | ODetach a | ODetachF a => (bank a =? 1) && kind_is kd (sl a) is_libbuf
  | OSetInner m a => (bank m =? 0) && (bank a =? 1) && kind_is kd (sl m) is_raw
                     && (is_none (sl a) || kind_is kd (sl a) is_stage)   (* the member holds stage buffers only *)
  | ODefer s d => (bank s =? 0) && (bank d =? 2) && kind_is kd (sl s) is_reply && is_none (sl d)
  | OForce s v => ((bank s =? 0) || (bank s =? 1) || (bank s =? 3))
                  && kind_is kd (sl s) is_counted
                  && (1 <=? v)%N && (v <? W)%N
                  && match sl s with Some o => (hld o <=? v)%N | None => false end
  | OUnforce => true
  | XNew d => bank d =? 3
  | XAssign s d => (bank s =? 3) && (bank d =? 3)
  | XCopy s d => (bank s =? 3) && (bank d =? 3) && negb (s =? d)
  | XMove s d => (bank s =? 3) && (bank d =? 3)
  | XDetach s d => (bank s =? 3) && (bank d =? 4) && is_none (sl d)
  | XSetInst s d => (bank s =? 4) && (bank d =? 3)
  | XDrop d => bank d =? 3
  | XGen d => bank d =? 3
  | XClone s d => (bank s =? 3) && (bank d =? 4) && kind_is kd (sl s) is_xgen && is_none (sl d)
  | ORawModify m | ORawAdvance m | ORawCall m _ => (bank m =? 0) && kind_is kd (sl m) is_raw
  | ORawGet m a => (bank m =? 0) && (bank a =? 1) && kind_is kd (sl m) is_raw
  end.

(* mpt_array_clone: "buffers content types must be identical" — a stage buffer carries the stage traits, every
   other buffer of the model is untyped; replacing one by the other is refused (BadType) *)
Definition tmismatch (kd : nat -> option kind) (a b : option nat) : bool :=
  match a, b with
  | Some x, Some y =>
      match kd x, kd y with
      | Some k1, Some k2 => negb (Bool.eqb (is_stage k1) (is_stage k2))
      | _, _ => false
      end
  | _, _ => false
  end.

Definition kind_at (s : st) (o : nat) : option kind :=
  match nth_error (objs s) o with Some x => Some (okind x) | None => None end.

(* ---------- the transcribed functions ---------- *)

Fixpoint find_kind (p : kind -> bool) (l : list obj) (i : nat) : option nat :=
  match l with
  | [] => None
  | x :: t => if p (okind x) then Some i else find_kind p t (S i)
  end.

Definition p_new (s : st) (k : kind) (d : nat) : res (st * out) :=
  match (if is_static k then find_kind is_static (objs s) 0 else None) with
  | Some id => Ok (m_put (add_pend s id) d (Some id), OD)      (* the static instance is handed out again *)
  | None => let '(s1, id) := m_new s k None in Ok (m_put s1 d (Some id), OD)
  end.

(* retain [v] for a store: None when the addref fails *)
Definition retain (s : st) (v : option nat) : res (st * bool) :=
  match v with
  | None => Ok (s, true)
  | Some o => do '(s1, r) <- m_addref s o; Ok (s1, negb (r =? 0)%N)
  end.

(* mpt_meta_buffer(a): malloc; mpt_array_clone(&m->s._a, a) (result ignored) *)
Definition mk_metabuf (s : st) (src : option nat) : res (st * nat) :=
  do '(s1, ok) <- retain s src;
  Ok (m_new s1 KMetaBuf (if ok then src else None)).

Definition p_addref (s : st) (o d : nat) : res (st * N) :=
  do '(s1, r) <- m_addref s o;
  Ok (if (r =? 0)%N then s1 else m_put s1 d (Some o), r).

Definition p_unref (s : st) (i : nat) : res (st * out) :=
  let '(s1, v) := m_take s i in
  do s2 <- unref_opt s1 v;
  Ok (s2, OD).

Definition p_clone (s : st) (o d : nat) : res (st * out) :=
  do x <- live s o;
  match okind x with
  | KGen | KHUni | KCfg | KIterName =>          (* fileClone: mpt_iterator_filename(d->name), a new object with count 1 *)
      let '(s1, id) := m_new s (okind x) None in Ok (m_put s1 d (Some id), OD)
  | KMetaBuf => do '(s1, id) <- mk_metabuf s (oinner x); Ok (m_put s1 d (Some id), OD)
  | _ => Ok (s, OE)            (* contextClone, rd_clone, streamClone, fileClone without name: return 0; config top: EINVAL *)
  end.

(* _mpt_metatype_wrap, type == TypeMetaRef, dest != 0 *)
Definition p_conv (s : st) (si d : nat) : res (st * out) :=
  let mt := slot s si in
  do '(s1, ok) <- retain s mt;                  (* if (mt && !mt->addref(mt)) return BadOperation *)
  if negb ok then Ok (s1, OE) else
  let '(s2, old) := m_take s1 d in              (* if ((old = *ptr)) *)
  do s3 <- unref_opt s2 old;                    (*     old->unref(old) *)
  Ok (m_put s3 d mt, OD).                       (* *ptr = mt *)

(* _meta_ref_init / _array_init / _input_ref_init *)
Definition p_refinit (s : st) (si d : nat) : res (st * out) :=
  match slot s si with
  | None => Ok (s, ORet 0)
  | Some o => do '(s1, r) <- m_addref s o;
              if (r =? 0)%N then Ok (s1, OE) else Ok (m_put s1 d (Some o), ORet 1)
  end.
(* _meta_ref_fini / _array_fini / _input_ref_fini *)
Definition p_reffini (s : st) (d : nat) : res (st * out) := p_unref s d.

Definition is_ret (o : out) : bool := match o with ORet _ => true | _ => false end.

(* element-wise copy of the reference array; on a failed element the copies made so far are finalised *)
Definition p_refcopy (s : st) : res (st * out) :=
  do '(s1, r1) <- p_refinit s 0 3;
  if negb (is_ret r1) then Ok (s1, OE) else
  do '(s2, r2) <- p_refinit s1 1 4;
  if negb (is_ret r2) then (do '(s3, _) <- p_reffini s2 3; Ok (s3, OE)) else
  do '(s3, r3) <- p_refinit s2 2 5;
  if negb (is_ret r3) then (do '(s4, _) <- p_reffini s3 4; do '(s5, _) <- p_reffini s4 3; Ok (s5, OE))
  else Ok (s3, OD).

(* mpt_array_clone(arr, from), from != 0 *)
Definition p_arrclone (s : st) (si d : nat) : res (st * out) :=
  let buf := slot s d in
  let set := slot s si in
  if eq_opt set buf then Ok (s, ORet 0) else
  if tmismatch (kind_at s) set buf then Ok (s, OE) else   (* content traits differ: BadType *)
  do '(s1, ok) <- retain s set;                 (* if (set && !set->addref(set)) return BadOperation *)
  if negb ok then Ok (s1, OE) else
  let '(s2, old) := m_take s1 d in
  let s3 := m_put s2 d set in                   (* arr->_buf = set *)
  match old with
  | Some a => do s4 <- m_unref s3 a; Ok (s4, ORet (if is_none set then 2 else 3))
  | None => Ok (s3, ORet (if is_none set then 0 else 1))
  end.

(* mpt_array_clone(arr, 0) *)
Definition p_arrclear (s : st) (d : nat) : res (st * out) :=
  let '(s1, old) := m_take s d in
  match old with
  | Some a => do s2 <- m_unref s1 a; Ok (s2, ORet 2)
  | None => Ok (s1, ORet 0)
  end.

(* _mpt_buffer_alloc_detach (untyped content, size fits, no flags) *)
Definition p_detach (s : st) (a o : nat) : res (st * out) :=
  do x <- live s o;
  if (ocnt x <? 2)%N then Ok (s, ORet 0) else   (* not shared: same buffer *)
  let '(s1, n) := m_new s KBuf None in          (* next = _mpt_buffer_alloc() *)
  let '(s2, _) := m_take s1 a in
  do s3 <- m_unref s2 o;                        (* mpt_refcount_lower(&buf->_ref): copy, or move + free at 0 *)
  Ok (m_put s3 a (Some n), ORet 1).

(* _mpt_buffer_alloc_detach when mpt_buffer_set() refuses the copy (BadArgument) *)
Definition p_detachf (s : st) (o : nat) : res (st * out) :=
  do x <- live s o;
  if (ocnt x <? 2)%N then Ok (s, ORet 0) else   (* not shared: same buffer *)
  let '(c1, r) := lower (ocnt x) in             (* mpt_refcount_lower(&buf->_ref) *)
  if (r =? 0)%N then Fault else                 (* (move path: needs a count of 1, excluded above) *)
  let '(c2, _) := raise c1 in                   (* copy failed: unref(next); mpt_refcount_raise(&buf->_ref); return 0 *)
  Ok (set_obj s o (with_cnt x c2), OE).

(* mpt_array_clone(&rd->st, &arr[a]) *)
Definition p_setinner (s : st) (o a : nat) : res (st * out) :=
  do x <- live s o;
  let buf := oinner x in
  let set := slot s a in
  if eq_opt set buf then Ok (s, ORet 0) else
  if tmismatch (kind_at s) set buf then Ok (s, OE) else
  do '(s1, ok) <- retain s set;
  if negb ok then Ok (s1, OE) else
  do x1 <- live s1 o;
  let s2 := take_inner s1 o x1 in
  do s3 <- put_inner s2 o set;
  match buf with
  | Some b => do s4 <- m_unref s3 b; Ok (s4, ORet (if is_none set then 2 else 3))
  | None => Ok (s3, ORet (if is_none set then 0 else 1))
  end.

(* rd_modify, the part that holds references: the stage array of the rawdata object.
     if (!buf) { buf = _mpt_buffer_alloc(..); buf->_content_traits = stage_traits; rd->st._buf = buf; }
     mpt_array_slice(&rd->st, nc * size, size): a shared buffer is detached (typed copy), the array gets the copy
   (the value stores inside the stages are contents of the buffer: not modelled) *)
Definition p_modify (s : st) (o : nat) : res (st * out) :=
  do x <- live s o;
  match oinner x with
  | None =>
      let '(s1, n) := m_new s KStage None in
      do s2 <- put_inner s1 o (Some n);
      Ok (s2, OD)
  | Some b =>
      do y <- live s b;
      if (ocnt y <? 2)%N then Ok (s, OD) else       (* not shared: in place *)
      let '(s1, n) := m_new s KStage None in        (* detach: next = _mpt_buffer_alloc() *)
      do x1 <- live s1 o;
      let s2 := take_inner s1 o x1 in
      do s3 <- m_unref s2 b;                        (* mpt_refcount_lower(&buf->_ref) *)
      do s4 <- put_inner s3 o (Some n);             (* arr->_buf = next *)
      Ok (s4, OD)
  end.

(* rd_advance with cycle limit 0: act stays 0; an existing stage buffer (>= 1 stage) is reused,
   an empty object gets its first stage *)
Definition p_advance (s : st) (o : nat) : res (st * out) :=
  do x <- live s o;
  match oinner x with
  | None =>
      let '(s1, n) := m_new s KStage None in
      do s2 <- put_inner s1 o (Some n);
      Ok (s2, OD)
  | Some _ => Ok (s, OD)
  end.

(* mpt_array_clone(&arr[a], &rd->st) *)
Definition p_rawget (s : st) (o a : nat) : res (st * out) :=
  do x <- live s o;
  let buf := slot s a in
  let set := oinner x in
  if eq_opt set buf then Ok (s, ORet 0) else
  if tmismatch (kind_at s) set buf then Ok (s, OE) else
  do '(s1, ok) <- retain s set;
  if negb ok then Ok (s1, OE) else
  let '(s2, old) := m_take s1 a in
  let s3 := m_put s2 a set in
  match old with
  | Some b => do s4 <- m_unref s3 b; Ok (s4, ORet (if is_none set then 2 else 3))
  | None => Ok (s3, ORet (if is_none set then 0 else 1))
  end.

Definition p_force (s : st) (o : nat) (v : N) : res (st * out) :=
  do x <- live s o;
  Ok (set_obj s o (mkobj (okind x) v (v - held s o)%N (odead x) (oinner x)), OD).

(* the harness gives every forced counter back: field := number of handles it holds;
   an object it holds no handle on is released through its unref *)
Fixpoint unforce (s : st) (i n : nat) : res st :=
  match n with
  | O => Ok s
  | S n' =>
    match nth_error (objs s) i with
    | Some x =>
      if odead x || negb (is_counted (okind x)) then unforce s (S i) n'
      else if (held s i =? 0)%N
      then (do s1 <- m_unref (add_pend (set_obj s i (mkobj (okind x) 1%N 0%N false (oinner x))) i) i;
            unforce s1 (S i) n')
      else unforce (set_obj s i (mkobj (okind x) (held s i) 0%N false (oinner x))) (S i) n'
    | None => Ok s
    end
  end.

(* reference<T> *)
Definition x_new (s : st) (k : kind) (d : nat) : res (st * out) :=
  let '(s1, n) := m_new s k None in             (* new type / generic::create(): evaluated before the call *)
  let '(s2, old) := m_take s1 d in              (* set_instance: if (_ref) _ref->unref(); _ref = ref *)
  do s3 <- unref_opt s2 old;
  Ok (m_put s3 d (Some n), OD).

Definition x_assign (s : st) (si d : nat) : res (st * out) :=
  let r := slot s si in
  if eq_opt r (slot s d) then Ok (s, OD) else   (* if (r == _ref) return *this *)
  do '(s1, ok) <- retain s r;                   (* if (r && !r->addref()) r = 0 *)
  let r' := if ok then r else None in
  let '(s2, old) := m_take s1 d in
  do s3 <- unref_opt s2 old;                    (* if (_ref) _ref->unref() *)
  Ok (m_put s3 d r', OD).

Definition x_copy (s : st) (si d : nat) : res (st * out) :=
  let '(s1, old) := m_take s d in               (* ~reference() *)
  do s2 <- unref_opt s1 old;
  x_assign s2 si d.                             (* reference(const reference &): _ref(0); *this = ref *)

Definition x_move (s : st) (si d : nat) : res (st * out) :=
  let '(s1, r) := m_take s si in                (* r = ref._ref; ref._ref = 0 *)
  let '(s2, old) := m_take s1 d in              (* set_instance(r) *)
  do s3 <- unref_opt s2 old;
  Ok (m_put s3 d r, OD).

Definition x_detach (s : st) (si d : nat) : res (st * out) :=
  let '(s1, v) := m_take s si in Ok (m_put s1 d v, OD).

Definition x_drop (s : st) (d : nat) : res (st * out) := p_unref s d.

(* metatype::generic::clone(): create(_type, _val, *_traits), a new object with count 1 *)
Definition x_clone (s : st) (o d : nat) : res (st * out) :=
  do x <- live s o;
  let '(s1, id) := m_new s (okind x) None in Ok (m_put s1 d (Some id), OD).

Definition exec (s : st) (o : op) : res (st * out) :=
  match o with
  | ONew k d => p_new s k d
  | OMetaBuf a d => do '(s1, id) <- mk_metabuf s (slot s a); Ok (m_put s1 d (Some id), OD)
  | OAddref si d =>
      match slot s si with
      | Some o => do '(s1, r) <- p_addref s o d; Ok (s1, ORet r)
      | None => Ok (s, OX)
      end
  | ODefer si d =>                              (* contextDefer: mpt_refcount_raise; 0 -> return 0 *)
      match slot s si with
      | Some o => do '(s1, r) <- p_addref s o d; Ok (s1, if (r =? 0)%N then OE else OD)
      | None => Ok (s, OX)
      end
  | OUnref i => p_unref s i
  | OClone si d => match slot s si with Some o => p_clone s o d | None => Ok (s, OX) end
  | OConv si d => p_conv s si d
  | ORefInit _ si d => p_refinit s si d
  | ORefFini _ d => p_reffini s d
  | ORefCopy => p_refcopy s
  | OArrClone si d => p_arrclone s si d
  | OArrClear d => p_arrclear s d
  | ODetach a => match slot s a with Some o => p_detach s a o | None => Ok (s, OX) end
  | ODetachF a => match slot s a with Some o => p_detachf s o | None => Ok (s, OX) end
  | OSetInner m a => match slot s m with Some o => p_setinner s o a | None => Ok (s, OX) end
  | OForce i v => match slot s i with Some o => p_force s o v | None => Ok (s, OX) end
  | OUnforce => do s1 <- unforce s 0 (length (objs s)); Ok (s1, OD)
  | XNew d => x_new s KCxx d
  | XAssign si d => x_assign s si d
  | XCopy si d => x_copy s si d
  | XMove si d => x_move s si d
  | XDetach si d => x_detach s si d
  | XSetInst si d => x_move s si d               (* set_instance(p); p = 0: same stores *)
  | XDrop d => x_drop s d
  | XGen d => x_new s KXGen d
  | XClone si d => match slot s si with Some o => x_clone s o d | None => Ok (s, OX) end
  | ORawModify m => match slot s m with Some o => p_modify s o | None => Ok (s, OX) end
  | ORawAdvance m => match slot s m with Some o => p_advance s o | None => Ok (s, OX) end
  | ORawGet m a => match slot s m with Some o => p_rawget s o a | None => Ok (s, OX) end
  | ORawCall m fails => Ok (s, if fails then OE else OD)
  end.

Definition step (s : st) (o : op) : res (st * out) :=
  let s := clear_log s in
  if guard (hs s) (kind_at s) (held s) o then exec s o else Ok (s, OX).

(* ---------- observation ---------- *)
Inductive disp := DCnt (n : N) | DUni | DSta | DDead.

Definition disp_obj (x : obj) : disp :=
  if odead x then DDead else
  match cls_of (okind x) with Counted => DCnt (ocnt x) | Unique => DUni | Static => DSta end.

Inductive obs :=
| Obs (o : out) (d : list disp) (h : list (option nat)) (e : list ev)
| ObsFault.

Definition observe (s : st) (o : out) : obs := Obs o (map disp_obj (objs s)) (hs s) (rev (elog s)).

Fixpoint mrun (s : st) (ops : list op) : list obs * option st :=
  match ops with
  | [] => ([], Some s)
  | o :: r =>
    match step s o with
    | Ok (s1, t) => let '(l, f) := mrun s1 r in (observe s1 t :: l, f)
    | _ => ([ObsFault], None)
    end
  end.

Fixpoint leak_from (s : st) (l : list obj) (i : nat) : bool :=
  match l with
  | [] => false
  | x :: t => (negb (odead x) && negb (is_static (okind x)) && (held s i =? 0)%N) || leak_from s t (S i)
  end.
(* an object that is neither freed nor reachable through any handle: what LeakSanitizer reports *)
Definition leaked (s : st) : bool := leak_from s (objs s) 0.

Definition init : st := mkst [] (repeat None NSLOT) [] [].

(* ---------- the bare counter (driven directly, any field value) ---------- *)
Inductive cop := CSet (v : N) | CRaise | CLower.
Definition cstep (c : N) (o : cop) : N * N :=
  match o with
  | CSet v => (v, v)
  | CRaise => raise c
  | CLower => lower c
  end.
Fixpoint crun (c : N) (ops : list cop) : list (N * N) :=
  match ops with
  | [] => []
  | o :: r => let '(c1, ret) := cstep c o in (ret, c1) :: crun c1 r
  end.
