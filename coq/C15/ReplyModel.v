(* C15/ReplyModel.v — executable mechanism model of the deferrable reply context
   (mptcore/event/reply_deferrable.c, mptcore/event/reply_set.c).  NO proofs in this file.

   One counter per context; handles on a context are (a) metatype pointers (contextRef / contextUnref) and
   (b) detached replies (contextDefer / deferReply -> contextDetach).  The reply data (the id of the request that
   still waits for its answer) lives in the context until defer() MOVES it into the detached reply.

   Transcribed:
     mpt_reply_deferrable(len, send, ptr)   malloc, ref = 1, data._max = len, data.len = 0; refused for len > UINT16_MAX
     mpt_reply_set(rd, len, val)            len > _max: BadValue; else copy, rd->len = len, return _max - len
     contextSend(ctx, rd, msg)              !rd->len: BadArgument; !ctx->reply.send: rd->len = 0, return 0;
                                            ret = send(ptr, rd, msg); ret >= 0: rd->len = 0; return ret
     contextSet(rc, msg)                    contextSend(ctx, &ctx->data, msg)
     contextDefer(rc)                       !data.len: return 0; !raise: return 0; malloc; copy data; data.len = 0
     deferReply(def, msg)                   ret = contextSend(base, &def->data, msg);
                                            ret < 0: with a message return ret (handle KEPT), else ret = 0;
                                            contextDetach(base); free(def)
     contextDetach(ctx)                     lower; 0 -> free(ctx)
     contextRef(mt)                         raise
     contextUnref(mt)                       lower; != 0 -> reply.send = 0; 0 -> default reply when send && data.len; free(ctx)
   The send callback is the harness' (it records the call; result 7, or -5 while the environment flag [pfail] is set).
   A pointer is an object id; the memory of a freed context is not observable: [pdead]. *)
From MptV Require Import Base.Mem C15.RefcountModel.
Local Open Scope nat_scope.

Record rdata := mkrd { rlen : N; rid : N }.                      (* reply_data: len, value (len bytes = id) *)
Record pobj := mkpobj { pcnt : N; pdead : bool; psend : bool; pmax : N; pdata : rdata }.
Record dh := mkdh { dbase : nat; ddata : rdata }.                (* struct replyDataDelayed *)
Record pst := mkpst { pobjs : list pobj; pms : list (option nat); pds : list (option dh); pfail : bool }.

Inductive pres := PX | PD | PE | PR (n : N) | PNeg (n : N).
Record sendev := mksend { sv_obj : nat; sv_len : N; sv_id : N; sv_msg : bool }.

Inductive pop :=
| PNew (d : nat) (max : N)        (* mslot[d] = mpt_reply_deferrable(max, cb, id) *)
| PSet (s : nat) (len id : N)     (* mpt_reply_set(convert(TypeReplyDataPtr), len, id bytes) *)
| PDefer (s d : nat)              (* dslot[d] = rc->defer(rc) *)
| PSend (s : nat) (msg : bool)    (* rc->set(rc, msg) *)
| PReply (d : nat) (msg : bool)   (* dslot[d]->reply(def, msg); a non-negative result consumed the handle *)
| PAddref (s d : nat)             (* metatype addref *)
| PUnref (s : nat)                (* metatype unref *)
| PFail (b : bool).               (* environment: the send callback fails from now on / works again *)

Definition is_neg (r : pres) : bool := match r with PNeg _ => true | _ => false end.

Definition plive (s : pst) (o : nat) : res pobj :=
  match nth_error (pobjs s) o with
  | Some x => if pdead x then Fault else Ok x
  | None => Fault
  end.
Definition pset_obj (s : pst) (o : nat) (x : pobj) : pst := mkpst (set_nth o x (pobjs s)) (pms s) (pds s) (pfail s).
Definition pset_ms (s : pst) (d : nat) (v : option nat) : pst := mkpst (pobjs s) (set_nth d v (pms s)) (pds s) (pfail s).
Definition pset_ds (s : pst) (d : nat) (v : option dh) : pst := mkpst (pobjs s) (pms s) (set_nth d v (pds s)) (pfail s).
Definition with_data (x : pobj) (rd : rdata) : pobj := mkpobj (pcnt x) (pdead x) (psend x) (pmax x) rd.

(* contextSend *)
Definition ctx_send (x : pobj) (o : nat) (fail : bool) (rd : rdata) (msg : bool) : rdata * pres * list sendev :=
  if (rlen rd =? 0)%N then (rd, PNeg 1, [])                       (* "reply already sent": BadArgument *)
  else if negb (psend x) then (mkrd 0 (rid rd), PR 0, [])         (* no target any more: rd->len = 0; return 0 *)
  else let e := mksend o (rlen rd) (rid rd) msg in
       if fail then (rd, PNeg 5, [e])                             (* val[0] &= 0x7f: data unchanged *)
       else (mkrd 0 (rid rd), PR 7, [e]).

(* contextUnref *)
Definition ctx_unref (s : pst) (o : nat) : res (pst * list sendev) :=
  do x <- plive s o;
  let '(c, r) := lower (pcnt x) in
  if negb (r =? 0)%N then Ok (pset_obj s o (mkpobj c false false (pmax x) (pdata x)), [])   (* ctx->reply.send = 0 *)
  else
    let evs := if psend x && negb (rlen (pdata x) =? 0)%N
               then snd (ctx_send x o (pfail s) (pdata x) false) else [] in              (* default reply *)
    Ok (pset_obj s o (mkpobj c true (psend x) (pmax x) (pdata x)), evs).                   (* free(ctx) *)

(* contextDetach *)
Definition ctx_detach (s : pst) (o : nat) : res pst :=
  do x <- plive s o;
  let '(c, r) := lower (pcnt x) in
  Ok (pset_obj s o (mkpobj c (r =? 0)%N (psend x) (pmax x) (pdata x))).

Definition p_new (s : pst) (d : nat) (max : N) : res (pst * pres * list sendev) :=
  if (65535 <? max)%N then Ok (s, PE, []) else
  let id := length (pobjs s) in
  Ok (mkpst (pobjs s ++ [mkpobj 1 false true max (mkrd 0 0)]) (set_nth d (Some id) (pms s)) (pds s) (pfail s), PD, []).

Definition p_set (s : pst) (o : nat) (len id : N) : res (pst * pres * list sendev) :=
  do x <- plive s o;
  if (pmax x <? len)%N then Ok (s, PE, [])
  else Ok (pset_obj s o (with_data x (mkrd len id)), PR (pmax x - len), []).

(* contextDefer *)
Definition p_defer (s : pst) (o d : nat) : res (pst * pres * list sendev) :=
  do x <- plive s o;
  if (rlen (pdata x) =? 0)%N then Ok (s, PE, []) else
  let '(c, r) := raise (pcnt x) in
  if (r =? 0)%N then Ok (pset_obj s o (mkpobj c (pdead x) (psend x) (pmax x) (pdata x)), PE, []) else
  let s1 := pset_obj s o (mkpobj c (pdead x) (psend x) (pmax x) (mkrd 0 (rid (pdata x)))) in
  Ok (pset_ds s1 d (Some (mkdh o (pdata x))), PD, []).

(* contextSet *)
Definition p_send (s : pst) (o : nat) (msg : bool) : res (pst * pres * list sendev) :=
  do x <- plive s o;
  let '(rd, ret, evs) := ctx_send x o (pfail s) (pdata x) msg in
  Ok (pset_obj s o (with_data x rd), ret, evs).

(* deferReply *)
Definition p_reply (s : pst) (d : nat) (h : dh) (msg : bool) : res (pst * pres * list sendev) :=
  do x <- plive s (dbase h);
  let '(rd, ret, evs) := ctx_send x (dbase h) (pfail s) (ddata h) msg in
  if is_neg ret && msg then Ok (pset_ds s d (Some (mkdh (dbase h) rd)), ret, evs)
  else
    do s1 <- ctx_detach s (dbase h);
    Ok (pset_ds s1 d None, if is_neg ret then PR 0 else ret, evs).

Definition p_addref (s : pst) (o d : nat) : res (pst * pres * list sendev) :=
  do x <- plive s o;
  let '(c, r) := raise (pcnt x) in
  let s1 := pset_obj s o (mkpobj c (pdead x) (psend x) (pmax x) (pdata x)) in
  Ok (if (r =? 0)%N then s1 else pset_ms s1 d (Some o), PR r, []).

Definition p_unref (s : pst) (i o : nat) : res (pst * pres * list sendev) :=
  do '(s1, evs) <- ctx_unref (pset_ms s i None) o;
  Ok (s1, PD, evs).

Definition mslot (s : pst) (i : nat) : option nat := nth i (pms s) None.
Definition dslot (s : pst) (i : nat) : option dh := nth i (pds s) None.

(* the harness preconditions (an empty target slot, an occupied source slot, slot numbers in range) are part of the step:
   an operation that is not performed returns PX *)
Definition pstep (s : pst) (o : pop) : res (pst * pres * list sendev) :=
  match o with
  | PNew d max => if (d <? length (pms s)) && is_none (mslot s d) then p_new s d max else Ok (s, PX, [])
  | PSet i len id => match mslot s i with Some o => p_set s o len id | None => Ok (s, PX, []) end
  | PDefer i d =>
      match mslot s i with
      | Some o => if (d <? length (pds s)) && is_none (dslot s d) then p_defer s o d else Ok (s, PX, [])
      | None => Ok (s, PX, [])
      end
  | PSend i msg => match mslot s i with Some o => p_send s o msg | None => Ok (s, PX, []) end
  | PReply d msg => match dslot s d with Some h => p_reply s d h msg | None => Ok (s, PX, []) end
  | PAddref i d =>
      match mslot s i with
      | Some o => if (d <? length (pms s)) && is_none (mslot s d) then p_addref s o d else Ok (s, PX, [])
      | None => Ok (s, PX, [])
      end
  | PUnref i => match mslot s i with Some o => p_unref s i o | None => Ok (s, PX, []) end
  | PFail b => Ok (mkpst (pobjs s) (pms s) (pds s) b, PD, [])
  end.

(* ---------- observation ---------- *)
Definition abs_data (rd : rdata) : option (N * N) := if (rlen rd =? 0)%N then None else Some (rlen rd, rid rd).

Inductive pdisp := PDead | PLive (c : N) (send : bool) (pending : option (N * N)).
Definition pdisp_obj (x : pobj) : pdisp := if pdead x then PDead else PLive (pcnt x) (psend x) (abs_data (pdata x)).

Inductive pobs :=
| PObs (r : pres) (e : list sendev) (d : list pdisp) (m : list (option nat)) (h : list (option (nat * option (N * N))))
| PObsFault.
Definition show_dh (h : dh) : nat * option (N * N) := (dbase h, abs_data (ddata h)).
Definition pobserve (s : pst) (r : pres) (e : list sendev) : pobs :=
  PObs r e (map pdisp_obj (pobjs s)) (pms s) (map (option_map show_dh) (pds s)).

Fixpoint prun (s : pst) (ops : list pop) : list pobs * option pst :=
  match ops with
  | [] => ([], Some s)
  | o :: r =>
    match pstep s o with
    | Ok (s1, t, e) => let '(l, f) := prun s1 r in (pobserve s1 t e :: l, f)
    | _ => ([PObsFault], None)
    end
  end.

Definition dbm (h : option dh) : list nat := match h with Some h => [dbase h] | None => [] end.
(* handles on o: metatype slots + detached replies *)
Definition pheld (s : pst) (o : nat) : nat :=
  count_occ Nat.eq_dec (flat_map o2l (pms s)) o + count_occ Nat.eq_dec (flat_map dbm (pds s)) o.
Fixpoint pleak_from (s : pst) (l : list pobj) (i : nat) : bool :=
  match l with
  | [] => false
  | x :: t => (negb (pdead x) && (pheld s i =? 0)) || pleak_from s t (S i)
  end.
Definition pleaked (s : pst) : bool := pleak_from s (pobjs s) 0.

Definition pinit : pst := mkpst [] (repeat None 6) (repeat None 3) false.
