(* C15/RefcountAssign.v — assignment through conversion (_mpt_metatype_wrap): the old referent is released
   exactly once, the new one retained exactly once; a refused retain changes nothing. *)
From MptV Require Import Base.Mem C15.RefcountModel C15.RefcountSpec C15.RefcountCounter C15.RefcountInv
  C15.RefcountSteps C15.RefcountOps.
Local Open Scope nat_scope.

Lemma slot_mk ob h p e i : slot (mkst ob h p e) i = nth i h None.
Proof. reflexivity. Qed.

(* old and new are different live counted objects that own no handle; the new one can still be shared *)
Lemma conv_counts s si d a b xa xb :
  Good s -> d < NSLOT ->
  slot s si = Some b -> slot s d = Some a -> a <> b ->
  nth_error (objs s) b = Some xb -> cls_of (okind xb) = Counted -> (ocnt xb < CMAX)%N ->
  nth_error (objs s) a = Some xa -> cls_of (okind xa) = Counted -> oinner xa = None ->
  exists s', p_conv s si d = Ok (s', OD) /\
    slot s' d = Some b /\ (forall i, i <> d -> slot s' i = slot s i) /\ pend s' = [] /\
    (exists xb', nth_error (objs s') b = Some xb' /\ ocnt xb' = (ocnt xb + 1)%N /\ odead xb' = false) /\
    (exists xa', nth_error (objs s') a = Some xa' /\ ocnt xa' = (ocnt xa - 1)%N /\
                 (odead xa' = true <-> ocnt xa = 1%N)) /\
    (forall o, o <> a -> o <> b -> nth_error (objs s') o = nth_error (objs s) o).
Proof.
  intros [I P] Hd Sb Sa Nab Eb Kb Mb Ea Ka Ia.
  assert (Hl : d < length (hs s)) by (rewrite (inv_len s I); assumption).
  destruct (inv_live s b I (H3_slot s si b Sb)) as (xb0 & Eb0 & Db). rewrite Eb in Eb0. inversion Eb0; subst xb0.
  destruct (inv_live s a I (H3_slot s d a Sa)) as (xa0 & Ea0 & Da). rewrite Ea in Ea0. inversion Ea0; subst xa0.
  pose proof (inv_obj s I b xb Eb) as (_ & _ & Cb). rewrite Db, Kb in Cb. destruct Cb as (_ & Hb0 & _).
  pose proof (inv_obj s I a xa Ea) as (_ & _ & Ca). rewrite Da, Ka in Ca. destruct Ca as (_ & Ha0 & Haw).
  unfold p_conv. rewrite Sb. cbn [retain]. unfold m_addref. rewrite (live_ok s b xb Eb Db). cbn [bind]. rewrite Kb.
  rewrite (raise_mid _ Hb0 Mb).
  replace (ocnt xb + 1 =? 0)%N with false by (symmetry; apply N.eqb_neq; lia). cbn [bind negb].
  replace (ocnt xb + 1 =? 0)%N with false by (symmetry; apply N.eqb_neq; lia). cbn [bind negb].
  set (s1 := add_pend (log (set_obj s b (with_cnt xb (ocnt xb + 1)%N)) (okind xb) (EAdd b)) b).
  assert (S1d : slot s1 d = Some a) by (unfold s1, slot; simp_st; exact Sa).
  unfold m_take. rewrite S1d. cbn [unref_opt o2l app].
  set (s2 := mkst (objs s1) (set_nth d None (hs s1)) (a :: pend s1) (elog s1)).
  assert (O2 : objs s2 = set_nth b (with_cnt xb (ocnt xb + 1)%N) (objs s)) by (unfold s2, s1; cbn [objs]; simp_st; reflexivity).
  assert (E2a : nth_error (objs (del_pend s2 a)) a = Some xa).
  { simp_st. rewrite O2, nth_error_set_nth. destruct (Nat.eqb_spec b a); [congruence|assumption]. }
  unfold m_unref. rewrite (live_ok _ a xa E2a Da). cbn [bind]. rewrite Ka, (lower_pos _ Ha0 Haw).
  unfold destroy. rewrite Ia.
  assert (Q : forall s3, objs s3 = set_nth a (if (ocnt xa - 1 =? 0)%N then freed xa (ocnt xa - 1)%N else with_cnt xa (ocnt xa - 1)%N) (objs s2) ->
              hs s3 = set_nth d None (hs s) -> pend s3 = [b] ->
    slot (m_put s3 d (Some b)) d = Some b /\ (forall i, i <> d -> slot (m_put s3 d (Some b)) i = slot s i) /\
    pend (m_put s3 d (Some b)) = [] /\
    (exists xb', nth_error (objs (m_put s3 d (Some b))) b = Some xb' /\ ocnt xb' = (ocnt xb + 1)%N /\ odead xb' = false) /\
    (exists xa', nth_error (objs (m_put s3 d (Some b))) a = Some xa' /\ ocnt xa' = (ocnt xa - 1)%N /\
                 (odead xa' = true <-> ocnt xa = 1%N)) /\
    (forall o, o <> a -> o <> b -> nth_error (objs (m_put s3 d (Some b))) o = nth_error (objs s) o)).
  { intros s3 O3 H3' P3. unfold m_put. cbn [objs pend]. rewrite !slot_mk, H3', P3, O3, O2.
    split; [|split; [|split; [|split; [|split]]]].
    - rewrite nth_set_nth, Nat.eqb_refl, length_set_nth. cbn [andb]. destruct (Nat.ltb_spec d (length (hs s))); [reflexivity|lia].
    - intros i Hi. rewrite slot_mk, !nth_set_nth. destruct (Nat.eqb_spec d i); [congruence|reflexivity].
    - cbn [rm_opt]. apply remove_one_cons.
    - exists (with_cnt xb (ocnt xb + 1)%N). rewrite !nth_error_set_nth.
      destruct (Nat.eqb_spec a b); [congruence|]. rewrite Nat.eqb_refl, Eb. auto.
    - eexists. rewrite nth_error_set_nth, Nat.eqb_refl, nth_error_set_nth.
      destruct (Nat.eqb_spec b a); [congruence|]. rewrite Ea. split; [reflexivity|].
      destruct (N.eqb_spec (ocnt xa - 1) 0); cbn [freed with_cnt ocnt odead]; (split; [reflexivity|]).
      + split; [intros _; lia|reflexivity].
      + rewrite Da. split; [discriminate|lia].
    - intros o Na Nb. rewrite !nth_error_set_nth.
      destruct (Nat.eqb_spec a o); [congruence|]. destruct (Nat.eqb_spec b o); [congruence|reflexivity]. }
  assert (Hs1 : hs s1 = hs s) by (unfold s1; simp_st; reflexivity).
  assert (Ps1 : pend s1 = [b]) by (unfold s1; simp_st; rewrite P; reflexivity).
  destruct (ocnt xa - 1 =? 0)%N; cbn [bind]; eexists; (split; [reflexivity|]); apply Q; simp_st; cbn [s2 objs hs pend];
    rewrite ?Hs1, ?Ps1; cbn [remove_one]; rewrite ?Nat.eqb_refl; reflexivity.
Qed.

(* a new referent that cannot be shared: BadOperation, no slot and no object changes *)
Lemma conv_refused s si d b xb :
  Good s -> slot s si = Some b -> nth_error (objs s) b = Some xb ->
  (cls_of (okind xb) = Unique \/ (cls_of (okind xb) = Counted /\ ocnt xb = CMAX)) ->
  exists s', p_conv s si d = Ok (s', OE) /\ hs s' = hs s /\ objs s' = objs s /\ pend s' = [].
Proof.
  intros [I P] Sb Eb Hk.
  destruct (inv_live s b I (H3_slot s si b Sb)) as (xb0 & Eb0 & Db). rewrite Eb in Eb0. inversion Eb0; subst xb0.
  unfold p_conv. rewrite Sb. cbn [retain]. unfold m_addref. rewrite (live_ok s b xb Eb Db). cbn [bind].
  destruct Hk as [K|[K M]]; rewrite K.
  - cbn [bind N.eqb negb]. eexists. split; [reflexivity|]. simp_st. auto.
  - rewrite M. change (raise CMAX) with (CMAX, 0%N). cbn [N.eqb bind negb]. eexists. split; [reflexivity|]. simp_st.
    split; [reflexivity|]. split; [|assumption]. rewrite <- M. replace (with_cnt xb (ocnt xb)) with xb by (destruct xb; reflexivity).
    apply set_nth_same, Eb.
Qed.

(* assigning the referent a slot already holds: counters end where they started *)
Lemma conv_same s si d b xb :
  Good s -> d < NSLOT -> slot s si = Some b -> slot s d = Some b ->
  nth_error (objs s) b = Some xb -> cls_of (okind xb) = Counted -> (ocnt xb < CMAX)%N ->
  exists s', p_conv s si d = Ok (s', OD) /\ hs s' = hs s /\ objs s' = objs s /\ pend s' = [].
Proof.
  intros [I P] Hd Sb Sd Eb Kb Mb.
  assert (Hl : d < length (hs s)) by (rewrite (inv_len s I); assumption).
  destruct (inv_live s b I (H3_slot s si b Sb)) as (xb0 & Eb0 & Db). rewrite Eb in Eb0. inversion Eb0; subst xb0.
  pose proof (inv_obj s I b xb Eb) as (_ & _ & Cb). rewrite Db, Kb in Cb. destruct Cb as (_ & Hb0 & Hbw).
  unfold p_conv. rewrite Sb. cbn [retain]. unfold m_addref. rewrite (live_ok s b xb Eb Db). cbn [bind]. rewrite Kb.
  rewrite (raise_mid _ Hb0 Mb).
  replace (ocnt xb + 1 =? 0)%N with false by (symmetry; apply N.eqb_neq; lia). cbn [bind negb].
  replace (ocnt xb + 1 =? 0)%N with false by (symmetry; apply N.eqb_neq; lia). cbn [bind negb].
  set (s1 := add_pend (log (set_obj s b (with_cnt xb (ocnt xb + 1)%N)) (okind xb) (EAdd b)) b).
  assert (S1d : slot s1 d = Some b) by (unfold s1, slot; simp_st; exact Sd).
  unfold m_take. rewrite S1d. cbn [unref_opt o2l app].
  set (s2 := mkst (objs s1) (set_nth d None (hs s1)) (b :: pend s1) (elog s1)).
  assert (E2 : nth_error (objs (del_pend s2 b)) b = Some (with_cnt xb (ocnt xb + 1)%N)).
  { unfold s2, s1. simp_st. cbn [objs]. simp_st. rewrite nth_error_set_nth, Nat.eqb_refl, Eb. reflexivity. }
  unfold m_unref. rewrite (live_ok _ b _ E2 Db). cbn [bind with_cnt okind ocnt]. rewrite Kb.
  rewrite lower_pos by (rewrite ?W_val in *; lia).
  replace (ocnt xb + 1 - 1 =? 0)%N with false by (symmetry; apply N.eqb_neq; lia). cbn [bind].
  eexists. split; [reflexivity|]. unfold m_put, s2, s1. cbn [objs hs pend]. simp_st. cbn [objs hs pend]. simp_st.
  split; [|split].
  - rewrite set_nth_twice. apply (set_nth_same (hs s) d (Some b)). rewrite (nth_error_nth' (hs s) d None Hl). exact (f_equal Some Sd).
  - rewrite set_nth_twice. replace (ocnt xb + 1 - 1)%N with (ocnt xb) by lia.
    replace (with_cnt (with_cnt xb (ocnt xb + 1)) (ocnt xb)) with xb by (destruct xb; reflexivity).
    apply set_nth_same, Eb.
  - rewrite P. cbn [rm_opt]. rewrite !remove_one_cons. reflexivity.
Qed.
