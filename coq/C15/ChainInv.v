(* C15/ChainInv.v — linked nodes (ChainModel.v): the invariant "counter = number of handles, owned handles included;
   destroyed = no handle; an object owns handles on older objects only" and its preservation by the vtable calls
   (addref, unref WITH the destruction cascade through owned handles) and the slot / member moves. *)
From MptV Require Import Base.Mem C15.RefcountModel C15.RefcountSpec C15.RefcountCounter C15.RefcountInv
  C15.RefcountSteps C15.RefcountOps C15.ChainModel.
Local Open Scope nat_scope.

(* number of handles on o: locals + slots + handles owned by objects *)
Definition NH (s : nst) (o : nat) : nat :=
  cnt (npend s) o + cnt (flat_map o2l (nhs s)) o + cnt (flat_map nin (nobjs s)) o.

Lemma nheld_NH s o : nheld s o = N.of_nat (NH s o).
Proof.
  unfold nheld, NH, nhandles. fold (cnt (npend s ++ flat_map o2l (nhs s) ++ flat_map nin (nobjs s)) o).
  rewrite !cnt_app. f_equal. lia.
Qed.

Definition nobj_ok (s : nst) (o : nat) (x : nobj) : Prop :=
  (forall b, nnext x = Some b -> b < o) /\
  (if ndead x
   then nnext x = None /\ NH s o = 0
   else ncnt x = N.of_nat (NH s o) /\ (0 < ncnt x)%N /\ (ncnt x < W)%N).

Record NInv (s : nst) : Prop := mkNInv {
  ninv_len : length (nhs s) = NSLOT;
  ninv_rng : forall o, 0 < NH s o -> o < length (nobjs s);
  ninv_obj : forall o x, nth_error (nobjs s) o = Some x -> nobj_ok s o x
}.

(* nothing that exists before an operation changes its owned handle, nothing destroyed comes back *)
Definition nframe (s s' : nst) : Prop :=
  length (nobjs s') = length (nobjs s) /\
  forall j x', nth_error (nobjs s') j = Some x' -> ndead x' = false ->
    exists x, nth_error (nobjs s) j = Some x /\ ndead x = false /\ nnext x' = nnext x.

Lemma nframe_refl s : nframe s s.
Proof. split; [reflexivity|]. intros j x' E D. exists x'. auto. Qed.

Lemma nframe_trans s1 s2 s3 : nframe s1 s2 -> nframe s2 s3 -> nframe s1 s3.
Proof.
  intros [L1 F1] [L2 F2]. split; [lia|]. intros j x3 E3 D3.
  destruct (F2 j x3 E3 D3) as (x2 & E2 & D2 & N2).
  destruct (F1 j x2 E2 D2) as (x1 & E1 & D1 & N1). exists x1. split; [assumption|]. split; [assumption|congruence].
Qed.

Lemma nframe_objs s s' : nobjs s' = nobjs s -> nframe s s'.
Proof. intros E. split; [rewrite E; reflexivity|]. intros j x' E' D. rewrite E in E'. exists x'. auto. Qed.

Lemma ninv_live s o : NInv s -> 0 < NH s o -> exists x, nth_error (nobjs s) o = Some x /\ ndead x = false.
Proof.
  intros I H. pose proof (ninv_rng s I o H) as Hl.
  destruct (nth_error (nobjs s) o) as [x|] eqn:E; [|apply nth_error_None in E; lia].
  exists x. split; [reflexivity|].
  destruct (ninv_obj s I o x E) as (_ & Hd).
  destruct (ndead x); [|reflexivity]. destruct Hd as (_ & Hz). lia.
Qed.

Lemma nlive_ok s o x : nth_error (nobjs s) o = Some x -> ndead x = false -> nlive s o = Ok x.
Proof. intros E D. unfold nlive. rewrite E, D. reflexivity. Qed.

Lemma NH_pend_in s o : In o (npend s) -> 0 < NH s o.
Proof. intros H. unfold NH. apply cnt_pos_in in H. lia. Qed.

Lemma NH_slot s i o : nslot s i = Some o -> 0 < NH s o.
Proof.
  unfold nslot. intros E. unfold NH.
  assert (Hi : i < length (nhs s)).
  { destruct (Nat.ltb_spec i (length (nhs s))); [assumption|]. rewrite nth_overflow in E by assumption. discriminate. }
  pose proof (cnt_flat_set_nth o2l (nhs s) i None (Some o) o (eq_trans (nth_error_nth' (nhs s) i None Hi) (f_equal Some E))) as C.
  cbn [o2l] in C. rewrite cnt_cons, Nat.eqb_refl, !cnt_nil in C. lia.
Qed.

Lemma NH_next s c x b : nth_error (nobjs s) c = Some x -> nnext x = Some b -> 0 < NH s b.
Proof.
  intros E Hb. unfold NH.
  pose proof (cnt_flat_set_nth nin (nobjs s) c (mknobj (ncnt x) (ndead x) None) x b E) as C.
  unfold nin at 2 4 in C. rewrite Hb in C. cbn [o2l nnext] in C. rewrite cnt_cons, Nat.eqb_refl, !cnt_nil in C. lia.
Qed.

Lemma NInv_ext s s' : nobjs s' = nobjs s -> nhs s' = nhs s -> npend s' = npend s -> NInv s -> NInv s'.
Proof.
  intros Eo Eh Ep I.
  assert (EH : forall o, NH s' o = NH s o) by (intros; unfold NH; rewrite Eo, Eh, Ep; reflexivity).
  constructor.
  - rewrite Eh. apply I.
  - intros o. rewrite EH, Eo. apply I.
  - intros o x. rewrite Eo. intros E. pose proof (ninv_obj s I o x E) as (A & B).
    unfold nobj_ok. rewrite EH. auto.
Qed.

Lemma NInv_same_NH s s' :
  nobjs s' = nobjs s -> length (nhs s') = NSLOT -> (forall o, NH s' o = NH s o) -> NInv s -> NInv s'.
Proof.
  intros Eo Hl EH I. constructor.
  - assumption.
  - intros o. rewrite EH, Eo. apply I.
  - intros o x. rewrite Eo. intros E. pose proof (ninv_obj s I o x E) as (A & B).
    unfold nobj_ok. rewrite EH. auto.
Qed.

(* one object changes *)
Lemma NInv_upd1 s s' o x x' :
  NInv s -> nth_error (nobjs s) o = Some x -> nobjs s' = set_nth o x' (nobjs s) -> length (nhs s') = NSLOT ->
  (forall o', o' <> o -> NH s' o' = NH s o') ->
  (forall b, nnext x' = Some b -> b < o) ->
  (if ndead x' then nnext x' = None /\ NH s' o = 0
   else ncnt x' = N.of_nat (NH s' o) /\ (0 < ncnt x')%N /\ (ncnt x' < W)%N) ->
  NInv s'.
Proof.
  intros I E Eo Hl HH C1 C2.
  assert (Ho : o < length (nobjs s)) by (apply nth_error_Some; congruence).
  constructor.
  - assumption.
  - intros o' Hp. rewrite Eo, length_set_nth. destruct (Nat.eq_dec o' o) as [->|n]; [assumption|].
    rewrite (HH o' n) in Hp. apply (ninv_rng s I o' Hp).
  - intros o' x0. rewrite Eo, nth_error_set_nth. destruct (Nat.eqb_spec o o') as [<-|n].
    + rewrite E. intros X; inversion X; subst x0. split; assumption.
    + intros E0. destruct (ninv_obj s I o' x0 E0) as (A & B). split; [assumption|].
      rewrite (HH o' (not_eq_sym n)). assumption.
Qed.

(* ---------- addref ---------- *)
Definition nshare (s : nst) (v : option nat) : bool :=
  match v with Some o => (N.of_nat (NH s o) <? CMAX)%N | None => true end.

Lemma cnt_nin_set l o x x' o' : nth_error l o = Some x -> nnext x' = nnext x ->
  cnt (flat_map nin (set_nth o x' l)) o' = cnt (flat_map nin l) o'.
Proof.
  intros E Hn. pose proof (cnt_flat_set_nth nin l o x' x o' E) as C.
  unfold nin at 2 4 in C. rewrite Hn in C. lia.
Qed.

Lemma n_addref_ok s o : NInv s -> 0 < NH s o ->
  exists s' r, n_addref s o = Ok (s', r) /\ NInv s' /\ nhs s' = nhs s /\
    r = (if (N.of_nat (NH s o) <? CMAX)%N then (N.of_nat (NH s o) + 1)%N else 0%N) /\
    npend s' = (if (r =? 0)%N then npend s else o :: npend s) /\ nframe s s'.
Proof.
  intros I Hp. destruct (ninv_live s o I Hp) as (x & E & D).
  pose proof (ninv_obj s I o x E) as (C1 & C3). rewrite D in C3. destruct C3 as (Hc & Hpos & Hw).
  unfold n_addref. rewrite (nlive_ok s o x E D). cbn [bind].
  rewrite (raise_spec _ Hw). unfold sraise.
  replace (0 <? ncnt x)%N with true by (symmetry; apply N.ltb_lt; assumption). cbn [andb].
  rewrite <- Hc.
  assert (FR : forall c, nframe s (nset s o (mknobj c (ndead x) (nnext x)))).
  { intros c. split; [cbn [nset nobjs]; rewrite length_set_nth; reflexivity|].
    intros j x' E' D'. cbn [nset nobjs] in E'. rewrite nth_error_set_nth in E'.
    destruct (Nat.eqb_spec o j) as [<-|n].
    - rewrite E in E'. inversion E'; subst x'. exists x. auto.
    - exists x'. auto. }
  destruct (N.ltb_spec (ncnt x) CMAX) as [Hm|Hm].
  - assert (Z : (ncnt x + 1 =? 0)%N = false) by (apply N.eqb_neq; lia). rewrite Z.
    eexists _, _. split; [reflexivity|]. rewrite Z.
    split; [|split; [reflexivity|split; [reflexivity|split; [reflexivity|]]]].
    + apply (NInv_upd1 s _ o x (mknobj (ncnt x + 1) (ndead x) (nnext x)) I E); cbn [nadd_pend nlogev nset nobjs nhs npend nnext ndead ncnt];
        try reflexivity; try assumption.
      * apply I.
      * intros o' n. unfold NH. cbn [nadd_pend nlogev nset nobjs nhs npend]. rewrite cnt_cons.
        rewrite (cnt_nin_set _ o x _ o' E) by reflexivity. destruct (Nat.eqb_spec o o'); [congruence|lia].
      * rewrite D. unfold NH in *. cbn [nadd_pend nlogev nset nobjs nhs npend]. rewrite cnt_cons, Nat.eqb_refl.
        rewrite (cnt_nin_set _ o x _ o E) by reflexivity. rewrite W_val. split; [|split]; lia.
    + apply (FR (ncnt x + 1)%N).
  - eexists _, _. split; [reflexivity|]. cbn [N.eqb].
    split; [|split; [reflexivity|split; [reflexivity|split; [reflexivity|]]]].
    + apply (NInv_upd1 s _ o x (mknobj (ncnt x) (ndead x) (nnext x)) I E); cbn [nadd_pend nlogev nset nobjs nhs npend nnext ndead ncnt];
        try reflexivity; try assumption.
      * apply I.
      * intros o' n. unfold NH. cbn [nadd_pend nlogev nset nobjs nhs npend]. rewrite (cnt_nin_set _ o x _ o' E) by reflexivity. reflexivity.
      * rewrite D. unfold NH in *. cbn [nadd_pend nlogev nset nobjs nhs npend]. rewrite (cnt_nin_set _ o x _ o E) by reflexivity.
        split; [|split]; lia.
    + apply (FR (ncnt x)).
Qed.

Lemma n_retain_ok s v : NInv s -> (forall o, v = Some o -> 0 < NH s o) ->
  exists s1, n_retain s v = Ok (s1, nshare s v) /\ NInv s1 /\ nhs s1 = nhs s /\
    npend s1 = (if nshare s v then o2l v else []) ++ npend s /\ nframe s s1.
Proof.
  intros I Hv. destruct v as [o|]; cbn [n_retain nshare].
  - destruct (n_addref_ok s o I (Hv o eq_refl)) as (s1 & r & E & I1 & Hh & Hr & Hq & F).
    rewrite E. cbn [bind]. exists s1.
    assert (Er : negb (r =? 0)%N = (N.of_nat (NH s o) <? CMAX)%N).
    { rewrite Hr. destruct (N.of_nat (NH s o) <? CMAX)%N; [|reflexivity].
      destruct (N.eqb_spec (N.of_nat (NH s o) + 1) 0); [lia|reflexivity]. }
    rewrite Er. split; [reflexivity|]. split; [assumption|]. split; [assumption|]. split; [|assumption].
    rewrite Hq. rewrite <- Er. destruct (r =? 0)%N; reflexivity.
  - exists s. split; [reflexivity|]. split; [assumption|]. split; [reflexivity|]. split; [reflexivity|apply nframe_refl].
Qed.

(* ---------- slot moves ---------- *)
Lemma nslot_beyond s d : length (nhs s) <= d -> nslot s d = None.
Proof. intros H. unfold nslot. apply nth_overflow. assumption. Qed.

Lemma n_take_ok s d : NInv s ->
  NInv (fst (n_take s d)) /\ nobjs (fst (n_take s d)) = nobjs s /\
  nhs (fst (n_take s d)) = set_nth d None (nhs s) /\ npend (fst (n_take s d)) = o2l (nslot s d) ++ npend s /\
  snd (n_take s d) = nslot s d.
Proof.
  intros I. unfold n_take. cbn [fst snd nobjs nhs npend].
  split; [|repeat split].
  apply (NInv_same_NH s); cbn [nobjs nhs npend]; try reflexivity; try assumption.
  - rewrite length_set_nth. apply I.
  - intros o. unfold NH. cbn [nobjs nhs npend]. rewrite cnt_app.
    destruct (Nat.ltb_spec d (length (nhs s))) as [Hd|Hd].
    + pose proof (cnt_flat_set_nth o2l (nhs s) d None (nslot s d) o (nth_error_nth' (nhs s) d None Hd)) as C.
      cbn [o2l] in C. rewrite cnt_nil in C. lia.
    + rewrite (set_nth_beyond d None (nhs s) Hd), (nslot_beyond s d Hd). cbn [o2l]. rewrite cnt_nil. lia.
Qed.

Lemma n_put_ok s d v : NInv s -> nslot s d = None -> d < NSLOT -> (forall o, v = Some o -> In o (npend s)) ->
  NInv (n_put s d v).
Proof.
  intros I Hs Hd Hv. unfold n_put.
  apply (NInv_same_NH s); cbn [nobjs nhs npend]; try reflexivity; try assumption.
  - rewrite length_set_nth. apply I.
  - intros o. unfold NH. cbn [nobjs nhs npend].
    assert (Hd' : d < length (nhs s)) by (rewrite (ninv_len s I); assumption).
    pose proof (cnt_flat_set_nth o2l (nhs s) d v None o) as C.
    rewrite (nth_error_nth' (nhs s) d None Hd') in C. fold (nslot s d) in C. rewrite Hs in C.
    specialize (C eq_refl). cbn [o2l] in C. rewrite cnt_nil in C.
    destruct v as [a|]; cbn [rm_opt o2l] in *.
    + pose proof (cnt_remove_one (npend s) a o (Hv a eq_refl)) as C2. rewrite cnt_cons, cnt_nil in C. lia.
    + rewrite cnt_nil in C. lia.
Qed.

(* ---------- creation ---------- *)
Lemma n_new_ok s : NInv s ->
  NInv (fst (n_new s)) /\ nhs (fst (n_new s)) = nhs s /\ npend (fst (n_new s)) = length (nobjs s) :: npend s /\
  snd (n_new s) = length (nobjs s) /\ nobjs (fst (n_new s)) = nobjs s ++ [mknobj 1%N false None].
Proof.
  intros I. unfold n_new. cbn [fst snd nobjs nhs npend].
  set (n := length (nobjs s)). set (x := mknobj 1%N false None).
  set (s' := mknst (nobjs s ++ [x]) (nhs s) (n :: npend s) (nlog s)).
  assert (EH : forall o, NH s' o = NH s o + (if Nat.eqb n o then 1 else 0)).
  { intros o. unfold NH, s'. cbn [nobjs nhs npend]. rewrite cnt_flat_app, cnt_cons. unfold nin at 2. cbn [nnext x o2l].
    rewrite cnt_nil. lia. }
  assert (Hn : NH s n = 0).
  { destruct (NH s n) eqn:Z; [reflexivity|]. assert (0 < NH s n) by lia. pose proof (ninv_rng s I n H). unfold n in *. lia. }
  assert (Kb : forall b y, nth_error (nobjs s) b = Some y -> nth_error (nobjs s ++ [x]) b = Some y).
  { intros b y Eb. rewrite nth_error_app1; [assumption|]. apply nth_error_Some. congruence. }
  split; [|split; [reflexivity|split; [reflexivity|split; [reflexivity|reflexivity]]]].
  - constructor.
    + apply I.
    + intros o Hp. rewrite EH in Hp. unfold s'. cbn [nobjs]. rewrite app_length. cbn [length].
      destruct (Nat.eqb_spec n o); [subst; fold n; lia|]. assert (0 < NH s o) by lia. pose proof (ninv_rng s I o H). lia.
    + intros o x0 E0. unfold s' in E0. cbn [nobjs] in E0.
      destruct (Nat.lt_ge_cases o n) as [Ho|Ho].
      * rewrite nth_error_app1 in E0 by assumption.
        destruct (ninv_obj s I o x0 E0) as (A & B). split; [assumption|].
        rewrite EH. destruct (Nat.eqb_spec n o); [lia|]. rewrite Nat.add_0_r. assumption.
      * assert (o = n).
        { assert (o < length (nobjs s ++ [x])) by (apply nth_error_Some; congruence).
          rewrite app_length in H. cbn [length] in H. fold n in H. lia. }
        subst o. unfold n in E0. rewrite nth_error_app_last in E0. inversion E0; subst x0.
        split; [cbn [x nnext]; discriminate|].
        cbn [x ndead ncnt]. rewrite EH, Hn, Nat.eqb_refl. split; [reflexivity|]. split; reflexivity.
Qed.

(* ---------- unref: one object loses a handle held in a local; when it dies, the handle it owns moves to the locals ---------- *)
Definition nafter (x : nobj) : nobj :=
  if (ncnt x - 1 =? 0)%N then mknobj (ncnt x - 1)%N true None else mknobj (ncnt x - 1)%N false (nnext x).

Lemma nunref1_inv g o x e :
  NInv g -> In o (npend g) -> nth_error (nobjs g) o = Some x -> ndead x = false ->
  let mv := if ndead (nafter x) then nnext x else None in
  let g' := mknst (set_nth o (nafter x) (nobjs g)) (nhs g) (o2l mv ++ remove_one o (npend g)) e in
  NInv g' /\ nframe g g'.
Proof.
  intros I Hp E D mv g'.
  pose proof (ninv_obj g I o x E) as (C1 & C3). rewrite D in C3. destruct C3 as (Hc & Hp0 & Hw).
  assert (EH : forall o', NH g' o' + (if Nat.eqb o o' then 1 else 0) = NH g o').
  { intros o'. unfold NH, g'. cbn [nobjs nhs npend]. rewrite cnt_app.
    pose proof (cnt_remove_one (npend g) o o' Hp) as P.
    pose proof (cnt_flat_set_nth nin (nobjs g) o (nafter x) x o' E) as Q.
    assert (cnt (nin (nafter x)) o' + cnt (o2l mv) o' = cnt (nin x) o').
    { unfold mv, nafter, nin. destruct (ncnt x - 1 =? 0)%N; cbn [ndead nnext o2l]; rewrite ?cnt_nil; lia. }
    lia. }
  split.
  - apply (NInv_upd1 g g' o x (nafter x) I E); try reflexivity.
    + apply I.
    + intros o' n. specialize (EH o'). destruct (Nat.eqb_spec o o'); [congruence|lia].
    + intros b Hb. apply C1. unfold nafter in Hb. destruct (ncnt x - 1 =? 0)%N; cbn [nnext] in Hb; [discriminate|assumption].
    + specialize (EH o). rewrite Nat.eqb_refl in EH. unfold nafter.
      destruct (N.eqb_spec (ncnt x - 1) 0) as [Z|Z]; cbn [ndead nnext ncnt].
      * split; [reflexivity|lia].
      * split; [lia|]. split; lia.
  - split; [cbn [g' nobjs]; rewrite length_set_nth; reflexivity|].
    intros j x' E' D'. cbn [g' nobjs] in E'. rewrite nth_error_set_nth in E'.
    destruct (Nat.eqb_spec o j) as [<-|n].
    + rewrite E in E'. inversion E'; subst x'. exists x. split; [assumption|]. split; [assumption|].
      unfold nafter in *. destruct (ncnt x - 1 =? 0)%N; cbn [ndead nnext] in *; [discriminate|reflexivity].
    + exists x'. auto.
Qed.

(* the cascade: every level destroys an object whose id is below the previous one *)
Lemma n_unref_ok : forall f s o, NInv s -> In o (npend s) -> o < f ->
  exists s', n_unref f s o = Ok s' /\ NInv s' /\ nhs s' = nhs s /\ npend s' = remove_one o (npend s) /\ nframe s s'.
Proof.
  induction f as [|f IH]; intros s o I Hp Hf; [lia|].
  assert (Hpos : 0 < NH s o) by (apply NH_pend_in; assumption).
  destruct (ninv_live s o I Hpos) as (x & E & D).
  pose proof (ninv_obj s I o x E) as (C1 & C3). rewrite D in C3. destruct C3 as (Hc & H1 & H2).
  cbn [n_unref]. rewrite (nlive_ok (ndel_pend s o) o x E D). cbn [bind]. rewrite (lower_pos _ H1 H2).
  pose proof (nunref1_inv s o x (EDel o :: EUnr o :: nlog s) I Hp E D) as U. cbn zeta in U.
  pose proof (nunref1_inv s o x (EUnr o :: nlog s) I Hp E D) as U'. cbn zeta in U'.
  unfold nafter in U, U'. destruct (ncnt x - 1 =? 0)%N eqn:Z; cbn [ndead] in U, U'.
  - destruct U as [U1 U2]. destruct (nnext x) as [b|] eqn:Nx; cbn [o2l app] in U1, U2.
    + assert (Hb : b < f) by (specialize (C1 b eq_refl); lia).
      destruct (IH _ b U1 (or_introl eq_refl) Hb) as (s' & Es & I' & Hh & Hq & F').
      exists s'. split; [exact Es|]. split; [assumption|]. split; [exact Hh|]. split.
      * rewrite Hq. cbn [npend]. apply remove_one_cons.
      * exact (nframe_trans _ _ _ U2 F').
    + eexists. split; [reflexivity|]. split; [exact U1|]. split; [reflexivity|]. split; [reflexivity|exact U2].
  - destruct U' as [U1 U2]. cbn [o2l app] in U1, U2.
    eexists. split; [reflexivity|]. split; [exact U1|]. split; [reflexivity|]. split; [reflexivity|exact U2].
Qed.

Lemma n_unref_opt_ok s v : NInv s -> (forall a, v = Some a -> In a (npend s)) ->
  exists s', n_unref_opt s v = Ok s' /\ NInv s' /\ nhs s' = nhs s /\ npend s' = rm_opt v (npend s) /\ nframe s s'.
Proof.
  intros I H. destruct v as [a|]; cbn [n_unref_opt rm_opt].
  - apply n_unref_ok; auto. apply (ninv_rng s I), NH_pend_in. auto.
  - exists s. split; [reflexivity|]. split; [assumption|]. split; [reflexivity|]. split; [reflexivity|apply nframe_refl].
Qed.
