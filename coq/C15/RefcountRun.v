(* C15/RefcountRun.v — all histories: the invariant holds after every operation, no history faults. *)
From MptV Require Import Base.Mem C15.RefcountModel C15.RefcountSpec C15.RefcountCounter C15.RefcountInv
  C15.RefcountSteps C15.RefcountOps.
Local Open Scope nat_scope.

Lemma eqb_bound d k : (bank d =? k) = true -> k < 5 -> d < NSLOT.
Proof. apply bank_eqb_bound. Qed.

Lemma bank_same_bound a d : (bank a =? bank d) = true -> a < NSLOT -> d < NSLOT.
Proof.
  intros H Ha. apply Nat.eqb_eq in H. apply bank_bound. rewrite <- H.
  unfold bank, NSLOT in *. destruct (Nat.ltb_spec a 6); [lia|]. destruct (Nat.ltb_spec a 9); [lia|].
  destruct (Nat.ltb_spec a 12); [lia|]. destruct (Nat.ltb_spec a 15); [lia|]. destruct (Nat.ltb_spec a 18); lia.
Qed.

Lemma or3_bound a : ((bank a =? 0) || (bank a =? 1) || (bank a =? 4)) = true -> a < NSLOT.
Proof.
  intros H. apply orb_prop in H. destruct H as [H|H]; [apply orb_prop in H; destruct H as [H|H]|];
    eapply eqb_bound; try eassumption; lia.
Qed.

Ltac done_with L := destruct L as (s' & t & E & G' & K'); rewrite ?E; cbn [bind]; eexists _, _; (split; [reflexivity|]); auto.

Lemma exec_ok s o : Good s -> guard (hs s) (kind_at s) (held s) o = true ->
  exists s' t, exec s o = Ok (s', t) /\ Good s' /\ same_kinds s s'.
Proof.
  intros G Hg. pose proof G as [I P].
  destruct o; cbn [guard exec] in *;
    repeat match goal with
           | H : context [nth ?i (hs s) None] |- _ => change (nth i (hs s) None) with (slot s i) in H
           end;
    split_guard Hg.
  - (* ONew *)
    destruct (p_new_ok s k d G (is_none_true _ Hg0) (kind_in_bank_bound _ _ Hg1)) as (s' & E & G' & K').
    eexists _, _. split; [exact E|]. auto.
  - (* OMetaBuf *)
    destruct (mk_metabuf_ok s (slot s a) d G (is_none_true _ Hg1) (eqb_bound _ _ Hg2 ltac:(lia))) as (s1 & id & E & G' & K').
    { intros b Hb. split; [apply (H3_slot s a b Hb)|]. rewrite Hb in Hg0. cbn [is_none orb] in Hg0.
      destruct (kind_is_spec s _ _ Hg0) as (b0 & y & Sb & Ey & By). inversion Sb; subst. eauto. }
    rewrite E. cbn [bind]. eexists _, _. split; [reflexivity|]. auto.
  - (* OAddref *)
    destruct (is_none_false _ Hg1) as (o & S). rewrite S.
    destruct (p_addref_ok s o d s0 G S (is_none_true _ Hg0) (bank_same_bound _ _ Hg (or3_bound _ Hg2))) as (s' & r & E & G' & K').
    rewrite E. cbn [bind]. eexists _, _. split; [reflexivity|]. auto.
  - (* OUnref *)
    destruct (p_unref_ok s s0 G) as (s' & E & G' & K' & _). eexists _, _. split; [exact E|]. auto.
  - (* OClone *)
    destruct (is_none_false _ Hg1) as (o & S). rewrite S.
    exact (p_clone_ok s o d s0 G S (is_none_true _ Hg0) (eqb_bound _ _ Hg2 ltac:(lia))).
  - (* OConv *)
    exact (p_conv_ok s s0 d G (eqb_bound _ _ Hg0 ltac:(lia))).
  - (* ORefInit *)
    assert (Hd : d < NSLOT).
    { apply orb_prop in Hg1. destruct Hg1 as [H|H]; apply andb_prop in H; destruct H as [H _];
        (eapply bank_same_bound; [exact Hg|]); eapply eqb_bound; try exact H; lia. }
    destruct (p_refinit_ok s s0 d G (is_none_true _ Hg0) Hd) as (s' & t & E & G' & K' & _).
    eexists _, _. split; [exact E|]. auto.
  - (* ORefFini *)
    destruct (p_unref_ok s d G) as (s' & E & G' & K' & _). eexists _, _. split; [exact E|]. auto.
  - (* ORefCopy *)
    exact (p_refcopy_ok s G (is_none_true _ Hg) (is_none_true _ Hg1) (is_none_true _ Hg0)).
  - (* OArrClone *)
    exact (p_arrclone_ok s s0 d G (eqb_bound _ _ Hg0 ltac:(lia))).
  - (* OArrClear *)
    exact (p_arrclear_ok s d G).
  - (* ODetach *)
    destruct (kind_is_spec s _ _ Hg0) as (o & x & S & _). rewrite S.
    exact (p_detach_ok s a o G S (eqb_bound _ _ Hg ltac:(lia))).
  - (* ODetachF *)
    destruct (kind_is_spec s _ _ Hg0) as (o & x & S & _). rewrite S.
    apply (p_detachf_ok s a o G S). exact Hg0.
  - (* OSetInner *)
    destruct (kind_is_spec s _ _ Hg1) as (o & x & S & _). rewrite S.
    exact (p_setinner_ok s m o a G S Hg1 (kind_is_stage_buf _ _ Hg0)).
  - (* ODefer *)
    destruct (kind_is_spec s _ _ Hg1) as (o & x & S & _). rewrite S.
    destruct (p_addref_ok s o d s0 G S (is_none_true _ Hg0) (eqb_bound _ _ Hg2 ltac:(lia))) as (s' & r & E & G' & K').
    rewrite E. cbn [bind]. eexists _, _. split; [reflexivity|]. auto.
  - (* OForce *)
    destruct (kind_is_spec s _ _ Hg3) as (o & x & S & _). rewrite S in Hg0 |- *.
    exact (p_force_ok s s0 o v G S Hg3 Hg2 Hg1 Hg0).
  - (* OUnforce *)
    destruct (unforce_ok (length (objs s)) 0 s G) as (s' & E & G' & K'). rewrite E. cbn [bind].
    eexists _, _. split; [reflexivity|]. auto.
  - (* XNew *) exact (x_new_ok s KCxx d G (eqb_bound _ _ Hg ltac:(lia))).
  - (* XAssign *) exact (x_assign_ok s s0 d G (eqb_bound _ _ Hg0 ltac:(lia))).
  - (* XCopy *) exact (x_copy_ok s s0 d G (eqb_bound _ _ Hg1 ltac:(lia))).
  - (* XMove *) exact (x_move_ok s s0 d G (eqb_bound _ _ Hg0 ltac:(lia))).
  - (* XDetach *)
    apply (x_detach_ok s s0 d G (eqb_bound _ _ Hg1 ltac:(lia)) (is_none_true _ Hg0)).
    intros ->. apply Nat.eqb_eq in Hg, Hg1. lia.
  - (* XSetInst *) exact (x_move_ok s s0 d G (eqb_bound _ _ Hg0 ltac:(lia))).
  - (* XDrop *)
    destruct (p_unref_ok s d G) as (s' & E & G' & K' & _). eexists _, _. split; [exact E|]. auto.
  - (* XGen *) exact (x_new_ok s KXGen d G (eqb_bound _ _ Hg ltac:(lia))).
  - (* XClone *)
    destruct (kind_is_spec s _ _ Hg1) as (o & x & S & _). rewrite S.
    exact (x_clone_ok s o d s0 G S (is_none_true _ Hg0) (eqb_bound _ _ Hg2 ltac:(lia))).
  - (* ORawModify *)
    destruct (kind_is_spec s _ _ Hg0) as (o & x & S & _). rewrite S. exact (p_modify_ok s m o G S Hg0).
  - (* ORawAdvance *)
    destruct (kind_is_spec s _ _ Hg0) as (o & x & S & _). rewrite S. exact (p_advance_ok s m o G S Hg0).
  - (* ORawGet *)
    destruct (kind_is_spec s _ _ Hg0) as (o & x & S & _). rewrite S.
    exact (p_rawget_ok s m o a G S (eqb_bound _ _ Hg1 ltac:(lia))).
  - (* ORawCall *)
    eexists _, _. split; [reflexivity|]. split; [assumption|apply same_kinds_refl].
Qed.

Lemma Good_clear s : Good s -> Good (clear_log s).
Proof. intros [I P]. split; [apply Inv_clear, I|exact P]. Qed.

Lemma step_ok s o : Good s -> exists s' t, step s o = Ok (s', t) /\ Good s' /\ same_kinds s s'.
Proof.
  intros G. unfold step.
  assert (K : same_kinds s (clear_log s)) by (split; [reflexivity|]; intros o' x E; exists x; auto).
  destruct (guard (hs (clear_log s)) (kind_at (clear_log s)) (held (clear_log s)) o) eqn:Hg.
  - destruct (exec_ok (clear_log s) o (Good_clear s G) Hg) as (s' & t & E & G' & K').
    eexists _, _. split; [exact E|]. split; [assumption|]. exact (same_kinds_trans _ _ _ K K').
  - eexists _, _. split; [reflexivity|]. split; [apply Good_clear, G|assumption].
Qed.

Lemma Good_init : Good init.
Proof.
  split; [|reflexivity]. constructor.
  - reflexivity.
  - intros o H. unfold H3, init in H. cbn in H. lia.
  - intros o x E. destruct o; discriminate.
Qed.

(* final state of a history; None after a fault *)
Definition final (s : st) (ops : list op) : option st := snd (mrun s ops).

Lemma mrun_ok ops : forall s, Good s ->
  exists s', final s ops = Some s' /\ Good s' /\ same_kinds s s' /\ ~ In ObsFault (fst (mrun s ops)).
Proof.
  induction ops as [|o r IH]; intros s G.
  - exists s. split; [reflexivity|]. split; [assumption|]. split; [apply same_kinds_refl|]. intros [].
  - destruct (step_ok s o G) as (s1 & t & E & G1 & K1).
    destruct (IH s1 G1) as (s' & F & G' & K' & NF).
    unfold final in *. cbn [mrun]. rewrite E. destruct (mrun s1 r) as [l f]. cbn [fst snd] in *.
    exists s'. split; [assumption|]. split; [assumption|]. split; [exact (same_kinds_trans _ _ _ K1 K')|].
    intros [H|H]; [discriminate|]. apply NF, H.
Qed.

(* ---------- the property, for every history ---------- *)
Lemma count_is_handles_l : forall ops s, final init ops = Some s ->
  forall o x, nth_error (objs s) o = Some x -> odead x = false -> cls_of (okind x) = Counted ->
    ocnt x = (held s o + oext x)%N /\ (0 < ocnt x)%N /\ (ocnt x < W)%N.
Proof.
  intros ops s F o x E D K. destruct (mrun_ok ops init Good_init) as (s' & F' & [I _] & _).
  rewrite F in F'. inversion F'; subst s'.
  pose proof (inv_obj s I o x E) as (_ & _ & C3). rewrite D, K in C3. rewrite held_H3. exact C3.
Qed.

Lemma unique_one_handle_l : forall ops s, final init ops = Some s ->
  forall o x, nth_error (objs s) o = Some x -> odead x = false -> cls_of (okind x) = Unique -> held s o = 1%N.
Proof.
  intros ops s F o x E D K. destruct (mrun_ok ops init Good_init) as (s' & F' & [I _] & _).
  rewrite F in F'. inversion F'; subst s'.
  pose proof (inv_obj s I o x E) as (_ & _ & C3). rewrite D, K in C3. rewrite held_H3. destruct C3 as [-> _]. reflexivity.
Qed.

Lemma never_faults_l : forall ops, exists s, final init ops = Some s /\ ~ In ObsFault (fst (mrun init ops)).
Proof.
  intros ops. destruct (mrun_ok ops init Good_init) as (s' & F' & _ & _ & NF). eauto.
Qed.

Lemma destroy_exactly_at_zero_l : forall ops s, final init ops = Some s ->
  (forall o x, nth_error (objs s) o = Some x -> is_static (okind x) = false ->
     (odead x = true <-> (held s o + oext x = 0)%N)) /\
  (forall o, In o (handles s) -> exists x, nth_error (objs s) o = Some x /\ odead x = false).
Proof.
  intros ops s F. destruct (mrun_ok ops init Good_init) as (s' & F' & [I _] & _).
  rewrite F in F'. inversion F'; subst s'. split.
  - intros o x E NS. pose proof (inv_obj s I o x E) as (_ & _ & C3). rewrite held_H3.
    destruct (odead x).
    + destruct C3 as (_ & Z & Ze & _). split; [intros _; lia|reflexivity].
    + split; [discriminate|]. intros Z. unfold is_static in NS.
      destruct (cls_of (okind x)); [destruct C3 as (Hc & H0 & _); lia|destruct C3 as [H1 _]; lia|discriminate].
  - intros o Hin. apply (inv_live s o I). rewrite <- cnt_pos_in in Hin.
    assert (E : N.of_nat (cnt (handles s) o) = N.of_nat (H3 s o)) by apply held_H3. lia.
Qed.

(* never later: an object no handle reaches is alive only while the environment holds a forced count on it *)
Lemma unreachable_is_forced_l : forall ops s, final init ops = Some s ->
  forall o x, nth_error (objs s) o = Some x -> odead x = false -> is_static (okind x) = false ->
    held s o = 0%N -> (0 < oext x)%N.
Proof.
  intros ops s F o x E D NS Z. destruct (mrun_ok ops init Good_init) as (s' & F' & [I _] & _).
  rewrite F in F'. inversion F'; subst s'.
  pose proof (inv_obj s I o x E) as (_ & _ & C3). rewrite D in C3. rewrite held_H3 in Z. unfold is_static in NS.
  destruct (cls_of (okind x)); [destruct C3 as (Hc & H0 & _); lia|destruct C3 as [H1 _]; lia|discriminate].
Qed.
