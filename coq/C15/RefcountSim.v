(* C15/RefcountSim.v — every operation of the mechanism model, run from a state that refines a state of the
   handle-multiset specification, produces the specification's output and a state that refines the
   specification's next state (forward simulation, operation by operation). *)
From MptV Require Import Base.Mem C15.RefcountModel C15.RefcountSpec C15.RefcountCounter C15.RefcountInv
  C15.RefcountSteps C15.RefcountOps C15.RefcountRun C15.RefcountRel C15.RefcountFrame.
Local Open Scope nat_scope.

Ltac inv_ok H := inversion H; subst; clear H.
Ltac red_let H := cbn beta iota zeta in H.

Lemma Refines_good s ss : Refines s ss -> Good s. Proof. intros H; apply H. Qed.
Lemma Refines_hs s ss : Refines s ss -> shs ss = hs s. Proof. intros H; apply H. Qed.
Lemma Refines_len s ss : Refines s ss -> length (shs ss) = NSLOT.
Proof. intros ((I & _) & HS & _). rewrite HS. apply I. Qed.

(* ---------- unref of what a slot holds: OUnref, ORefFini, XDrop ---------- *)
Lemma p_unref_fr s i s' t : p_unref s i = Ok (s', t) -> fr s s'.
Proof.
  unfold p_unref, m_take. red_let ltac:(idtac).
Abort.
