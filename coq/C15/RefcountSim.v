(* C15/RefcountSim.v — every operation of the mechanism model, run from a state that refines a state of the
   handle-multiset specification, produces the specification's output and a state that refines the
   specification's next state (forward simulation, operation by operation). *)
From MptV Require Import Base.Mem C15.RefcountModel C15.RefcountSpec C15.RefcountCounter C15.RefcountInv
  C15.RefcountSteps C15.RefcountOps C15.RefcountRun C15.RefcountRel C15.RefcountFrame.
Local Open Scope nat_scope.

Ltac inv_ok H := first [injection H as <- <- | injection H as <-].

Lemma Refines_good s ss : Refines s ss -> Good s. Proof. intros H; apply H. Qed.
Lemma Refines_hs s ss : Refines s ss -> shs ss = hs s. Proof. intros H; apply H. Qed.
Lemma Refines_len s ss : Refines s ss -> length (shs ss) = NSLOT.
Proof. intros ((I & _) & HS & _). rewrite HS. apply I. Qed.

Lemma Refines_sput s s' ss d v : Refines s ss -> Good s' -> fr s s' -> hs s' = set_nth d v (hs s) ->
  Refines s' (sput ss d v).
Proof.
  intros RF G' F H. apply (Refines_frame s s' ss _ RF G' F). rewrite (Refines_hs s ss RF). exact H.
Qed.

(* ---------- unref of what a slot holds: OUnref, ORefFini, XDrop ---------- *)
Lemma p_unref_fr s i s' t : p_unref s i = Ok (s', t) -> fr s s'.
Proof.
  unfold p_unref, m_take. cbn beta iota zeta.
  destruct (unref_opt _ _) as [s2| |] eqn:U; cbn [bind]; try discriminate.
  intros X; inv_ok X. apply unref_opt_fr in U. destruct U as [F _]. exact F.
Qed.

Lemma sim_unref s ss i : Refines s ss -> exists s', p_unref s i = Ok (s', OD) /\ Refines s' (sput ss i None).
Proof.
  intros RF. destruct (p_unref_ok s i (Refines_good _ _ RF)) as (s' & E & G' & _ & H').
  exists s'. split; [exact E|]. apply (Refines_sput s s' ss i None RF G' (p_unref_fr _ _ _ _ E) H').
Qed.

(* ---------- addref through the vtable, store on success: OAddref, ODefer ---------- *)
Lemma sim_addref s ss o d si : Refines s ss -> slot s si = Some o -> slot s d = None -> d < NSLOT ->
  exists s' r, p_addref s o d = Ok (s', r) /\
    Refines s' (if shareable ss o then sput ss d (Some o) else ss) /\
    (r =? 0)%N = negb (shareable ss o) /\
    (shareable ss o = true ->
     r = match skind_at ss o with Some k => if is_static k then 1%N else (stotal ss o + 1)%N | None => 0%N end).
Proof.
  intros RF S Hs Hd. pose proof (Refines_good _ _ RF) as G.
  destruct (p_addref_ok s o d si G S Hs Hd) as (s' & r & E & G' & _).
  exists s', r. split; [exact E|]. unfold p_addref in E.
  destruct (m_addref s o) as [[s1 r1]| |] eqn:A; cbn [bind] in E; try discriminate.
  destruct (m_addref_fr s o s1 r1 A) as [F1 H1].
  destruct (m_addref_res s ss o s1 r1 RF (H3_slot s si o S) A) as [Q1 Q2].
  destruct (r1 =? 0)%N eqn:Z; inv_ok E.
  - destruct (shareable ss o); [discriminate|]. split; [|split; [assumption|discriminate]].
    apply (Refines_same s _ ss RF G' F1 H1).
  - destruct (shareable ss o); [|discriminate]. split; [|split; [assumption|exact Q2]].
    apply (Refines_sput s _ ss d (Some o) RF G' F1). cbn [m_put hs]. rewrite H1. reflexivity.
Qed.

(* ---------- share what slot si holds into slot d, releasing what d held: the assignments ---------- *)
(* retain the source, then replace the target *)
Lemma replace_fr s1 d v s' : (let '(s2, old) := m_take s1 d in do s3 <- unref_opt s2 old; Ok (m_put s3 d v)) = Ok s' ->
  fr s1 s' /\ hs s' = set_nth d v (hs s1).
Proof.
  unfold m_take. cbn beta iota zeta.
  destruct (unref_opt _ _) as [s3| |] eqn:U; cbn [bind]; try discriminate.
  intros X; inv_ok X. apply unref_opt_fr in U. destruct U as [F H]. split; [exact F|].
  cbn [m_put hs]. rewrite H. cbn [hs]. apply set_nth_twice.
Qed.

Lemma sim_conv s ss si d : Refines s ss -> d < NSLOT ->
  exists s' t, p_conv s si d = Ok (s', t) /\ Refines s' (fst (s_share ss si d)) /\
    t = (if snd (s_share ss si d) then OD else OE).
Proof.
  intros RF Hd. pose proof (Refines_good _ _ RF) as G.
  destruct (p_conv_ok s si d G Hd) as (s' & t & E & G' & _). exists s', t. split; [exact E|].
  unfold p_conv in E. destruct (retain s (slot s si)) as [[s1 ok]| |] eqn:R; cbn [bind] in E; try discriminate.
  destruct (retain_fr _ _ _ _ R) as [F1 H1].
  pose proof (retain_res s ss _ _ _ RF (fun o Ho => H3_slot s si o Ho) R) as Q. rewrite <- (sslot_ref s ss RF) in Q.
  unfold s_share. rewrite <- Q. destruct ok; cbn [negb fst snd] in *.
  - destruct (m_take s1 d) as [s2 old] eqn:T. destruct (unref_opt s2 old) as [s3| |] eqn:U; cbn [bind] in E; try discriminate.
    inv_ok E. split; [|reflexivity].
    destruct (replace_fr s1 d (slot s si) (m_put s3 d (slot s si))) as [F2 H2]; [rewrite T, U; reflexivity|].
    rewrite (sslot_ref s ss RF). apply (Refines_sput s _ ss d _ RF G' (fr_trans _ _ _ F1 F2)). congruence.
  - inv_ok E. split; [|reflexivity]. apply (Refines_same s _ ss RF G' F1 H1).
Qed.

(* traits init: the target is empty *)
Lemma sim_refinit s ss si d : Refines s ss -> slot s d = None -> d < NSLOT ->
  exists s' t, p_refinit s si d = Ok (s', t) /\ Refines s' (fst (s_share ss si d)) /\
    t = (if snd (s_share ss si d) then ORet (if is_none (sslot ss si) then 0 else 1) else OE).
Proof.
  intros RF Hs Hd. pose proof (Refines_good _ _ RF) as G.
  destruct (p_refinit_ok s si d G Hs Hd) as (s' & t & E & G' & _). exists s', t. split; [exact E|].
  unfold p_refinit in E. unfold s_share. rewrite (sslot_ref s ss RF).
  destruct (slot s si) as [o|] eqn:S; cbn [shareable_opt is_none].
  - destruct (m_addref s o) as [[s1 r1]| |] eqn:A; cbn [bind] in E; try discriminate.
    destruct (m_addref_fr s o s1 r1 A) as [F1 H1].
    destruct (m_addref_res s ss o s1 r1 RF (H3_slot s si o S) A) as [Q1 _].
    destruct (r1 =? 0)%N eqn:Z; inv_ok E; destruct (shareable ss o); try discriminate; cbn [fst snd]; (split; [|reflexivity]).
    + apply (Refines_same s _ ss RF G' F1 H1).
    + apply (Refines_sput s _ ss d (Some o) RF G' F1). cbn [m_put hs]. rewrite H1. reflexivity.
  - inv_ok E. cbn [fst snd]. split; [|reflexivity].
    apply (Refines_sput s _ ss d None RF G' (fr_refl _)). symmetry. apply set_nth_id. exact Hs.
Qed.
