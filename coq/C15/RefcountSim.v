(* C15/RefcountSim.v — every operation of the mechanism model, run from a state that refines a state of the
   handle-multiset specification, produces the specification's output and a state that refines the
   specification's next state (forward simulation, operation by operation). *)
From MptV Require Import Base.Mem C15.RefcountModel C15.RefcountSpec C15.RefcountCounter C15.RefcountInv
  C15.RefcountSteps C15.RefcountFr C15.RefcountOps C15.RefcountRun C15.RefcountRel C15.RefcountFrame.
Local Open Scope nat_scope.

Ltac inv_ok H := first [injection H as <- <- | injection H as <-].

Lemma Refines_good s ss : Refines s ss -> Good s. Proof. intros H; apply H. Qed.
Lemma Refines_hs s ss : Refines s ss -> shs ss = hs s. Proof. intros H; apply H. Qed.
Lemma Refines_len s ss : Refines s ss -> length (shs ss) = NSLOT.
Proof. intros ((I & _) & HS & _). rewrite HS. apply I. Qed.

Lemma Refines_sput s s' ss d v : Refines s ss -> Good s' -> fr s s' -> hs s' = set_nth d v (hs s) ->
  Refines s' (sput ss d v).
Proof.
  intros RF G' F H. apply (Refines_frame s s' ss _ RF G' F). rewrite (Refines_hs s ss RF). exact H.
Qed.

(* ---------- unref of what a slot holds: OUnref, ORefFini, XDrop ---------- *)
Lemma p_unref_fr s i s' t : p_unref s i = Ok (s', t) -> fr s s'.
Proof.
  unfold p_unref, m_take. cbn beta iota zeta.
  destruct (unref_opt _ _) as [s2| |] eqn:U; cbn [bind]; try discriminate.
  intros X; inv_ok X. apply unref_opt_fr in U. destruct U as [F _]. exact F.
Qed.

Lemma sim_unref s ss i : Refines s ss -> exists s', p_unref s i = Ok (s', OD) /\ Refines s' (sput ss i None).
Proof.
  intros RF. destruct (p_unref_ok s i (Refines_good _ _ RF)) as (s' & E & G' & _ & H').
  exists s'. split; [exact E|]. apply (Refines_sput s s' ss i None RF G' (p_unref_fr _ _ _ _ E) H').
Qed.

(* ---------- addref through the vtable, store on success: OAddref, ODefer ---------- *)
Lemma sim_addref s ss o d si : Refines s ss -> slot s si = Some o -> slot s d = None -> d < NSLOT ->
  exists s' r, p_addref s o d = Ok (s', r) /\
    Refines s' (if shareable ss o then sput ss d (Some o) else ss) /\
    (r =? 0)%N = negb (shareable ss o) /\
    (shareable ss o = true ->
     r = match skind_at ss o with Some k => if is_static k then 1%N else (stotal ss o + 1)%N | None => 0%N end).
Proof.
  intros RF S Hs Hd. pose proof (Refines_good _ _ RF) as G.
  destruct (p_addref_ok s o d si G S Hs Hd) as (s' & r & E & G' & _).
  exists s', r. split; [exact E|]. unfold p_addref in E.
  destruct (m_addref s o) as [[s1 r1]| |] eqn:A; cbn [bind] in E; try discriminate.
  destruct (m_addref_fr s o s1 r1 A) as [F1 H1].
  destruct (m_addref_res s ss o s1 r1 RF (H3_slot s si o S) A) as [Q1 Q2].
  destruct (r1 =? 0)%N eqn:Z; inv_ok E.
  - destruct (shareable ss o); [discriminate|]. split; [|split; [assumption|discriminate]].
    apply (Refines_same s _ ss RF G' F1 H1).
  - destruct (shareable ss o); [|discriminate]. split; [|split; [assumption|exact Q2]].
    apply (Refines_sput s _ ss d (Some o) RF G' F1). cbn [m_put hs]. rewrite H1. reflexivity.
Qed.

(* ---------- share what slot si holds into slot d, releasing what d held: the assignments ---------- *)
(* retain the source, then replace the target *)
Lemma replace_fr s1 d v s' : (let '(s2, old) := m_take s1 d in do s3 <- unref_opt s2 old; Ok (m_put s3 d v)) = Ok s' ->
  fr s1 s' /\ hs s' = set_nth d v (hs s1).
Proof.
  unfold m_take. cbn beta iota zeta.
  destruct (unref_opt _ _) as [s3| |] eqn:U; cbn [bind]; try discriminate.
  intros X; inv_ok X. apply unref_opt_fr in U. destruct U as [F H]. split; [exact F|].
  cbn [m_put hs]. rewrite H. cbn [hs]. apply set_nth_twice.
Qed.

Lemma sim_conv s ss si d : Refines s ss -> d < NSLOT ->
  exists s' t, p_conv s si d = Ok (s', t) /\ Refines s' (fst (s_share ss si d)) /\
    t = (if snd (s_share ss si d) then OD else OE).
Proof.
  intros RF Hd. pose proof (Refines_good _ _ RF) as G.
  destruct (p_conv_ok s si d G Hd) as (s' & t & E & G' & _). exists s', t. split; [exact E|].
  unfold p_conv in E. destruct (retain s (slot s si)) as [[s1 ok]| |] eqn:R; cbn [bind] in E; try discriminate.
  destruct (retain_fr _ _ _ _ R) as [F1 H1].
  pose proof (retain_res s ss _ _ _ RF (fun o Ho => H3_slot s si o Ho) R) as Q. rewrite <- (sslot_ref s ss RF) in Q.
  unfold s_share. rewrite <- Q. destruct ok; cbn [negb fst snd] in *.
  - destruct (m_take s1 d) as [s2 old] eqn:T. destruct (unref_opt s2 old) as [s3| |] eqn:U; cbn [bind] in E; try discriminate.
    inv_ok E. split; [|reflexivity].
    destruct (replace_fr s1 d (slot s si) (m_put s3 d (slot s si))) as [F2 H2]; [rewrite T, U; reflexivity|].
    rewrite (sslot_ref s ss RF). apply (Refines_sput s _ ss d _ RF G' (fr_trans _ _ _ F1 F2)). congruence.
  - inv_ok E. split; [|reflexivity]. apply (Refines_same s _ ss RF G' F1 H1).
Qed.

(* traits init: the target is empty *)
Lemma sim_refinit s ss si d : Refines s ss -> slot s d = None -> d < NSLOT ->
  exists s' t, p_refinit s si d = Ok (s', t) /\ Refines s' (fst (s_share ss si d)) /\
    t = (if snd (s_share ss si d) then ORet (if is_none (sslot ss si) then 0 else 1) else OE).
Proof.
  intros RF Hs Hd. pose proof (Refines_good _ _ RF) as G.
  destruct (p_refinit_ok s si d G Hs Hd) as (s' & t & E & G' & _). exists s', t. split; [exact E|].
  unfold p_refinit in E. unfold s_share. rewrite (sslot_ref s ss RF).
  destruct (slot s si) as [o|] eqn:S; cbn [shareable_opt is_none].
  - destruct (m_addref s o) as [[s1 r1]| |] eqn:A; cbn [bind] in E; try discriminate.
    destruct (m_addref_fr s o s1 r1 A) as [F1 H1].
    destruct (m_addref_res s ss o s1 r1 RF (H3_slot s si o S) A) as [Q1 _].
    destruct (r1 =? 0)%N eqn:Z; inv_ok E; destruct (shareable ss o); try discriminate; cbn [fst snd]; (split; [|reflexivity]).
    + apply (Refines_same s _ ss RF G' F1 H1).
    + apply (Refines_sput s _ ss d (Some o) RF G' F1). cbn [m_put hs]. rewrite H1. reflexivity.
  - inv_ok E. cbn [fst snd]. split; [|reflexivity].
    apply (Refines_sput s _ ss d None RF G' (fr_refl _)). symmetry. apply set_nth_id. exact Hs.
Qed.

(* ---------- element-wise copy of the reference array with undo: all or nothing ---------- *)
Lemma s_share_refused ss si d : snd (s_share ss si d) = false -> fst (s_share ss si d) = ss.
Proof. unfold s_share. destruct (shareable_opt ss (sslot ss si)); [discriminate|reflexivity]. Qed.
Lemma s_share_done ss si d : snd (s_share ss si d) = true -> fst (s_share ss si d) = sput ss d (sslot ss si).
Proof. unfold s_share. destruct (shareable_opt ss (sslot ss si)); [reflexivity|discriminate]. Qed.

Lemma sput_undo ss d v : sslot ss d = None -> sput (sput ss d v) d None = ss.
Proof.
  intros H. destruct ss as [so sh]. unfold sput, sslot in *. cbn [sobjs shs] in *. f_equal.
  rewrite set_nth_twice. apply set_nth_id, H.
Qed.

Lemma slot_ref_other s ss d v i : Refines s (sput ss d v) -> length (shs ss) = NSLOT -> d < NSLOT -> i <> d -> slot s i = sslot ss i.
Proof.
  intros RF L Hd Hi. rewrite <- (sslot_ref s _ RF), sslot_sput by lia.
  destruct (Nat.eqb_spec d i); [congruence|reflexivity].
Qed.

Lemma sim_refcopy s ss : Refines s ss -> slot s 3 = None -> slot s 4 = None -> slot s 5 = None ->
  let r1 := s_share ss 0 3 in let r2 := s_share (fst r1) 1 4 in let r3 := s_share (fst r2) 2 5 in
  exists s' t, p_refcopy s = Ok (s', t) /\
    Refines s' (if snd r1 && snd r2 && snd r3 then fst r3 else ss) /\
    t = (if snd r1 && snd r2 && snd r3 then OD else OE).
Proof.
  intros RF S3 S4 S5 r1 r2 r3. unfold p_refcopy, p_reffini.
  assert (B3 : 3 < NSLOT) by (unfold NSLOT; lia). assert (B4 : 4 < NSLOT) by (unfold NSLOT; lia).
  assert (B5 : 5 < NSLOT) by (unfold NSLOT; lia).
  pose proof (Refines_len s ss RF) as L.
  assert (Z3 : sslot ss 3 = None) by (rewrite (sslot_ref s ss RF); assumption).
  assert (Z4 : sslot ss 4 = None) by (rewrite (sslot_ref s ss RF); assumption).
  destruct (sim_refinit s ss 0 3 RF S3 B3) as (s1 & t1 & E1 & RF1 & T1). fold r1 in RF1, T1. rewrite E1. cbn [bind].
  destruct (snd r1) eqn:O1; cbn [andb].
  2:{ rewrite T1. cbn [is_ret negb]. eexists _, _. split; [reflexivity|]. split; [|reflexivity].
      unfold r1 in *. rewrite (s_share_refused _ _ _ O1) in RF1. exact RF1. }
  assert (I1 : is_ret t1 = true) by (rewrite T1; reflexivity). rewrite I1. cbn [negb].
  pose proof (s_share_done ss 0 3 O1) as D1. fold r1 in D1. rewrite D1 in RF1.
  assert (S4' : slot s1 4 = None) by (rewrite (slot_ref_other s1 ss 3 _ 4 RF1 L B3) by lia; exact Z4).
  assert (S5' : slot s1 5 = None) by (rewrite (slot_ref_other s1 ss 3 _ 5 RF1 L B3), (sslot_ref s ss RF) by lia; exact S5).
  rewrite <- D1 in RF1.
  destruct (sim_refinit s1 (fst r1) 1 4 RF1 S4' B4) as (s2 & t2 & E2 & RF2 & T2). fold r2 in RF2, T2. rewrite E2. cbn [bind].
  assert (Z4' : sslot (fst r1) 4 = None) by (rewrite (sslot_ref s1 _ RF1); assumption).
  destruct (snd r2) eqn:O2; cbn [andb].
  2:{ rewrite T2. cbn [is_ret negb]. unfold r2 in RF2. rewrite (s_share_refused _ _ _ O2) in RF2.
      destruct (sim_unref s2 (fst r1) 3 RF2) as (s3 & E3 & RF3). rewrite E3. cbn [bind].
      eexists _, _. split; [reflexivity|]. split; [|reflexivity].
      rewrite D1, sput_undo in RF3 by assumption. exact RF3. }
  assert (I2 : is_ret t2 = true) by (rewrite T2; reflexivity). rewrite I2. cbn [negb].
  pose proof (s_share_done (fst r1) 1 4 O2) as D2. fold r2 in D2. rewrite D2 in RF2.
  pose proof (Refines_len s1 _ RF1) as L1.
  assert (S5'' : slot s2 5 = None) by (rewrite (slot_ref_other s2 (fst r1) 4 _ 5 RF2 L1 B4), (sslot_ref s1 _ RF1) by lia; exact S5').
  rewrite <- D2 in RF2.
  destruct (sim_refinit s2 (fst r2) 2 5 RF2 S5'' B5) as (s3 & t3 & E3 & RF3 & T3). fold r3 in RF3, T3. rewrite E3. cbn [bind].
  destruct (snd r3) eqn:O3.
  - assert (I3 : is_ret t3 = true) by (rewrite T3; reflexivity). rewrite I3. cbn [negb].
    eexists _, _. split; [reflexivity|]. split; [exact RF3|reflexivity].
  - rewrite T3. cbn [is_ret negb]. unfold r3 in RF3. rewrite (s_share_refused _ _ _ O3) in RF3.
    destruct (sim_unref s3 (fst r2) 4 RF3) as (s4 & E4 & RF4). rewrite E4. cbn [bind].
    rewrite D2, sput_undo in RF4 by assumption.
    destruct (sim_unref s4 (fst r1) 3 RF4) as (s5 & E5 & RF5). rewrite E5. cbn [bind].
    rewrite D1, sput_undo in RF5 by assumption.
    eexists _, _. split; [reflexivity|]. split; [exact RF5|reflexivity].
Qed.

(* ---------- array clone / clear ---------- *)
Lemma tmismatch_ref s ss a b : Sk s ss -> tmismatch (skind_at ss) a b = tmismatch (kind_at s) a b.
Proof. intros K. unfold tmismatch. destruct a, b; try reflexivity. rewrite !(kind_at_ref s ss _ K). reflexivity. Qed.

Lemma sim_arrclone s ss si d : Refines s ss -> d < NSLOT ->
  exists s' t, p_arrclone s si d = Ok (s', t) /\ Refines s' (fst (sexec ss (OArrClone si d))) /\
    t = snd (sexec ss (OArrClone si d)).
Proof.
  intros RF Hd. pose proof (Refines_good _ _ RF) as G.
  destruct (p_arrclone_ok s si d G Hd) as (s' & t & E & G' & _). exists s', t. split; [exact E|].
  unfold p_arrclone in E. cbn [sexec]. rewrite !(sslot_ref s ss RF).
  destruct (eq_opt (slot s si) (slot s d)) eqn:Q.
  { inv_ok E. cbn [fst snd]. split; [exact RF|reflexivity]. }
  rewrite (tmismatch_ref s ss _ _ (proj2 (proj2 RF))). destruct (tmismatch (kind_at s) (slot s si) (slot s d)).
  { inv_ok E. cbn [fst snd]. split; [exact RF|reflexivity]. }
  destruct (retain s (slot s si)) as [[s1 ok]| |] eqn:R; cbn [bind] in E; try discriminate.
  destruct (retain_fr _ _ _ _ R) as [F1 H1].
  pose proof (retain_res s ss _ _ _ RF (fun o Ho => H3_slot s si o Ho) R) as Q1. rewrite <- (sslot_ref s ss RF) in Q1.
  unfold s_share. rewrite <- Q1. destruct ok; cbn [negb fst snd] in *.
  2:{ inv_ok E. split; [|reflexivity]. apply (Refines_same s _ ss RF G' F1 H1). }
  unfold m_take in E. cbn beta iota zeta in E. rewrite (slot_hs s s1 d H1) in E.
  rewrite (sslot_ref s ss RF).
  assert (HH : forall s4, fr (m_put (mkst (objs s1) (set_nth d None (hs s1)) (o2l (slot s d) ++ pend s1) (elog s1)) d (slot s si)) s4 ->
           hs s4 = hs (m_put (mkst (objs s1) (set_nth d None (hs s1)) (o2l (slot s d) ++ pend s1) (elog s1)) d (slot s si)) ->
           Good s4 -> Refines s4 (sput ss d (slot s si))).
  { intros s4 F4 H4 G4. apply (Refines_sput s s4 ss d _ RF G4).
    - apply (fr_trans _ _ _ F1). exact F4.
    - rewrite H4. cbn [m_put hs]. rewrite H1. apply set_nth_twice. }
  destruct (slot s d) as [a|] eqn:Sd.
  - destruct (m_unref _ a) as [s4| |] eqn:U; cbn [bind] in E; try discriminate. inv_ok E.
    destruct (m_unref_fr _ _ _ U) as [F4 H4]. split; [apply HH; assumption|].
    destruct (slot s si); reflexivity.
  - inv_ok E. split; [apply HH; [apply fr_refl|reflexivity|assumption]|]. destruct (slot s si); reflexivity.
Qed.

Lemma sim_arrclear s ss d : Refines s ss ->
  exists s' t, p_arrclear s d = Ok (s', t) /\ Refines s' (sput ss d None) /\
    t = ORet (if is_none (sslot ss d) then 0 else 2).
Proof.
  intros RF. pose proof (Refines_good _ _ RF) as G.
  destruct (p_arrclear_ok s d G) as (s' & t & E & G' & _). exists s', t. split; [exact E|].
  unfold p_arrclear, m_take in E. cbn beta iota zeta in E. rewrite (sslot_ref s ss RF).
  destruct (slot s d) as [a|] eqn:Sd; cbn [is_none].
  - destruct (m_unref _ a) as [s4| |] eqn:U; cbn [bind] in E; try discriminate. inv_ok E.
    destruct (m_unref_fr _ _ _ U) as [F4 H4]. split; [|reflexivity].
    apply (Refines_sput s _ ss d None RF G' F4). rewrite H4. reflexivity.
  - inv_ok E. split; [|reflexivity]. apply (Refines_sput s _ ss d None RF G' (fr_refl _)). reflexivity.
Qed.

(* ---------- creation ---------- *)
Lemma find_ref p : forall l l' i, Forall2 orel l l' -> find_kind p l i = sfind p l' i.
Proof.
  intros l l' i F. revert i. induction F as [|x y l l' (Ky & _) F IH]; intros i; [reflexivity|].
  cbn [find_kind sfind]. rewrite Ky. destruct (p (okind x)); [reflexivity|apply IH].
Qed.

Lemma Sk_new s1 s2 ss k c inner h :
  Sk s1 ss -> objs s2 = objs s1 ++ [mkobj k c 0%N false inner] ->
  Sk s2 (mksst (sobjs ss ++ [mksobj k 0%N inner]) h).
Proof.
  intros K E. unfold Sk. rewrite E. cbn [sobjs]. apply Forall2_app; [exact K|]. constructor; [|constructor].
  unfold orel. cbn. auto.
Qed.

Lemma sim_new s ss k d : Refines s ss -> slot s d = None -> d < NSLOT ->
  exists s', p_new s k d = Ok (s', OD) /\ Refines s' (fst (sexec ss (ONew k d))).
Proof.
  intros RF Hs Hd. pose proof (Refines_good _ _ RF) as G. pose proof RF as (_ & HS & K).
  destruct (p_new_ok s k d G Hs Hd) as (s' & E & G' & _). exists s'. split; [exact E|].
  unfold p_new in E. cbn [sexec]. rewrite <- (find_ref is_static (objs s) (sobjs ss) 0 K).
  destruct (if is_static k then find_kind is_static (objs s) 0 else None) as [id|].
  - inv_ok E. cbn [fst]. apply (Refines_sput s _ ss d (Some id) RF G' (fr_refl _)). reflexivity.
  - unfold m_new in E. cbn beta iota zeta in E. inv_ok E. unfold snew. cbn [fst sput sobjs shs].
    split; [assumption|]. split; [cbn [m_put hs shs]; rewrite HS, (Sk_len s ss K); reflexivity|].
    eapply Sk_new; [exact K|reflexivity].
Qed.

(* mpt_meta_buffer: retain the source buffer (when it can be shared), create the owner *)
Lemma sim_metabuf s ss src d : Refines s ss -> slot s d = None -> d < NSLOT ->
  (forall b, src = Some b -> 0 < H3 s b /\ exists y, nth_error (objs s) b = Some y /\ is_buf (okind y) = true) ->
  exists s1 id, mk_metabuf s src = Ok (s1, id) /\ Refines (m_put s1 d (Some id)) (s_metabuf ss src d).
Proof.
  intros RF Hs Hd Hsrc. pose proof (Refines_good _ _ RF) as G. pose proof RF as (_ & HS & K).
  destruct (mk_metabuf_ok s src d G Hs Hd Hsrc) as (s1 & id & E & G' & _). exists s1, id. split; [exact E|].
  unfold mk_metabuf in E. destruct (retain s src) as [[s0 ok]| |] eqn:R; cbn [bind] in E; try discriminate.
  destruct (retain_fr _ _ _ _ R) as [F1 H1].
  pose proof (retain_res s ss _ _ _ RF (fun o Ho => proj1 (Hsrc o Ho)) R) as Q1.
  unfold m_new in E. inv_ok E. unfold s_metabuf, snew. rewrite <- Q1. cbn [sput sobjs shs].
  split; [assumption|]. destruct F1 as [L1 F1'].
  split; [cbn [m_put hs shs]; rewrite H1, HS, L1, (Sk_len s ss K); reflexivity|].
  eapply Sk_new; [apply (Sk_fr s s0 ss K (conj L1 F1'))|reflexivity].
Qed.

Lemma sim_clone s ss o d si : Refines s ss -> slot s si = Some o -> slot s d = None -> d < NSLOT ->
  exists s' t, p_clone s o d = Ok (s', t) /\ Refines s' (fst (sexec ss (OClone si d))) /\ t = snd (sexec ss (OClone si d)).
Proof.
  intros RF S Hs Hd. pose proof (Refines_good _ _ RF) as G. pose proof RF as ((I & P) & HS & K).
  cbn [sexec]. rewrite (sslot_ref s ss RF), S.
  destruct (inv_live s o I (H3_slot s si o S)) as (x & E & D).
  destruct (Sk_l s ss o x K E) as (y & Ey & Ky & _ & _ & Iy). rewrite Ey, Ky.
  unfold p_clone. rewrite (live_ok s o x E D). cbn [bind].
  assert (N : forall k, exists s' t, (let '(s1, id) := m_new s k None in Ok (m_put s1 d (Some id), OD)) = Ok (s', t) /\
             Refines s' (fst (let '(s1, id) := snew ss k None in (sput s1 d (Some id), OD))) /\
             t = snd (let '(s1, id) := snew ss k None in (sput s1 d (Some id), OD))).
  { intros k. destruct (new_put_ok s k None d I P Hs Hd) as (G1 & _ & _); [discriminate|].
    unfold m_new in *. cbn beta iota zeta in *. eexists _, _. split; [reflexivity|]. split; [|reflexivity].
    unfold snew. cbn [fst sput sobjs shs].
    split; [assumption|]. split; [cbn [m_put hs shs]; rewrite HS, (Sk_len s ss K); reflexivity|].
    eapply Sk_new; [exact K|reflexivity]. }
  assert (Z : exists s' t, Ok (s, OE) = Ok (s', t) /\ Refines s' (fst (ss, OE)) /\ t = snd (ss, OE)).
  { eexists _, _. split; [reflexivity|]. split; [exact RF|reflexivity]. }
  destruct (okind x) eqn:Kx; try exact Z; try apply N.
  pose proof (inv_obj s I o x E) as (_ & C2 & _). rewrite (Iy D).
  destruct (sim_metabuf s ss (oinner x) d RF Hs Hd) as (s1 & id & E1 & RF1).
  { intros b Hb. split; [apply (H3_inner s o x b E Hb)|apply C2, Hb]. }
  rewrite E1. cbn [bind]. eexists _, _. split; [reflexivity|]. split; [exact RF1|reflexivity].
Qed.

(* ---------- detach ---------- *)
Lemma sim_detach s ss a o : Refines s ss -> slot s a = Some o -> a < NSLOT ->
  kind_is (kind_at s) (slot s a) is_libbuf = true ->
  exists s' t, p_detach s a o = Ok (s', t) /\ Refines s' (fst (sexec ss (ODetach a))) /\ t = snd (sexec ss (ODetach a)).
Proof.
  intros RF S Ha Hk. pose proof (Refines_good _ _ RF) as G. pose proof RF as ((I & P) & HS & K).
  destruct (p_detach_ok s a o G S Ha) as (s' & t & E & G' & _). exists s', t. split; [exact E|].
  cbn [sexec]. rewrite (sslot_ref s ss RF), S.
  destruct (inv_live s o I (H3_slot s a o S)) as (x & Ex & D).
  destruct (kind_is_spec s _ _ Hk) as (o0 & x0 & S0 & E0 & B0). rewrite S in S0. injection S0 as <-.
  rewrite Ex in E0. injection E0 as <-.
  assert (Kc : cls_of (okind x) = Counted) by (destruct (okind x); try discriminate; reflexivity).
  destruct (stotal_cnt s ss RF o x Ex D Kc) as (-> & _).
  unfold p_detach in E. rewrite (live_ok s o x Ex D) in E. cbn [bind] in E.
  destruct (ocnt x <? 2)%N.
  { inv_ok E. split; [exact RF|reflexivity]. }
  unfold m_new, m_take in E. cbn beta iota zeta in E.
  destruct (m_unref _ o) as [s3| |] eqn:U; cbn [bind] in E; try discriminate. inv_ok E.
  destruct (m_unref_fr _ _ _ U) as [F3 H3']. unfold snew. cbn [fst snd sput sobjs shs]. split; [|reflexivity].
  split; [assumption|]. split; [unfold sput; cbn [m_put hs shs sobjs]; rewrite H3'; cbn [hs]; rewrite HS, (Sk_len s ss K); symmetry; apply set_nth_twice|].
  eapply Sk_fr; [|exact F3]. eapply Sk_new; [exact K|reflexivity].
Qed.

Lemma sim_detachf s ss a o : Refines s ss -> slot s a = Some o ->
  kind_is (kind_at s) (slot s a) is_libbuf = true ->
  exists s' t, p_detachf s o = Ok (s', t) /\ Refines s' ss /\ t = snd (sexec ss (ODetachF a)).
Proof.
  intros RF S Hk. pose proof (Refines_good _ _ RF) as G. pose proof RF as ((I & P) & HS & K).
  destruct (p_detachf_ok s a o G S Hk) as (s' & t & E & G' & _). exists s', t. split; [exact E|].
  cbn [sexec]. rewrite (sslot_ref s ss RF), S.
  destruct (inv_live s o I (H3_slot s a o S)) as (x & Ex & D).
  destruct (kind_is_spec s _ _ Hk) as (o0 & x0 & S0 & E0 & B0). rewrite S in S0. injection S0 as <-.
  rewrite Ex in E0. injection E0 as <-.
  assert (Kc : cls_of (okind x) = Counted) by (destruct (okind x); try discriminate; reflexivity).
  destruct (stotal_cnt s ss RF o x Ex D Kc) as (-> & _).
  unfold p_detachf in E. rewrite (live_ok s o x Ex D) in E. cbn [bind] in E.
  destruct (ocnt x <? 2)%N.
  { inv_ok E. split; [exact RF|reflexivity]. }
  destruct (lower (ocnt x)) as [c1 r]. destruct (r =? 0)%N; [discriminate|].
  destruct (raise c1) as [c2 r2]. inv_ok E. cbn [snd]. split; [|reflexivity].
  apply (Refines_same s _ ss RF G'); [|reflexivity].
  apply (fr_set s _ o x (with_cnt x c2) Ex (ofr_cnt x c2)). reflexivity.
Qed.

(* ---------- one object of the model and its record in the specification change together ---------- *)
Lemma Sk_upd s1 s3 ss o x' y' h : Sk s1 ss -> o < length (objs s1) ->
  objs s3 = set_nth o x' (objs s1) -> orel x' y' -> Sk s3 (mksst (set_nth o y' (sobjs ss)) h).
Proof.
  intros K Ho E O. unfold Sk. rewrite E. cbn [sobjs]. apply F2_of_nth.
  - rewrite !length_set_nth. apply (F2_length orel _ _ K).
  - intros o' x0 y0. rewrite !nth_error_set_nth. destruct (Nat.eqb_spec o o') as [<-|n].
    + destruct (nth_error (objs s1) o) as [x|] eqn:Ex; [|discriminate].
      destruct (Sk_l s1 ss o x K Ex) as (y & Ey & _). rewrite Ey. intros X Y. injection X as <-. injection Y as <-. exact O.
    + intros Ex Ey. destruct (Sk_l s1 ss o' x0 K Ex) as (y & Ey' & Oy). rewrite Ey in Ey'. injection Ey' as <-. exact Oy.
Qed.

(* ---------- the array member of a rawdata object ---------- *)
Lemma put_take_objs s1 o x1 v s3 : nth_error (objs s1) o = Some x1 -> odead x1 = false ->
  put_inner (take_inner s1 o x1) o v = Ok s3 -> objs s3 = set_nth o (with_inner x1 v) (objs s1) /\ hs s3 = hs s1.
Proof.
  intros E D. unfold put_inner, live, take_inner. cbn [objs hs pend elog].
  rewrite nth_error_set_nth, Nat.eqb_refl, E. cbn [with_inner odead]. rewrite D. cbn [bind].
  intros X. inv_ok X. cbn [objs hs]. split; [rewrite set_nth_twice; reflexivity|reflexivity].
Qed.

Lemma sim_setinner s ss m o a : Refines s ss -> slot s m = Some o ->
  kind_is (kind_at s) (slot s m) is_raw = true ->
  (is_none (slot s a) || kind_is (kind_at s) (slot s a) is_buf) = true ->
  exists s' t, p_setinner s o a = Ok (s', t) /\ Refines s' (fst (sexec ss (OSetInner m a))) /\
    t = snd (sexec ss (OSetInner m a)).
Proof.
  intros RF S Hk Ha. pose proof (Refines_good _ _ RF) as G. pose proof RF as ((I & P) & HS & K).
  destruct (p_setinner_ok s m o a G S Hk Ha) as (s' & t & E & G' & _). exists s', t. split; [exact E|].
  cbn [sexec]. rewrite !(sslot_ref s ss RF), S.
  destruct (inv_live s o I (H3_slot s m o S)) as (x & Ex & D).
  destruct (Sk_l s ss o x K Ex) as (y & Ey & Ky & Xy & Sy & Iy). rewrite Ey, (Iy D).
  unfold p_setinner in E. rewrite (live_ok s o x Ex D) in E. cbn [bind] in E.
  destruct (eq_opt (slot s a) (oinner x)).
  { inv_ok E. split; [exact RF|reflexivity]. }
  rewrite (tmismatch_ref s ss _ _ K). destruct (tmismatch (kind_at s) (slot s a) (oinner x)).
  { inv_ok E. split; [exact RF|reflexivity]. }
  destruct (retain s (slot s a)) as [[s1 ok]| |] eqn:R; cbn [bind] in E; try discriminate.
  destruct (retain_fr _ _ _ _ R) as [F1 H1].
  pose proof (retain_res s ss _ _ _ RF (fun b Hb => H3_slot s a b Hb) R) as Q1.
  rewrite <- Q1. destruct ok; cbn [negb fst snd] in *.
  2:{ inv_ok E. split; [|reflexivity]. apply (Refines_same s _ ss RF G' F1 H1). }
  destruct (live s1 o) as [x1| |] eqn:L1; cbn [bind] in E; try discriminate.
  destruct (live_inv s1 o x1 L1) as [E1 D1].
  destruct (put_inner (take_inner s1 o x1) o (slot s a)) as [s3| |] eqn:PI; cbn [bind] in E; try discriminate.
  destruct (put_take_objs s1 o x1 _ s3 E1 D1 PI) as [O3 H3'].
  destruct F1 as [L1' F1']. destruct (F1' o x Ex) as (x1' & E1' & K1 & X1 & _). rewrite E1 in E1'. injection E1' as <-.
  assert (K3 : Sk s3 (sset_inner ss o (slot s a))).
  { unfold sset_inner. rewrite Ey. apply (Sk_upd s1 s3 ss o (with_inner x1 (slot s a)) _ _ (Sk_fr s s1 ss K (conj L1' F1'))).
    - apply nth_error_Some. congruence.
    - exact O3.
    - unfold orel. cbn [skind sext sinner with_inner okind oext odead oinner]. rewrite K1, X1. auto. }
  assert (HS3 : shs (sset_inner ss o (slot s a)) = hs s3).
  { unfold sset_inner. rewrite Ey. cbn [shs]. congruence. }
  destruct (oinner x) as [b|].
  - destruct (m_unref s3 b) as [s4| |] eqn:U; cbn [bind] in E; try discriminate. inv_ok E.
    destruct (m_unref_fr _ _ _ U) as [F4 H4]. cbn [is_none]. split; [|destruct (slot s a); reflexivity].
    split; [assumption|]. split; [congruence|]. apply (Sk_fr s3 _ _ K3 F4).
  - inv_ok E. cbn [is_none]. split; [|destruct (slot s a); reflexivity].
    split; [assumption|]. split; assumption.
Qed.

(* ---------- counters written by the environment ---------- *)
Lemma sim_force s ss i o v : Refines s ss -> slot s i = Some o -> kind_is (kind_at s) (slot s i) is_counted = true ->
  (1 <=? v)%N = true -> (v <? W)%N = true -> (held s o <=? v)%N = true ->
  exists s' t, p_force s o v = Ok (s', t) /\ Refines s' (fst (sexec ss (OForce i v))) /\ t = snd (sexec ss (OForce i v)).
Proof.
  intros RF S Hk H1 Hw Hh. pose proof (Refines_good _ _ RF) as G. pose proof RF as ((I & P) & HS & K).
  destruct (p_force_ok s i o v G S Hk H1 Hw Hh) as (s' & t & E & G' & _). exists s', t. split; [exact E|].
  cbn [sexec]. rewrite (sslot_ref s ss RF), S.
  destruct (inv_live s o I (H3_slot s i o S)) as (x & Ex & D).
  destruct (Sk_l s ss o x K Ex) as (y & Ey & Ky & Xy & Sy & Iy). rewrite Ey.
  destruct (kind_is_spec s _ _ Hk) as (o0 & x0 & S0 & E0 & B0). rewrite S in S0. injection S0 as <-.
  rewrite Ex in E0. injection E0 as <-.
  unfold p_force in E. rewrite (live_ok s o x Ex D) in E. cbn [bind] in E. inv_ok E.
  cbn [fst snd]. split; [|reflexivity]. split; [assumption|]. split; [cbn [shs]; exact HS|].
  eapply (Sk_upd s); [exact K|apply nth_error_Some; congruence|reflexivity|].
  unfold orel. cbn [skind sext sinner okind oext odead oinner]. rewrite (held_ref s ss RF), D.
  split; [assumption|]. split; [reflexivity|]. split; [|intros _; apply Iy, D].
  unfold is_counted, is_static in *. destruct (cls_of (okind x)); discriminate.
Qed.

(* the harness gives every forced counter back *)
Definition ufr (s s' : st) : Prop :=
  length (objs s') = length (objs s) /\
  forall o x, nth_error (objs s) o = Some x -> exists x', nth_error (objs s') o = Some x' /\
    okind x' = okind x /\ (odead x' = false -> odead x = false /\ oinner x' = oinner x) /\
    (oext x' = oext x \/ (oext x' = 0%N /\ is_static (okind x) = false)).

Lemma ufr_refl s : ufr s s.
Proof. split; [reflexivity|]. intros o x E. exists x. auto. Qed.
Lemma ufr_trans s1 s2 s3 : ufr s1 s2 -> ufr s2 s3 -> ufr s1 s3.
Proof.
  intros [L1 F1] [L2 F2]. split; [congruence|]. intros o x E.
  destruct (F1 o x E) as (x' & E' & K1 & D1 & X1). destruct (F2 o x' E') as (x'' & E'' & K2 & D2 & X2).
  exists x''. split; [assumption|]. split; [congruence|]. split.
  - intros D. destruct (D2 D) as [Dy Iy]. destruct (D1 Dy) as [Dx Ix]. split; [assumption|congruence].
  - rewrite K1 in X2. destruct X2 as [X2|X2]; [|right; assumption]. destruct X1 as [X1|[X1 NS]]; [left; congruence|right].
    split; [congruence|assumption].
Qed.
Lemma fr_ufr s s' : fr s s' -> ufr s s'.
Proof.
  intros [L F]. split; [assumption|]. intros o x E. destruct (F o x E) as (x' & E' & K1 & X1 & D1). exists x'. auto.
Qed.
Lemma ufr_set s s' i x x' : nth_error (objs s) i = Some x -> objs s' = set_nth i x' (objs s) ->
  okind x' = okind x -> odead x = false -> oinner x' = oinner x -> oext x' = 0%N -> is_static (okind x) = false -> ufr s s'.
Proof.
  intros E Eo Kx D Ix X NS. split; [rewrite Eo; apply length_set_nth|]. intros o x0 E0. rewrite Eo, nth_error_set_nth.
  destruct (Nat.eqb_spec i o) as [<-|n].
  - rewrite E. exists x'. split; [reflexivity|]. rewrite E in E0. injection E0 as <-. auto.
  - exists x0. auto.
Qed.

Definition ext_done (s : st) (i : nat) : Prop := forall o x, o < i -> nth_error (objs s) o = Some x -> oext x = 0%N.

Lemma ext_done_ufr s s' i : ufr s s' -> ext_done s i -> ext_done s' i.
Proof.
  intros [L F] Dn o x' Ho E'. assert (Hl : o < length (objs s)) by (rewrite <- L; apply nth_error_Some; congruence).
  destruct (nth_error (objs s) o) as [x|] eqn:E; [|apply nth_error_None in E; lia].
  destruct (F o x E) as (x'' & E'' & _ & _ & X). rewrite E' in E''. injection E'' as <-.
  destruct X as [X|[X _]]; [rewrite X; apply (Dn o x Ho E)|exact X].
Qed.
Lemma static_ufr s s' : ufr s s' -> static_unforced s -> static_unforced s'.
Proof.
  intros [L F] SU o x' E' St. assert (Hl : o < length (objs s)) by (rewrite <- L; apply nth_error_Some; congruence).
  destruct (nth_error (objs s) o) as [x|] eqn:E; [|apply nth_error_None in E; lia].
  destruct (F o x E) as (x'' & E'' & Kx & _ & X). rewrite E' in E''. injection E'' as <-.
  destruct X as [X|[X _]]; [rewrite X; apply (SU o x E); congruence|exact X].
Qed.

Lemma unforce_sim n : forall i s, Good s -> static_unforced s -> ext_done s i -> length (objs s) <= i + n ->
  exists s', unforce s i n = Ok s' /\ Good s' /\ ufr s s' /\ hs s' = hs s /\ ext_done s' (length (objs s')).
Proof.
  induction n as [|n IH]; intros i s G SU Dn Ln.
  { exists s. split; [reflexivity|]. split; [assumption|]. split; [apply ufr_refl|]. split; [reflexivity|].
    intros o x Ho. apply Dn. lia. }
  pose proof G as [I P]. cbn [unforce].
  destruct (nth_error (objs s) i) as [x|] eqn:E.
  2:{ exists s. split; [reflexivity|]. split; [assumption|]. split; [apply ufr_refl|]. split; [reflexivity|].
      intros o x Ho. apply Dn. apply nth_error_None in E. lia. }
  pose proof (inv_obj s I i x E) as (C1 & C2 & C3).
  assert (STEP : forall s1, Good s1 -> ufr s s1 -> hs s1 = hs s ->
            (forall x1, nth_error (objs s1) i = Some x1 -> oext x1 = 0%N) ->
            exists s', unforce s1 (S i) n = Ok s' /\ Good s' /\ ufr s s' /\ hs s' = hs s /\ ext_done s' (length (objs s'))).
  { intros s1 G1 U1 H1 X1.
    destruct (IH (S i) s1 G1 (static_ufr s s1 U1 SU)) as (s' & E' & G' & U' & H' & Dn').
    - intros o x1 Ho E1. destruct (Nat.eq_dec o i) as [->|n0]; [apply X1, E1|].
      apply (ext_done_ufr s s1 i U1 Dn o x1); [lia|assumption].
    - destruct U1 as [L1 _]. lia.
    - exists s'. split; [assumption|]. split; [assumption|]. split; [eapply ufr_trans; eassumption|]. split; [congruence|assumption]. }
  destruct (odead x) eqn:D; cbn [orb].
  { apply (STEP s G (ufr_refl s) eq_refl). intros x1 E1. rewrite E in E1. injection E1 as <-. apply C3. }
  destruct (is_counted (okind x)) eqn:B; cbn [negb].
  2:{ apply (STEP s G (ufr_refl s) eq_refl). intros x1 E1. rewrite E in E1. injection E1 as <-.
      unfold is_counted in B. destruct (cls_of (okind x)) eqn:Kc; [discriminate|apply C3|].
      apply (SU i x E). unfold is_static. rewrite Kc. reflexivity. }
  assert (Kc : cls_of (okind x) = Counted) by (unfold is_counted in B; destruct (cls_of (okind x)); try discriminate; reflexivity).
  assert (NS : is_static (okind x) = false) by (unfold is_static; rewrite Kc; reflexivity).
  rewrite Kc in C3. destruct C3 as (Hc & H0 & Hw).
  rewrite held_H3.
  destruct (N.eqb_spec (N.of_nat (H3 s i)) 0) as [Z|Z].
  - (* kept only by the environment: release it *)
    set (x' := mkobj (okind x) 1%N 0%N false (oinner x)).
    assert (R : Inv (add_pend (set_obj s i x') i) /\ same_kinds s (add_pend (set_obj s i x') i)).
    { apply (Inv_upd1 s _ i x x' I E); simp_st; cbn [x' okind oinner odead oext ocnt]; try reflexivity; try assumption.
      - apply I.
      - intros o' n0. rewrite H3_add_pend, (H3_set_obj s i x _ o' E) by reflexivity.
        destruct (Nat.eqb_spec i o'); [congruence|lia].
      - rewrite Kc. rewrite H3_add_pend, (H3_set_obj s i x _ i E), Nat.eqb_refl by reflexivity.
        split; [lia|]. split; reflexivity. }
    destruct R as [R1 _].
    destruct (m_unref_ok (add_pend (set_obj s i x') i) i R1) as (s1 & E1 & I1 & _ & H1 & P1); [left; reflexivity|].
    rewrite E1. cbn [bind].
    assert (G1 : Good s1).
    { split; [assumption|]. rewrite P1. cbn [add_pend pend set_obj]. rewrite remove_one_cons. exact P. }
    destruct (m_unref_fr _ _ _ E1) as [F1 _].
    assert (U0 : ufr s (add_pend (set_obj s i x') i)) by (apply (ufr_set s _ i x x' E); try reflexivity; assumption).
    apply (STEP s1 G1 (ufr_trans _ _ _ U0 (fr_ufr _ _ F1))); [rewrite H1; reflexivity|].
    intros x1 Ex1. destruct F1 as [_ F1]. destruct (F1 i x') as (x1' & Ex1' & _ & X1 & _).
    { cbn [add_pend set_obj objs]. rewrite nth_error_set_nth, Nat.eqb_refl, E. reflexivity. }
    rewrite Ex1 in Ex1'. injection Ex1' as <-. exact X1.
  - set (x' := mkobj (okind x) (N.of_nat (H3 s i)) 0%N false (oinner x)).
    assert (R : Inv (set_obj s i x') /\ same_kinds s (set_obj s i x')).
    { apply (Inv_upd1 s _ i x x' I E); simp_st; cbn [x' okind oinner odead oext ocnt]; try reflexivity; try assumption.
      - apply I.
      - intros o' n0. apply (H3_set_obj s i x); [assumption|reflexivity].
      - rewrite Kc. rewrite (H3_set_obj s i x _ i E) by reflexivity. split; [lia|]. split; lia. }
    destruct R as [R1 _].
    apply (STEP (set_obj s i x') (conj R1 P)); [apply (ufr_set s _ i x x' E); try reflexivity; assumption|reflexivity|].
    intros x1 Ex1. cbn [set_obj objs] in Ex1. rewrite nth_error_set_nth, Nat.eqb_refl, E in Ex1. injection Ex1 as <-. reflexivity.
Qed.

Lemma sim_unforce s ss : Refines s ss ->
  exists s', unforce s 0 (length (objs s)) = Ok s' /\ Refines s' (fst (sexec ss OUnforce)).
Proof.
  intros RF. pose proof (Refines_good _ _ RF) as G. pose proof RF as (_ & HS & K).
  destruct (unforce_sim (length (objs s)) 0 s G (Refines_static s ss RF)) as (s' & E & G' & [L U] & H' & Dn).
  { intros o x Ho. lia. } { lia. }
  exists s'. split; [exact E|]. cbn [sexec fst]. split; [assumption|]. split; [cbn [shs]; congruence|].
  unfold Sk. cbn [sobjs]. apply F2_of_nth; [rewrite map_length, L; apply (F2_length orel _ _ K)|].
  intros o x' y' Ex' Ey'. rewrite nth_error_map in Ey'. destruct (nth_error (sobjs ss) o) as [y|] eqn:Ey; [|discriminate].
  injection Ey' as <-. destruct (Sk_r s ss o y K Ey) as (x & Ex & Ky & Xy & Sy & Iy).
  destruct (U o x Ex) as (x'' & Ex'' & Kx & Dx & _). rewrite Ex' in Ex''. injection Ex'' as <-.
  assert (X0 : oext x' = 0%N) by (apply (Dn o x'); [apply nth_error_Some; congruence|assumption]).
  unfold orel. cbn [skind sext sinner]. rewrite Kx, X0. split; [assumption|]. split; [reflexivity|]. split; [reflexivity|].
  intros D'. destruct (Dx D') as [D Ix]. rewrite Ix. apply Iy, D.
Qed.

(* ---------- reference<T> ---------- *)
Lemma replace_fr2 s1 d v (t0 : out) s' (t : out) :
  (let '(s2, old) := m_take s1 d in do s3 <- unref_opt s2 old; Ok (m_put s3 d v, t0)) = Ok (s', t) ->
  fr s1 s' /\ hs s' = set_nth d v (hs s1) /\ t = t0.
Proof.
  unfold m_take. cbn beta iota zeta.
  destruct (unref_opt _ _) as [s3| |] eqn:U; cbn [bind]; try discriminate.
  intros X; inv_ok X. apply unref_opt_fr in U. destruct U as [F H]. split; [exact F|]. split; [|reflexivity].
  cbn [m_put hs]. rewrite H. cbn [hs]. apply set_nth_twice.
Qed.

Lemma sim_xnew s ss k d : Refines s ss -> d < NSLOT ->
  exists s', x_new s k d = Ok (s', OD) /\
    Refines s' (fst (let '(s1, id) := snew ss k None in (sput s1 d (Some id), OD))).
Proof.
  intros RF Hd. pose proof (Refines_good _ _ RF) as G. pose proof RF as (_ & HS & K).
  destruct (x_new_ok s k d G Hd) as (s' & t & E & G' & _).
  unfold x_new, m_new in E. cbn beta iota zeta in E.
  destruct (replace_fr2 _ _ _ _ _ _ E) as (F & H & ->). exists s'. split; [unfold x_new, m_new; exact E|].
  unfold snew, sput. cbn [fst sobjs shs]. split; [assumption|].
  split; [rewrite H; cbn [hs]; rewrite HS, (Sk_len s ss K); reflexivity|].
  eapply Sk_fr; [|exact F]. eapply Sk_new; [exact K|reflexivity].
Qed.

Lemma sim_xassign s ss si d : Refines s ss -> d < NSLOT ->
  exists s', x_assign s si d = Ok (s', OD) /\ Refines s' (fst (sexec ss (XAssign si d))).
Proof.
  intros RF Hd. pose proof (Refines_good _ _ RF) as G.
  destruct (x_assign_ok s si d G Hd) as (s' & t & E & G' & _).
  cbn [sexec]. rewrite !(sslot_ref s ss RF). unfold x_assign in *.
  destruct (eq_opt (slot s si) (slot s d)).
  { exists s. split; [reflexivity|exact RF]. }
  destruct (retain s (slot s si)) as [[s1 ok]| |] eqn:R; cbn [bind] in *; try discriminate.
  destruct (retain_fr _ _ _ _ R) as [F1 H1].
  pose proof (retain_res s ss _ _ _ RF (fun o Ho => H3_slot s si o Ho) R) as Q. rewrite <- Q.
  destruct (replace_fr2 _ _ _ _ _ _ E) as (F & H & ->). exists s'. split; [exact E|].
  cbn [fst]. apply (Refines_sput s s' ss d _ RF G' (fr_trans _ _ _ F1 F)). congruence.
Qed.

Lemma x_copy_unfold s si d : x_copy s si d = (do '(s2, _) <- p_unref s d; x_assign s2 si d).
Proof.
  unfold x_copy, p_unref. destruct (m_take s d) as [s1 old]. destruct (unref_opt s1 old); reflexivity.
Qed.

Lemma sput_twice ss d v w : sput (sput ss d v) d w = sput ss d w.
Proof. unfold sput. cbn [sobjs shs]. rewrite set_nth_twice. reflexivity. Qed.

Lemma eq_opt_none a : eq_opt a None = true -> a = None.
Proof. destruct a; [discriminate|reflexivity]. Qed.

Lemma sim_xcopy s ss si d : Refines s ss -> d < NSLOT ->
  exists s', x_copy s si d = Ok (s', OD) /\ Refines s' (fst (sexec ss (XCopy si d))).
Proof.
  intros RF Hd. rewrite x_copy_unfold.
  destruct (sim_unref s ss d RF) as (s2 & E2 & RF2). rewrite E2. cbn [bind].
  destruct (sim_xassign s2 (sput ss d None) si d RF2 Hd) as (s' & E & RF'). exists s'. split; [exact E|].
  cbn [sexec fst] in *.
  assert (Zd : sslot (sput ss d None) d = None).
  { rewrite sslot_sput by (rewrite (Refines_len s ss RF); assumption). rewrite Nat.eqb_refl. reflexivity. }
  rewrite Zd in RF'. destruct (eq_opt (sslot (sput ss d None) si) None) eqn:Q; [|exact RF'].
  rewrite (eq_opt_none _ Q). cbn [shareable_opt]. rewrite sput_twice. exact RF'.
Qed.

Lemma sim_xmove s ss si d : Refines s ss -> d < NSLOT ->
  exists s', x_move s si d = Ok (s', OD) /\ Refines s' (sput (sput ss si None) d (sslot ss si)).
Proof.
  intros RF Hd. pose proof (Refines_good _ _ RF) as G. pose proof RF as (_ & HS & K).
  destruct (x_move_ok s si d G Hd) as (s' & t & E & G' & _).
  unfold x_move in *. unfold m_take at 1 in E. unfold m_take at 1. cbn beta iota zeta in *.
  destruct (replace_fr2 _ _ _ _ _ _ E) as (F & H & ->). exists s'. split; [exact E|].
  rewrite (sslot_ref s ss RF). split; [assumption|]. split; [unfold sput; cbn [shs]; rewrite H, HS; reflexivity|].
  apply (Sk_fr s s' _ K). exact F.
Qed.

Lemma sim_xdetach s ss si d : Refines s ss -> d < NSLOT -> slot s d = None -> si <> d ->
  exists s', x_detach s si d = Ok (s', OD) /\ Refines s' (sput (sput ss si None) d (sslot ss si)).
Proof.
  intros RF Hd Hs Hn. pose proof (Refines_good _ _ RF) as G. pose proof RF as (_ & HS & K).
  destruct (x_detach_ok s si d G Hd Hs Hn) as (s' & t & E & G' & _).
  unfold x_detach, m_take in *. cbn beta iota zeta in *. inv_ok E. eexists. split; [reflexivity|].
  rewrite (sslot_ref s ss RF). split; [assumption|]. split; [unfold sput; cbn [shs m_put hs]; rewrite HS; reflexivity|].
  exact K.
Qed.

Lemma sim_xclone s ss o d si : Refines s ss -> slot s si = Some o -> slot s d = None -> d < NSLOT ->
  exists s', x_clone s o d = Ok (s', OD) /\ Refines s' (fst (sexec ss (XClone si d))) /\ snd (sexec ss (XClone si d)) = OD.
Proof.
  intros RF S Hs Hd. pose proof (Refines_good _ _ RF) as G. pose proof RF as ((I & P) & HS & K).
  cbn [sexec]. rewrite (sslot_ref s ss RF), S.
  destruct (inv_live s o I (H3_slot s si o S)) as (x & E & D).
  destruct (Sk_l s ss o x K E) as (y & Ey & Ky & _). rewrite Ey, Ky.
  unfold x_clone. rewrite (live_ok s o x E D). cbn [bind].
  destruct (new_put_ok s (okind x) None d I P Hs Hd) as (G1 & _ & _); [discriminate|].
  unfold m_new in *. cbn beta iota zeta in *. eexists. split; [reflexivity|]. split; [|reflexivity].
  unfold snew. cbn [fst sput sobjs shs].
  split; [assumption|]. split; [cbn [m_put hs shs]; rewrite HS, (Sk_len s ss K); reflexivity|].
  eapply Sk_new; [exact K|reflexivity].
Qed.

(* ---------- the stage array of a rawdata object: modify / advance / sharing it out ---------- *)
Lemma put_inner_objs s o v s' : put_inner s o v = Ok s' ->
  exists x, live s o = Ok x /\ objs s' = set_nth o (with_inner x v) (objs s) /\ hs s' = hs s.
Proof.
  unfold put_inner. destruct (live s o) as [x| |]; cbn [bind]; try discriminate.
  intros X. inv_ok X. exists x. auto.
Qed.

Lemma is_buf_counted k : is_buf k = true -> cls_of k = Counted.
Proof. destruct k; try discriminate; reflexivity. Qed.

Lemma sset_inner_at ss o y v : nth_error (sobjs ss) o = Some y ->
  sset_inner ss o v = mksst (set_nth o (mksobj (skind y) (sext y) v) (sobjs ss)) (shs ss).
Proof. intros E. unfold sset_inner. rewrite E. reflexivity. Qed.

(* the object gets a fresh stage buffer (it owned none) *)
Lemma sim_newinner s ss o x y s2 : Refines s ss -> Good s2 ->
  nth_error (objs s) o = Some x -> odead x = false -> oinner x = None ->
  nth_error (sobjs ss) o = Some y -> orel x y ->
  (let '(s1, n) := m_new s KStage None in put_inner s1 o (Some n)) = Ok s2 ->
  Refines s2 (fst (let '(s1, id) := snew ss KStage None in (sset_inner s1 o (Some id), OD))).
Proof.
  intros RF G2 E D Hi Ey (Ky & Xy & Sy & Iy) X. pose proof RF as (_ & HS & K).
  unfold m_new in X. cbn beta iota zeta in X.
  set (s1 := mkst (objs s ++ [mkobj KStage match cls_of KStage with Counted => 1%N | _ => 0%N end 0%N false None]) (hs s)
                  (length (objs s) :: rm_opt None (pend s)) (elog s)) in *.
  destruct (put_inner_objs _ _ _ _ X) as (x1 & L1 & O2 & H2).
  destruct (live_inv _ _ _ L1) as [E1 D1]. unfold s1 in E1. cbn [objs] in E1.
  rewrite nth_error_app1 in E1 by (apply nth_error_Some; congruence). rewrite E in E1. injection E1 as <-.
  unfold snew. cbn [fst].
  rewrite (sset_inner_at _ o y) by (cbn [sobjs]; rewrite nth_error_app1; [assumption|apply nth_error_Some; congruence]).
  cbn [sobjs shs]. split; [assumption|]. split; [cbn [shs]; rewrite H2; unfold s1; cbn [hs]; exact HS|].
  eapply (Sk_upd s1 s2 (mksst (sobjs ss ++ [mksobj KStage 0%N None]) (shs ss))); [eapply Sk_new; [exact K|reflexivity]| |exact O2|].
  - unfold s1. cbn [objs]. rewrite app_length. assert (o < length (objs s)) by (apply nth_error_Some; congruence). lia.
  - unfold orel. cbn [skind sext sinner with_inner okind oext odead oinner]. rewrite (Sk_len s ss K). auto.
Qed.

Lemma sim_advance s ss m o : Refines s ss -> slot s m = Some o -> kind_is (kind_at s) (slot s m) is_raw = true ->
  exists s' t, p_advance s o = Ok (s', t) /\ Refines s' (fst (sexec ss (ORawAdvance m))) /\ t = snd (sexec ss (ORawAdvance m)).
Proof.
  intros RF S Hk. pose proof (Refines_good _ _ RF) as G. pose proof RF as ((I & P) & HS & K).
  destruct (p_advance_ok s m o G S Hk) as (s' & t & E & G' & _). exists s', t. split; [exact E|].
  cbn [sexec]. rewrite (sslot_ref s ss RF), S.
  destruct (inv_live s o I (H3_slot s m o S)) as (x & Ex & D).
  destruct (Sk_l s ss o x K Ex) as (y & Ey & Oy). pose proof Oy as (Ky & Xy & Sy & Iy). rewrite Ey, (Iy D).
  unfold p_advance in E. rewrite (live_ok s o x Ex D) in E. cbn [bind] in E.
  destruct (oinner x) as [b|] eqn:Hi.
  - inv_ok E. split; [exact RF|reflexivity].
  - destruct (let '(s1, n) := m_new s KStage None in put_inner s1 o (Some n)) as [s2| |] eqn:X.
    2,3: (destruct (m_new s KStage None) as [s1 n]; rewrite X in E; discriminate).
    assert (s' = s2 /\ t = OD) as [-> ->].
    { destruct (m_new s KStage None) as [s1 n]. rewrite X in E. cbn [bind] in E. inv_ok E. auto. }
    split; [|unfold snew; reflexivity].
    apply (sim_newinner s ss o x y s2 RF G' Ex D Hi Ey Oy X).
Qed.

Lemma sim_modify s ss m o : Refines s ss -> slot s m = Some o -> kind_is (kind_at s) (slot s m) is_raw = true ->
  exists s' t, p_modify s o = Ok (s', t) /\ Refines s' (fst (sexec ss (ORawModify m))) /\ t = snd (sexec ss (ORawModify m)).
Proof.
  intros RF S Hk. pose proof (Refines_good _ _ RF) as G. pose proof RF as ((I & P) & HS & K).
  destruct (p_modify_ok s m o G S Hk) as (s' & t & E & G' & _). exists s', t. split; [exact E|].
  cbn [sexec]. rewrite (sslot_ref s ss RF), S.
  destruct (inv_live s o I (H3_slot s m o S)) as (x & Ex & D).
  destruct (Sk_l s ss o x K Ex) as (y & Ey & Oy). pose proof Oy as (Ky & Xy & Sy & Iy). rewrite Ey, (Iy D).
  unfold p_modify in E. rewrite (live_ok s o x Ex D) in E. cbn [bind] in E.
  destruct (oinner x) as [b|] eqn:Hi.
  2:{ destruct (let '(s1, n) := m_new s KStage None in put_inner s1 o (Some n)) as [s2| |] eqn:X.
      2,3: (destruct (m_new s KStage None) as [s1 n]; rewrite X in E; discriminate).
      assert (s' = s2 /\ t = OD) as [-> ->].
      { destruct (m_new s KStage None) as [s1 n]. rewrite X in E. cbn [bind] in E. inv_ok E. auto. }
      split; [|unfold snew; reflexivity].
      apply (sim_newinner s ss o x y s2 RF G' Ex D Hi Ey Oy X). }
  destruct (inv_live s b I (H3_inner s o x b Ex Hi)) as (yb & Eb & Db).
  pose proof (inv_obj s I o x Ex) as (_ & C2 & _). destruct (C2 b Hi) as (yb' & Eb' & Bb). rewrite Eb in Eb'. injection Eb' as <-.
  destruct (stotal_cnt s ss RF b yb Eb Db (is_buf_counted _ Bb)) as (-> & _).
  rewrite (live_ok s b yb Eb Db) in E. cbn [bind] in E.
  destruct (ocnt yb <? 2)%N.
  { inv_ok E. split; [exact RF|reflexivity]. }
  unfold m_new in E. cbn beta iota zeta in E.
  set (s1 := mkst (objs s ++ [mkobj KStage match cls_of KStage with Counted => 1%N | _ => 0%N end 0%N false None]) (hs s)
                  (length (objs s) :: rm_opt None (pend s)) (elog s)) in *.
  assert (E1 : nth_error (objs s1) o = Some x).
  { unfold s1. cbn [objs]. rewrite nth_error_app1; [assumption|]. apply nth_error_Some. congruence. }
  rewrite (live_ok s1 o x E1 D) in E. cbn [bind] in E.
  destruct (m_unref (take_inner s1 o x) b) as [s3| |] eqn:U; cbn [bind] in E; try discriminate.
  destruct (put_inner s3 o (Some (length (objs s)))) as [s4| |] eqn:PI; cbn [bind] in E; try discriminate.
  inv_ok E. destruct (m_unref_fr _ _ _ U) as [F3 H3'].
  destruct (put_inner_objs _ _ _ _ PI) as (x3 & L3 & O4 & H4).
  destruct (live_inv _ _ _ L3) as [E3 D3].
  destruct F3 as [L3' F3]. destruct (F3 o (with_inner x None)) as (x3' & E3' & Kx3 & Xx3 & _).
  { unfold take_inner. cbn [objs]. rewrite nth_error_set_nth, Nat.eqb_refl, E1. reflexivity. }
  rewrite E3 in E3'. injection E3' as <-. cbn [with_inner okind oext] in Kx3, Xx3.
  unfold snew. cbn [fst snd]. split; [|reflexivity].
  assert (Ey1 : nth_error (sobjs ss ++ [mksobj KStage 0%N None]) o = Some y).
  { rewrite nth_error_app1; [assumption|]. apply nth_error_Some. congruence. }
  rewrite (sset_inner_at _ o y) by exact Ey1. cbn [sobjs shs].
  split; [assumption|]. split; [cbn [shs]; rewrite H4, H3'; exact HS|].
  (* through the state in which the object momentarily owns nothing *)
  pose (ssm := mksst (set_nth o (mksobj (skind y) (sext y) None) (sobjs ss ++ [mksobj KStage 0%N None])) (shs ss)).
  assert (K2 : Sk (take_inner s1 o x) ssm).
  { eapply (Sk_upd s1 _ (mksst (sobjs ss ++ [mksobj KStage 0%N None]) (shs ss))); [eapply Sk_new; [exact K|reflexivity]| |reflexivity|].
    - apply nth_error_Some. congruence.
    - unfold orel. cbn [skind sext sinner with_inner okind oext odead oinner]. auto. }
  assert (K3 : Sk s3 ssm) by (apply (Sk_fr _ _ _ K2); split; assumption).
  replace (set_nth o (mksobj (skind y) (sext y) (Some (length (sobjs ss)))) (sobjs ss ++ [mksobj KStage 0%N None]))
    with (set_nth o (mksobj (skind y) (sext y) (Some (length (sobjs ss)))) (sobjs ssm)) by (unfold ssm; cbn [sobjs]; apply set_nth_twice).
  eapply (Sk_upd s3); [exact K3|apply nth_error_Some; congruence|exact O4|].
  unfold orel. cbn [skind sext sinner with_inner okind oext odead oinner]. rewrite Kx3, Xx3, (Sk_len s ss K). auto.
Qed.

Lemma sim_rawget s ss m o a : Refines s ss -> slot s m = Some o -> a < NSLOT ->
  exists s' t, p_rawget s o a = Ok (s', t) /\ Refines s' (fst (sexec ss (ORawGet m a))) /\ t = snd (sexec ss (ORawGet m a)).
Proof.
  intros RF S Ha. pose proof (Refines_good _ _ RF) as G. pose proof RF as ((I & P) & HS & K).
  destruct (p_rawget_ok s m o a G S Ha) as (s' & t & E & G' & _). exists s', t. split; [exact E|].
  cbn [sexec]. rewrite !(sslot_ref s ss RF), S.
  destruct (inv_live s o I (H3_slot s m o S)) as (x & Ex & D).
  destruct (Sk_l s ss o x K Ex) as (y & Ey & Ky & Xy & Sy & Iy). rewrite Ey, (Iy D).
  unfold p_rawget in E. rewrite (live_ok s o x Ex D) in E. cbn [bind] in E.
  destruct (eq_opt (oinner x) (slot s a)) eqn:Q.
  { inv_ok E. cbn [fst snd]. split; [exact RF|reflexivity]. }
  rewrite (tmismatch_ref s ss _ _ K). destruct (tmismatch (kind_at s) (oinner x) (slot s a)).
  { inv_ok E. cbn [fst snd]. split; [exact RF|reflexivity]. }
  destruct (retain s (oinner x)) as [[s1 ok]| |] eqn:R; cbn [bind] in E; try discriminate.
  destruct (retain_fr _ _ _ _ R) as [F1 H1].
  pose proof (retain_res s ss _ _ _ RF (fun b Hb => H3_inner s o x b Ex Hb) R) as Q1.
  rewrite <- Q1. destruct ok; cbn [negb fst snd] in *.
  2:{ inv_ok E. split; [|reflexivity]. apply (Refines_same s _ ss RF G' F1 H1). }
  unfold m_take in E. cbn beta iota zeta in E. rewrite (slot_hs s s1 a H1) in E.
  assert (HH : forall s4, fr (m_put (mkst (objs s1) (set_nth a None (hs s1)) (o2l (slot s a) ++ pend s1) (elog s1)) a (oinner x)) s4 ->
           hs s4 = hs (m_put (mkst (objs s1) (set_nth a None (hs s1)) (o2l (slot s a) ++ pend s1) (elog s1)) a (oinner x)) ->
           Good s4 -> Refines s4 (sput ss a (oinner x))).
  { intros s4 F4 H4 G4. apply (Refines_sput s s4 ss a _ RF G4).
    - apply (fr_trans _ _ _ F1). exact F4.
    - rewrite H4. cbn [m_put hs]. rewrite H1. apply set_nth_twice. }
  destruct (slot s a) as [c|] eqn:Sa.
  - destruct (m_unref _ c) as [s4| |] eqn:U; cbn [bind] in E; try discriminate. inv_ok E.
    destruct (m_unref_fr _ _ _ U) as [F4 H4]. split; [apply HH; assumption|].
    destruct (oinner x); reflexivity.
  - inv_ok E. split; [apply HH; [apply fr_refl|reflexivity|assumption]|]. destruct (oinner x); reflexivity.
Qed.

(* ---------- every operation ---------- *)
Lemma sim_exec s ss o : Refines s ss -> guard (hs s) (kind_at s) (held s) o = true ->
  exists s', exec s o = Ok (s', snd (sexec ss o)) /\ Refines s' (fst (sexec ss o)).
Proof.
  intros RF Hg. pose proof (Refines_good _ _ RF) as G. pose proof G as [I P].
  destruct o; cbn [guard exec] in *;
    repeat match goal with
           | H : context [nth ?i (hs s) None] |- _ => change (nth i (hs s) None) with (slot s i) in H
           end;
    split_guard Hg.
  - (* ONew *)
    destruct (sim_new s ss k d RF (is_none_true _ Hg0) (kind_in_bank_bound _ _ Hg1)) as (s' & E & RF').
    exists s'. split; [|exact RF']. rewrite E. f_equal. f_equal. cbn [sexec].
    destruct (if is_static k then sfind is_static (sobjs ss) 0 else None); reflexivity.
  - (* OMetaBuf *)
    destruct (sim_metabuf s ss (slot s a) d RF (is_none_true _ Hg1) (eqb_bound _ _ Hg2 ltac:(lia))) as (s1 & id & E & RF').
    { intros b Hb. split; [apply (H3_slot s a b Hb)|]. rewrite Hb in Hg0. cbn [is_none orb] in Hg0.
      destruct (kind_is_spec s _ _ Hg0) as (b0 & y & Sb & Ey & By). inversion Sb; subst. eauto. }
    rewrite E. cbn [bind sexec fst snd]. eexists. split; [reflexivity|]. rewrite (sslot_ref s ss RF). exact RF'.
  - (* OAddref *)
    destruct (is_none_false _ Hg1) as (o & S). rewrite S.
    destruct (sim_addref s ss o d s0 RF S (is_none_true _ Hg0) (bank_same_bound _ _ Hg (or3_bound _ Hg2))) as (s' & r & E & RF' & Q1 & Q2).
    rewrite E. cbn [bind sexec]. rewrite (sslot_ref s ss RF), S. exists s'.
    destruct (shareable ss o); cbn [fst snd].
    + split; [rewrite (Q2 eq_refl); reflexivity|exact RF'].
    + cbn [negb] in Q1. apply N.eqb_eq in Q1. rewrite Q1. split; [reflexivity|exact RF'].
  - (* OUnref *)
    destruct (sim_unref s ss s0 RF) as (s' & E & RF'). exists s'. split; [exact E|exact RF'].
  - (* OClone *)
    destruct (is_none_false _ Hg1) as (o & S). rewrite S.
    destruct (sim_clone s ss o d s0 RF S (is_none_true _ Hg0) (eqb_bound _ _ Hg2 ltac:(lia))) as (s' & t & E & RF' & ->).
    exists s'. split; [exact E|exact RF'].
  - (* OConv *)
    destruct (sim_conv s ss s0 d RF (eqb_bound _ _ Hg0 ltac:(lia))) as (s' & t & E & RF' & ->).
    exists s'. cbn [sexec]. destruct (s_share ss s0 d) as [s1 ok]. split; [exact E|exact RF'].
  - (* ORefInit *)
    assert (Hd : d < NSLOT).
    { apply orb_prop in Hg1. destruct Hg1 as [H|H]; apply andb_prop in H; destruct H as [H _];
        (eapply bank_same_bound; [exact Hg|]); eapply eqb_bound; try exact H; lia. }
    destruct (sim_refinit s ss s0 d RF (is_none_true _ Hg0) Hd) as (s' & t & E & RF' & ->).
    exists s'. cbn [sexec]. destruct (s_share ss s0 d) as [s1 ok]. split; [exact E|exact RF'].
  - (* ORefFini *)
    destruct (sim_unref s ss d RF) as (s' & E & RF'). exists s'. split; [exact E|exact RF'].
  - (* ORefCopy *)
    destruct (sim_refcopy s ss RF (is_none_true _ Hg) (is_none_true _ Hg1) (is_none_true _ Hg0)) as (s' & t & E & RF' & ->).
    exists s'. cbn [sexec]. destruct (s_share ss 0 3) as [s1 ok1]. cbn [fst snd] in *.
    destruct (s_share s1 1 4) as [s2 ok2]. cbn [fst snd] in *. destruct (s_share s2 2 5) as [s3 ok3]. cbn [fst snd] in *.
    destruct (ok1 && ok2 && ok3); split; assumption.
  - (* OArrClone *)
    destruct (sim_arrclone s ss s0 d RF (eqb_bound _ _ Hg0 ltac:(lia))) as (s' & t & E & RF' & ->).
    exists s'. split; [exact E|exact RF'].
  - (* OArrClear *)
    destruct (sim_arrclear s ss d RF) as (s' & t & E & RF' & ->). exists s'. split; [exact E|exact RF'].
  - (* ODetach *)
    destruct (kind_is_spec s _ _ Hg0) as (o & x & S & _). rewrite S.
    destruct (sim_detach s ss a o RF S (eqb_bound _ _ Hg ltac:(lia)) Hg0) as (s' & t & E & RF' & ->).
    exists s'. split; [exact E|exact RF'].
  - (* ODetachF *)
    destruct (kind_is_spec s _ _ Hg0) as (o & x & S & _). rewrite S.
    destruct (sim_detachf s ss a o RF S Hg0) as (s' & t & E & RF' & ->).
    exists s'. split; [exact E|]. cbn [sexec]. rewrite (sslot_ref s ss RF), S. exact RF'.
  - (* OSetInner *)
    destruct (kind_is_spec s _ _ Hg1) as (o & x & S & _). rewrite S.
    destruct (sim_setinner s ss m o a RF S Hg1 (kind_is_stage_buf _ _ Hg0)) as (s' & t & E & RF' & ->). exists s'. split; [exact E|exact RF'].
  - (* ODefer *)
    destruct (kind_is_spec s _ _ Hg1) as (o & x & S & _). rewrite S.
    destruct (sim_addref s ss o d s0 RF S (is_none_true _ Hg0) (eqb_bound _ _ Hg2 ltac:(lia))) as (s' & r & E & RF' & Q1 & _).
    rewrite E. cbn [bind sexec]. rewrite (sslot_ref s ss RF), S, Q1. exists s'.
    destruct (shareable ss o); cbn [fst snd negb]; split; try reflexivity; exact RF'.
  - (* OForce *)
    destruct (kind_is_spec s _ _ Hg3) as (o & x & S & _). rewrite S in Hg0 |- *.
    destruct (sim_force s ss s0 o v RF S Hg3 Hg2 Hg1 Hg0) as (s' & t & E & RF' & ->). exists s'. split; [exact E|exact RF'].
  - (* OUnforce *)
    destruct (sim_unforce s ss RF) as (s' & E & RF'). rewrite E. cbn [bind]. exists s'. split; [reflexivity|exact RF'].
  - (* XNew *)
    destruct (sim_xnew s ss KCxx d RF (eqb_bound _ _ Hg ltac:(lia))) as (s' & E & RF'). exists s'. split; [|exact RF'].
    rewrite E. reflexivity.
  - (* XAssign *)
    destruct (sim_xassign s ss s0 d RF (eqb_bound _ _ Hg0 ltac:(lia))) as (s' & E & RF'). exists s'. split; [|exact RF'].
    rewrite E. cbn [sexec]. destruct (eq_opt (sslot ss s0) (sslot ss d)); reflexivity.
  - (* XCopy *)
    destruct (sim_xcopy s ss s0 d RF (eqb_bound _ _ Hg1 ltac:(lia))) as (s' & E & RF'). exists s'. split; [exact E|exact RF'].
  - (* XMove *)
    destruct (sim_xmove s ss s0 d RF (eqb_bound _ _ Hg0 ltac:(lia))) as (s' & E & RF'). exists s'. split; [exact E|exact RF'].
  - (* XDetach *)
    destruct (sim_xdetach s ss s0 d RF (eqb_bound _ _ Hg1 ltac:(lia)) (is_none_true _ Hg0)) as (s' & E & RF').
    { intros ->. apply Nat.eqb_eq in Hg, Hg1. lia. }
    exists s'. split; [exact E|exact RF'].
  - (* XSetInst *)
    destruct (sim_xmove s ss s0 d RF (eqb_bound _ _ Hg0 ltac:(lia))) as (s' & E & RF'). exists s'. split; [exact E|exact RF'].
  - (* XDrop *)
    destruct (sim_unref s ss d RF) as (s' & E & RF'). exists s'. split; [exact E|exact RF'].
  - (* XGen *)
    destruct (sim_xnew s ss KXGen d RF (eqb_bound _ _ Hg ltac:(lia))) as (s' & E & RF'). exists s'. split; [|exact RF'].
    rewrite E. reflexivity.
  - (* XClone *)
    destruct (kind_is_spec s _ _ Hg1) as (o & x & S & _). rewrite S.
    destruct (sim_xclone s ss o d s0 RF S (is_none_true _ Hg0) (eqb_bound _ _ Hg2 ltac:(lia))) as (s' & E & RF' & T).
    exists s'. rewrite T. split; [exact E|exact RF'].
  - (* ORawModify *)
    destruct (kind_is_spec s _ _ Hg0) as (o & x & S & _). rewrite S.
    destruct (sim_modify s ss m o RF S Hg0) as (s' & t & E & RF' & ->). exists s'. split; [exact E|exact RF'].
  - (* ORawAdvance *)
    destruct (kind_is_spec s _ _ Hg0) as (o & x & S & _). rewrite S.
    destruct (sim_advance s ss m o RF S Hg0) as (s' & t & E & RF' & ->). exists s'. split; [exact E|exact RF'].
  - (* ORawGet *)
    destruct (kind_is_spec s _ _ Hg0) as (o & x & S & _). rewrite S.
    destruct (sim_rawget s ss m o a RF S (eqb_bound _ _ Hg1 ltac:(lia))) as (s' & t & E & RF' & ->).
    exists s'. split; [exact E|exact RF'].
  - (* ORawCall *)
    exists s. split; [reflexivity|exact RF].
Qed.

Lemma Refines_clear s ss : Refines s ss -> Refines (clear_log s) ss.
Proof. intros (G & HS & K). split; [apply Good_clear, G|]. split; [exact HS|exact K]. Qed.

(* step refinement: same output, related successor states — for EVERY operation from EVERY related pair *)
Lemma sim_step s ss o : Refines s ss ->
  exists s', step s o = Ok (s', snd (sstep ss o)) /\ Refines s' (fst (sstep ss o)).
Proof.
  intros RF. pose proof (Refines_clear s ss RF) as RC. unfold step, sstep.
  rewrite (guard_ref (clear_log s) ss o RC).
  destruct (guard (hs (clear_log s)) (kind_at (clear_log s)) (held (clear_log s)) o) eqn:Hg.
  - apply (sim_exec (clear_log s) ss o RC Hg).
  - exists (clear_log s). split; [reflexivity|exact RC].
Qed.

Lemma Refines_init : Refines init sinit.
Proof. split; [apply Good_init|]. split; [reflexivity|]. constructor. Qed.

(* history refinement: the model's observation sequence (call log aside) IS the specification's *)
Lemma sim_run ops : forall s ss, Refines s ss ->
  map strip (fst (mrun s ops)) = fst (srun ss ops) /\
  exists s', final s ops = Some s' /\ Refines s' (snd (srun ss ops)).
Proof.
  induction ops as [|o r IH]; intros s ss RF.
  - split; [reflexivity|]. exists s. split; [reflexivity|exact RF].
  - destruct (sim_step s ss o RF) as (s1 & E & RF1). unfold final in *. cbn [mrun srun]. rewrite E.
    destruct (sstep ss o) as [ss1 t]. cbn [fst snd] in *.
    destruct (IH s1 ss1 RF1) as (EQ & s' & F & RF').
    destruct (mrun s1 r) as [l f]. destruct (srun ss1 r) as [l' f']. cbn [fst snd map] in *.
    split; [rewrite (observe_ref s1 ss1 RF1 t), EQ; reflexivity|]. exists s'. split; assumption.
Qed.
