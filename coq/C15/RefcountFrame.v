(* C15/RefcountFrame.v — what the vtable calls of the model leave alone: kind, environment handles and
   (while the object exists) the owned handle of every object; the slots.  A model state that moved only
   inside this frame still refines the same specification objects. *)
From MptV Require Import Base.Mem C15.RefcountModel C15.RefcountSpec C15.RefcountCounter C15.RefcountInv
  C15.RefcountSteps C15.RefcountFr C15.RefcountOps C15.RefcountRun C15.RefcountRel.
Local Open Scope nat_scope.

(* ---------- a frame move keeps the specification objects ---------- *)
Lemma orel_fr x x' y : ofr x x' -> orel x y -> orel x' y.
Proof.
  intros (K & X & D) (Ky & Xy & S & Iy). unfold orel. rewrite K, X. repeat split; try assumption.
  intros D'. destruct (D D') as [Dx Ix]. rewrite Ix. apply Iy, Dx.
Qed.

Lemma Sk_fr s s' ss : Sk s ss -> fr s s' -> Sk s' ss.
Proof.
  intros K [L F]. unfold Sk. apply F2_of_nth; [rewrite L; symmetry; apply Sk_len, K|].
  intros o x' y E' Ey. destruct (Sk_r s ss o y K Ey) as (x & E & O).
  destruct (F o x E) as (x'' & E'' & O'). rewrite E' in E''. inversion E''; subst x''.
  eapply orel_fr; eassumption.
Qed.

Lemma Sk_sput s ss d v : Sk s ss -> Sk s (sput ss d v).
Proof. intros K. exact K. Qed.

(* the generic closing step: a state inside the frame whose slots are those of [sput] *)
Lemma Refines_frame s s' ss hs' : Refines s ss -> Good s' -> fr s s' -> hs s' = hs' ->
  Refines s' (mksst (sobjs ss) hs').
Proof.
  intros (_ & _ & K) G' F H. split; [assumption|]. split; [cbn; congruence|]. apply (Sk_fr s s' _ K F).
Qed.

Lemma Refines_same s s' ss : Refines s ss -> Good s' -> fr s s' -> hs s' = hs s -> Refines s' ss.
Proof.
  intros RF G' F H. pose proof RF as (_ & HS & K). split; [assumption|]. split; [congruence|]. apply (Sk_fr s s' _ K F).
Qed.

(* ---------- what addref answers ---------- *)
Lemma m_addref_res s ss o s1 r : Refines s ss -> 0 < H3 s o -> m_addref s o = Ok (s1, r) ->
  (r =? 0)%N = negb (shareable ss o) /\
  (shareable ss o = true ->
   r = match skind_at ss o with Some k => if is_static k then 1%N else (stotal ss o + 1)%N | None => 0%N end).
Proof.
  intros RF Hp. pose proof RF as ((I & P) & HS & K).
  destruct (inv_live s o I Hp) as (x & E & D).
  rewrite (shareable_ref s ss RF o x E D), (kind_at_ref s ss o K). unfold kind_at, is_static. rewrite E.
  unfold m_addref. rewrite (live_ok s o x E D). cbn [bind].
  destruct (cls_of (okind x)) eqn:Kc.
  - destruct (stotal_cnt s ss RF o x E D Kc) as (St & H0 & Hw). rewrite St.
    rewrite (raise_spec _ Hw). unfold sraise.
    replace (0 <? ocnt x)%N with true by (symmetry; apply N.ltb_lt; assumption). cbn [andb].
    destruct (N.ltb_spec (ocnt x) CMAX) as [Hm|Hm]; intros X; inversion X; subst; cbn [negb].
    + split; [apply N.eqb_neq; lia|reflexivity].
    + split; [reflexivity|discriminate].
  - intros X; inversion X; subst. split; [reflexivity|discriminate].
  - intros X; inversion X; subst. split; reflexivity.
Qed.

Lemma retain_res s ss v s1 ok : Refines s ss -> (forall o, v = Some o -> 0 < H3 s o) -> retain s v = Ok (s1, ok) ->
  ok = shareable_opt ss v.
Proof.
  intros RF Hv. destruct v as [o|]; cbn [retain shareable_opt].
  - destruct (m_addref s o) as [[s2 r]| |] eqn:E; cbn [bind]; try discriminate.
    intros X; inversion X; subst. destruct (m_addref_res s ss o _ _ RF (Hv o eq_refl) E) as [Q _].
    rewrite Q. apply negb_involutive.
  - intros X; inversion X; subst. reflexivity.
Qed.

(* slots *)
Lemma set_nth_id {A} (l : list A) i d : nth i l d = d -> set_nth i d l = l.
Proof.
  revert i; induction l as [|h t IH]; intros i H; [destruct i; reflexivity|].
  destruct i; cbn in *; [congruence|]. f_equal. apply IH, H.
Qed.
Lemma set_nth_nth {A} (l : list A) i d : i < length l -> set_nth i (nth i l d) l = l.
Proof.
  revert i; induction l as [|h t IH]; intros i H; [cbn in H; lia|].
  destruct i; cbn in *; [reflexivity|]. f_equal. apply IH. lia.
Qed.
Lemma sput_hs ss d v : shs (sput ss d v) = set_nth d v (shs ss).
Proof. reflexivity. Qed.
Lemma sslot_sput ss d v i : d < length (shs ss) -> sslot (sput ss d v) i = if Nat.eqb d i then v else sslot ss i.
Proof.
  intros H. unfold sslot, sput. cbn [shs]. rewrite nth_set_nth.
  destruct (Nat.eqb_spec d i); cbn [andb]; [|reflexivity]. destruct (Nat.ltb_spec d (length (shs ss))); [reflexivity|lia].
Qed.
