(* C20/LayoutModel.v — executable mechanism model (NO proofs) of the layout property code:
   mptplot/layout/{axis,line,text,graph,world}_property.c (mpt_*_set name dispatch, mpt_*_get read tables),
   color_parse.c, color_html.c, color_set.c, lattr_set.c, string_set.c, values/fpoint_set.c,
   mptcore/object/{object_set_string,object_set_value,object_set_property,property_match}.c.
   Objects are records of the C struct members (floats as bit patterns); setters write record fields,
   getters go through the REGENERATED read tables and member layout of Gen_Layout.v. *)
Require Import List String Ascii NArith ZArith Bool.
Import ListNotations.
From MptV Require Import C20.LayoutTypes C20.LayoutConv C20.Gen_Layout.
Local Open Scope Z_scope.

Record color := mkcol { c_a : N; c_r : N; c_g : N; c_b : N }.
Record lattr := mklattr { la_style : Z; la_width : Z; la_symbol : Z; la_size : Z }.
Definition set_la_style (v : Z) (o : lattr) : lattr := mklattr v (la_width o) (la_symbol o) (la_size o).
Definition set_la_width (v : Z) (o : lattr) : lattr := mklattr (la_style o) v (la_symbol o) (la_size o).
Definition set_la_symbol (v : Z) (o : lattr) : lattr := mklattr (la_style o) (la_width o) v (la_size o).
Definition set_la_size (v : Z) (o : lattr) : lattr := mklattr (la_style o) (la_width o) (la_symbol o) v.
Record axis := mkaxis { ax_title : option bytes; ax_begin : N; ax_end : N; ax_tlen : N; ax_exp : Z; ax_intv : Z; ax_sub : Z; ax_format : Z; ax_dec : Z; ax_lpos : Z; ax_tpos : Z }.
Definition set_ax_title (v : option bytes) (o : axis) : axis := mkaxis v (ax_begin o) (ax_end o) (ax_tlen o) (ax_exp o) (ax_intv o) (ax_sub o) (ax_format o) (ax_dec o) (ax_lpos o) (ax_tpos o).
Definition set_ax_begin (v : N) (o : axis) : axis := mkaxis (ax_title o) v (ax_end o) (ax_tlen o) (ax_exp o) (ax_intv o) (ax_sub o) (ax_format o) (ax_dec o) (ax_lpos o) (ax_tpos o).
Definition set_ax_end (v : N) (o : axis) : axis := mkaxis (ax_title o) (ax_begin o) v (ax_tlen o) (ax_exp o) (ax_intv o) (ax_sub o) (ax_format o) (ax_dec o) (ax_lpos o) (ax_tpos o).
Definition set_ax_tlen (v : N) (o : axis) : axis := mkaxis (ax_title o) (ax_begin o) (ax_end o) v (ax_exp o) (ax_intv o) (ax_sub o) (ax_format o) (ax_dec o) (ax_lpos o) (ax_tpos o).
Definition set_ax_exp (v : Z) (o : axis) : axis := mkaxis (ax_title o) (ax_begin o) (ax_end o) (ax_tlen o) v (ax_intv o) (ax_sub o) (ax_format o) (ax_dec o) (ax_lpos o) (ax_tpos o).
Definition set_ax_intv (v : Z) (o : axis) : axis := mkaxis (ax_title o) (ax_begin o) (ax_end o) (ax_tlen o) (ax_exp o) v (ax_sub o) (ax_format o) (ax_dec o) (ax_lpos o) (ax_tpos o).
Definition set_ax_sub (v : Z) (o : axis) : axis := mkaxis (ax_title o) (ax_begin o) (ax_end o) (ax_tlen o) (ax_exp o) (ax_intv o) v (ax_format o) (ax_dec o) (ax_lpos o) (ax_tpos o).
Definition set_ax_format (v : Z) (o : axis) : axis := mkaxis (ax_title o) (ax_begin o) (ax_end o) (ax_tlen o) (ax_exp o) (ax_intv o) (ax_sub o) v (ax_dec o) (ax_lpos o) (ax_tpos o).
Definition set_ax_dec (v : Z) (o : axis) : axis := mkaxis (ax_title o) (ax_begin o) (ax_end o) (ax_tlen o) (ax_exp o) (ax_intv o) (ax_sub o) (ax_format o) v (ax_lpos o) (ax_tpos o).
Definition set_ax_lpos (v : Z) (o : axis) : axis := mkaxis (ax_title o) (ax_begin o) (ax_end o) (ax_tlen o) (ax_exp o) (ax_intv o) (ax_sub o) (ax_format o) (ax_dec o) v (ax_tpos o).
Definition set_ax_tpos (v : Z) (o : axis) : axis := mkaxis (ax_title o) (ax_begin o) (ax_end o) (ax_tlen o) (ax_exp o) (ax_intv o) (ax_sub o) (ax_format o) (ax_dec o) (ax_lpos o) v.
Record line := mkline { li_color : color; li_attr : lattr; li_fx : N; li_fy : N; li_tx : N; li_ty : N }.
Definition set_li_color (v : color) (o : line) : line := mkline v (li_attr o) (li_fx o) (li_fy o) (li_tx o) (li_ty o).
Definition set_li_attr (v : lattr) (o : line) : line := mkline (li_color o) v (li_fx o) (li_fy o) (li_tx o) (li_ty o).
Definition set_li_fx (v : N) (o : line) : line := mkline (li_color o) (li_attr o) v (li_fy o) (li_tx o) (li_ty o).
Definition set_li_fy (v : N) (o : line) : line := mkline (li_color o) (li_attr o) (li_fx o) v (li_tx o) (li_ty o).
Definition set_li_tx (v : N) (o : line) : line := mkline (li_color o) (li_attr o) (li_fx o) (li_fy o) v (li_ty o).
Definition set_li_ty (v : N) (o : line) : line := mkline (li_color o) (li_attr o) (li_fx o) (li_fy o) (li_tx o) v.
Record text := mktext { tx_value : option bytes; tx_font : option bytes; tx_color : color; tx_size : Z; tx_weight : Z; tx_style : Z; tx_align : Z; tx_px : N; tx_py : N; tx_angle : N }.
Definition set_tx_value (v : option bytes) (o : text) : text := mktext v (tx_font o) (tx_color o) (tx_size o) (tx_weight o) (tx_style o) (tx_align o) (tx_px o) (tx_py o) (tx_angle o).
Definition set_tx_font (v : option bytes) (o : text) : text := mktext (tx_value o) v (tx_color o) (tx_size o) (tx_weight o) (tx_style o) (tx_align o) (tx_px o) (tx_py o) (tx_angle o).
Definition set_tx_color (v : color) (o : text) : text := mktext (tx_value o) (tx_font o) v (tx_size o) (tx_weight o) (tx_style o) (tx_align o) (tx_px o) (tx_py o) (tx_angle o).
Definition set_tx_size (v : Z) (o : text) : text := mktext (tx_value o) (tx_font o) (tx_color o) v (tx_weight o) (tx_style o) (tx_align o) (tx_px o) (tx_py o) (tx_angle o).
Definition set_tx_weight (v : Z) (o : text) : text := mktext (tx_value o) (tx_font o) (tx_color o) (tx_size o) v (tx_style o) (tx_align o) (tx_px o) (tx_py o) (tx_angle o).
Definition set_tx_style (v : Z) (o : text) : text := mktext (tx_value o) (tx_font o) (tx_color o) (tx_size o) (tx_weight o) v (tx_align o) (tx_px o) (tx_py o) (tx_angle o).
Definition set_tx_align (v : Z) (o : text) : text := mktext (tx_value o) (tx_font o) (tx_color o) (tx_size o) (tx_weight o) (tx_style o) v (tx_px o) (tx_py o) (tx_angle o).
Definition set_tx_px (v : N) (o : text) : text := mktext (tx_value o) (tx_font o) (tx_color o) (tx_size o) (tx_weight o) (tx_style o) (tx_align o) v (tx_py o) (tx_angle o).
Definition set_tx_py (v : N) (o : text) : text := mktext (tx_value o) (tx_font o) (tx_color o) (tx_size o) (tx_weight o) (tx_style o) (tx_align o) (tx_px o) v (tx_angle o).
Definition set_tx_angle (v : N) (o : text) : text := mktext (tx_value o) (tx_font o) (tx_color o) (tx_size o) (tx_weight o) (tx_style o) (tx_align o) (tx_px o) (tx_py o) v.
Record graph := mkgraph { gr_axes : option bytes; gr_worlds : option bytes; gr_fg : color; gr_bg : color; gr_px : N; gr_py : N; gr_sx : N; gr_sy : N; gr_grid : Z; gr_align : Z; gr_frame : Z; gr_clip : Z; gr_lpos : Z }.
Definition set_gr_axes (v : option bytes) (o : graph) : graph := mkgraph v (gr_worlds o) (gr_fg o) (gr_bg o) (gr_px o) (gr_py o) (gr_sx o) (gr_sy o) (gr_grid o) (gr_align o) (gr_frame o) (gr_clip o) (gr_lpos o).
Definition set_gr_worlds (v : option bytes) (o : graph) : graph := mkgraph (gr_axes o) v (gr_fg o) (gr_bg o) (gr_px o) (gr_py o) (gr_sx o) (gr_sy o) (gr_grid o) (gr_align o) (gr_frame o) (gr_clip o) (gr_lpos o).
Definition set_gr_fg (v : color) (o : graph) : graph := mkgraph (gr_axes o) (gr_worlds o) v (gr_bg o) (gr_px o) (gr_py o) (gr_sx o) (gr_sy o) (gr_grid o) (gr_align o) (gr_frame o) (gr_clip o) (gr_lpos o).
Definition set_gr_bg (v : color) (o : graph) : graph := mkgraph (gr_axes o) (gr_worlds o) (gr_fg o) v (gr_px o) (gr_py o) (gr_sx o) (gr_sy o) (gr_grid o) (gr_align o) (gr_frame o) (gr_clip o) (gr_lpos o).
Definition set_gr_px (v : N) (o : graph) : graph := mkgraph (gr_axes o) (gr_worlds o) (gr_fg o) (gr_bg o) v (gr_py o) (gr_sx o) (gr_sy o) (gr_grid o) (gr_align o) (gr_frame o) (gr_clip o) (gr_lpos o).
Definition set_gr_py (v : N) (o : graph) : graph := mkgraph (gr_axes o) (gr_worlds o) (gr_fg o) (gr_bg o) (gr_px o) v (gr_sx o) (gr_sy o) (gr_grid o) (gr_align o) (gr_frame o) (gr_clip o) (gr_lpos o).
Definition set_gr_sx (v : N) (o : graph) : graph := mkgraph (gr_axes o) (gr_worlds o) (gr_fg o) (gr_bg o) (gr_px o) (gr_py o) v (gr_sy o) (gr_grid o) (gr_align o) (gr_frame o) (gr_clip o) (gr_lpos o).
Definition set_gr_sy (v : N) (o : graph) : graph := mkgraph (gr_axes o) (gr_worlds o) (gr_fg o) (gr_bg o) (gr_px o) (gr_py o) (gr_sx o) v (gr_grid o) (gr_align o) (gr_frame o) (gr_clip o) (gr_lpos o).
Definition set_gr_grid (v : Z) (o : graph) : graph := mkgraph (gr_axes o) (gr_worlds o) (gr_fg o) (gr_bg o) (gr_px o) (gr_py o) (gr_sx o) (gr_sy o) v (gr_align o) (gr_frame o) (gr_clip o) (gr_lpos o).
Definition set_gr_align (v : Z) (o : graph) : graph := mkgraph (gr_axes o) (gr_worlds o) (gr_fg o) (gr_bg o) (gr_px o) (gr_py o) (gr_sx o) (gr_sy o) (gr_grid o) v (gr_frame o) (gr_clip o) (gr_lpos o).
Definition set_gr_frame (v : Z) (o : graph) : graph := mkgraph (gr_axes o) (gr_worlds o) (gr_fg o) (gr_bg o) (gr_px o) (gr_py o) (gr_sx o) (gr_sy o) (gr_grid o) (gr_align o) v (gr_clip o) (gr_lpos o).
Definition set_gr_clip (v : Z) (o : graph) : graph := mkgraph (gr_axes o) (gr_worlds o) (gr_fg o) (gr_bg o) (gr_px o) (gr_py o) (gr_sx o) (gr_sy o) (gr_grid o) (gr_align o) (gr_frame o) v (gr_lpos o).
Definition set_gr_lpos (v : Z) (o : graph) : graph := mkgraph (gr_axes o) (gr_worlds o) (gr_fg o) (gr_bg o) (gr_px o) (gr_py o) (gr_sx o) (gr_sy o) (gr_grid o) (gr_align o) (gr_frame o) (gr_clip o) v.
Record world := mkworld { wl_alias : option bytes; wl_color : color; wl_attr : lattr; wl_cyc : Z }.
Definition set_wl_alias (v : option bytes) (o : world) : world := mkworld v (wl_color o) (wl_attr o) (wl_cyc o).
Definition set_wl_color (v : color) (o : world) : world := mkworld (wl_alias o) v (wl_attr o) (wl_cyc o).
Definition set_wl_attr (v : lattr) (o : world) : world := mkworld (wl_alias o) (wl_color o) v (wl_cyc o).
Definition set_wl_cyc (v : Z) (o : world) : world := mkworld (wl_alias o) (wl_color o) (wl_attr o) v.

Inductive anyobj := OAxis (o : axis) | OLine (o : line) | OText (o : text) | OGraph (o : graph) | OWorld (o : world).

(* the value source of a set call: text of mpt_object_set_string (None = NULL) with the libc answers for
   its float parses, a typed value of mpt_object_set_value, another object (generic assignment) *)
Inductive source := SText (t : option bytes) (o : torc) | SValue (v : tval) | SObj (o : anyobj).

(* ---- defaults (the static def_* initialisers) ---- *)
Definition col_black := mkcol 255 0 0 0.
Definition def_lattr := mklattr 1 1 0 10.
Definition def_axis := mkaxis None 0%N 4607182418800017408%N 1050253722%N 0 0 0 0 0 0 0.
Definition def_line := mkline col_black def_lattr 0%N 0%N 0%N 0%N.
Definition def_text := mktext None None col_black 10 110 110 53 1056964608%N 1056964608%N 0%N.
Definition def_graph := mkgraph None None col_black (mkcol 0 255 255 255) 0%N 0%N 1065353216%N 1065353216%N 0 0 0 0 0.
Definition def_world := mkworld None col_black def_lattr 0.

(* result of a set call: return class and new object *)
Inductive sres := SOk | SFail (e : Z).

(* ---- conversion requests on a source ---- *)
Definition src_number (ty : ntype) (s : source) : cres nval :=
  match s with
  | SText None _ => CZero
  | SText (Some t) o => text_number ty (match ty with NF64 => or_d1 o | _ => or_f1 o end) t
  | SValue v => value_number ty v
  | SObj _ => CErr BadType
  end.
Definition nv_int (v : nval) : Z := match v with NvInt z => z | NvBits b => Z.of_N b end.
Definition nv_bits (v : nval) : N := match v with NvBits b => b | NvInt z => Z.to_N z end.

(* 's': the char pointer (may be NULL) *)
Definition src_str (s : source) : cres (option bytes) :=
  match s with
  | SText t _ => CVal t
  | SValue (VS t) => CVal t
  | _ => CErr BadType
  end.
(* vector of 'c': base and length *)
Definition src_vec (s : source) : cres (option bytes) :=
  match s with
  | SText t _ => CVal t
  | SValue (VC z) => CVal (Some [Z.to_N (z mod 256)])
  | _ => CErr BadType
  end.
(* 'k': first word *)
Definition src_key (s : source) : cres bytes :=
  match s with
  | SText None _ => CZero
  | SText (Some []) _ => CZero
  | SText (Some t) _ => match take_word (skip_space t) with [] => CErr BadValue | w => CVal w end
  | _ => CErr BadType
  end.

(* ---- string_set.c ---- *)
Fixpoint cstr (t : bytes) : bytes :=      (* the C string a reader sees: bytes before the first NUL *)
  match t with c :: r => if N.eqb c 0 then [] else c :: cstr r | [] => [] end.
(* mpt_string_set(ptr, data, len): len = None stands for -1 (strlen) *)
Definition string_set (data : option bytes) (len : option nat) : option bytes :=
  match data with
  | None => None
  | Some d =>
    let n := match len with Some n => n | None => List.length (cstr d) end in
    match n with O => None | _ => Some (cstr (firstn n d)) end
  end.
(* mpt_string_pset(ptr, src) for a present source: Some new pointer value or the error *)
Definition string_pset (cur : option bytes) (s : source) : sres * option bytes :=
  match src_vec s with
  | CVal d => (SOk, string_set d (match d with Some x => Some (List.length x) | None => Some O end))
  | _ =>
    match src_str s with
    | CErr e => (SFail e, cur)
    | CZero | CKeep => (SOk, None)
    | CVal None => (SOk, None)
    | CVal (Some t) => (SOk, string_set (Some t) None)
    end
  end.

(* ---- color_parse.c / color_html.c / color_set.c ---- *)
Definition color_names : list (bytes * color) :=
  [ (bs "black", mkcol 255 0 0 0); (bs "red", mkcol 255 255 0 0); (bs "green", mkcol 255 0 255 0);
    (bs "blue", mkcol 255 0 0 255); (bs "cyan", mkcol 255 0 255 255); (bs "magenta", mkcol 255 255 0 255);
    (bs "yellow", mkcol 255 255 255 0); (bs "white", mkcol 255 255 255 255) ].
Fixpoint color_by_name (tab : list (bytes * color)) (txt : bytes) : option color :=
  match tab with
  | [] => None
  | (n, c) :: r =>
    if ncaseeq (List.length n) n txt
       && match skipn (List.length n) txt with [] => true | x :: _ => is_space x end
    then Some c else color_by_name r txt
  end.
(* mpt_color_html: up to 4 two-character hex pairs; Some [r;g;b;a] or None (refused) *)
Fixpoint html_pairs (fuel : nat) (txt : bytes) (col : list N) (i : nat) : option (list N) :=
  match fuel with
  | O => Some col
  | S f =>
    match txt with
    | [] => Some col
    | c0 :: rest =>
      if N.eqb c0 0 then Some col else
      match rest with
      | [] => None
      | c1 :: rest' =>
        if N.eqb c1 0 then None else
        match conv_uint 255 16 [c0; c1] with
        | CErr _ => None
        | CVal v => html_pairs f rest' (firstn i col ++ [Z.to_N v] ++ skipn (S i) col) (S i)
        | _ => html_pairs f rest' col (S i)
        end
      end
    end
  end.
Definition color_html (txt : bytes) : option color :=
  match html_pairs 4 txt [0; 0; 0; 255]%N 0 with
  | Some [r; g; b; a] => Some (mkcol a r g b)
  | _ => None
  end.
(* mpt_color_parse(col, txt) *)
Definition color_parse (txt : option bytes) : option color :=
  match txt with
  | None | Some [] => Some col_black
  | Some (c :: r) => if N.eqb c 35 then color_html r else color_by_name color_names (c :: r)
  end.
(* operator<< (mpt++/color.cpp) *)
Definition hexdig (n : N) : N := if (n <? 10)%N then (48 + n)%N else (87 + n)%N.
Definition hex2 (n : N) : bytes := [hexdig (n / 16); hexdig (n mod 16)].
Definition color_print (c : color) : bytes :=
  app (35%N :: app (hex2 (c_r c)) (app (hex2 (c_g c)) (hex2 (c_b c)))) (if N.eqb (c_a c) 255 then nil else hex2 (c_a c)).

(* mpt_color_pset for a present source *)
Definition color_pset (cur : color) (s : source) : sres * color :=
  match s with
  | SValue (VCol a r g b) => (SOk, mkcol a r g b)
  | SText None _ | SText (Some []) _ => (SOk, cur)          (* conversion reports 0: accepted, nothing assigned *)
  | _ =>
    match src_str s with
    | CVal t => match color_parse t with Some c => (SOk, c) | None => (SFail BadValue, cur) end
    | _ => (SFail BadType, cur)
    end
  end.

(* ---- lattr_set.c ---- *)
Definition lattr_pset (cur : Z) (s : source) (def lo hi : Z) : sres * Z :=
  let fin (r : cres Z) :=
    match r with
    | CErr e => (SFail e, cur)
    | CZero => (SOk, def)
    | CKeep => if (cur <? lo) || (hi <? cur) then (SFail BadValue, cur) else (SOk, cur)
    | CVal v => if (v <? lo) || (hi <? v) then (SFail BadValue, cur) else (SOk, v)
    end in
  match src_number NU8 s with
  | CErr _ =>
    match src_number NI32 s with
    | CErr e => (SFail e, cur)
    | CZero => (SOk, def)
    | CKeep => fin CKeep
    | CVal v => let z := nv_int v in
                if (z <? 0) || (255 <? z) then (SFail BadValue, cur) else fin (CVal z)
    end
  | CZero => (SOk, def)
  | CKeep => fin CKeep
  | CVal v => fin (CVal (nv_int v))
  end.

(* ---- values/fpoint_set.c with binary32 ordering on bit patterns ---- *)
Definition f32_nan (b : N) : bool := (N.eqb ((b / 8388608) mod 256) 255 && negb (N.eqb (b mod 8388608) 0))%N.
Definition f32_key (b : N) : Z := let m := Z.of_N (b mod 2147483648) in if (b <? 2147483648)%N then m else - m.
Definition f32_lt (a b : N) : bool := negb (f32_nan a) && negb (f32_nan b) && (f32_key a <? f32_key b).
Inductive fres := FErr (e : Z) | FZero | FVal (x y : N).
Definition fpoint_set (s : source) (rmin rmax : N) : fres :=
  let check (x y : N) :=
    if f32_lt x rmin || f32_lt y rmin || f32_lt rmax x || f32_lt rmax y then FErr BadValue else FVal x y in
  match s with
  | SText None _ => FZero
  | SText (Some []) _ => FZero
  | SText (Some t) o =>
    match text_number NF32 (or_f1 o) t with
    | CErr _ => FErr BadType
    | CZero | CKeep => FErr BadType            (* white space only: the string iterator has no element *)
    | CVal vx =>
      let x := nv_bits vx in
      let e1 := Z.to_nat (fo_end (or_f1 o)) in
      if (List.length t <=? e1)%nat then FErr MissingData     (* a single number: no second element *)
      else match skipn (S e1) t with
           | [] => FErr BadType
           | t2 => match text_number NF32 (or_f2 o) t2 with
                   | CErr _ => FErr BadType
                   | CZero | CKeep => FErr BadType        (* white space behind the separator: no element *)
                   | CVal vy => check x (nv_bits vy)
                   end
           end
    end
  | SValue (VPt x y) => check x y
  | _ => FErr BadType
  end.

(* ================= name dispatch of the setters ================= *)
Definition eqs (n : bytes) (lit : string) : bool := beq n (bs lit).      (* strcmp == 0 *)
Definition ceqs (n : bytes) (lit : string) : bool := caseeq n (bs lit).  (* strcasecmp == 0 *)

Inductive axis_field := AxTitle | AxBegin | AxEnd | AxTlen | AxIntv | AxExp | AxSub | AxDec | AxLpos | AxTpos.
Definition axis_field_of (n : bytes) : option axis_field :=
  if ceqs n "title" then Some AxTitle
  else if ceqs n "begin" then Some AxBegin
  else if ceqs n "end" then Some AxEnd
  else if ceqs n "tlen" then Some AxTlen
  else if ceqs n "int" || ceqs n "intv" || ceqs n "intervals" then Some AxIntv
  else if ceqs n "exp" || ceqs n "exponent" then Some AxExp
  else if ceqs n "sub" || ceqs n "subtick" then Some AxSub
  else if ceqs n "dec" || ceqs n "decimals" then Some AxDec
  else if ceqs n "lpos" || ceqs n "labelpos" || ceqs n "label position" then Some AxLpos
  else if ceqs n "tpos" || ceqs n "titlepos" || ceqs n "title position" then Some AxTpos
  else None.

Inductive line_field := LiX1 | LiX2 | LiY1 | LiY2 | LiColor | LiWidth | LiStyle | LiSymbol | LiSize.
Definition line_field_of (n : bytes) : option line_field :=
  if eqs n "x1" then Some LiX1 else if eqs n "x2" then Some LiX2
  else if eqs n "y1" then Some LiY1 else if eqs n "y2" then Some LiY2
  else if ceqs n "color" then Some LiColor
  else if ceqs n "width" then Some LiWidth
  else if ceqs n "style" then Some LiStyle
  else if ceqs n "symbol" then Some LiSymbol
  else if ceqs n "size" then Some LiSize
  else None.

Inductive text_field := TxValue | TxFont | TxX | TxY | TxPos | TxColor | TxSize | TxAlign | TxAngle.
Definition text_field_of (n : bytes) : option text_field :=
  if ceqs n "value" then Some TxValue else if ceqs n "font" then Some TxFont
  else if ceqs n "x" then Some TxX else if ceqs n "y" then Some TxY
  else if ceqs n "pos" then Some TxPos
  else if ceqs n "color" then Some TxColor
  else if ceqs n "size" then Some TxSize
  else if ceqs n "align" then Some TxAlign
  else if ceqs n "angle" then Some TxAngle
  else None.

Inductive graph_field := GrFg | GrBg | GrPos | GrScale | GrGrid | GrAlign | GrClip | GrLpos | GrAxes | GrWorlds.
Definition graph_field_of (n : bytes) : option graph_field :=
  if eqs n "fg" || ceqs n "foreground" then Some GrFg
  else if eqs n "bg" || ceqs n "background" then Some GrBg
  else if eqs n "pos" || ceqs n "position" then Some GrPos
  else if ceqs n "scale" then Some GrScale
  else if eqs n "type" || ceqs n "grid" || ceqs n "gridtype" then Some GrGrid
  else if eqs n "align" || ceqs n "alignment" then Some GrAlign
  else if eqs n "clip" || ceqs n "clipping" then Some GrClip
  else if eqs n "lpos" then Some GrLpos
  else if eqs n "axes" then Some GrAxes
  else if eqs n "worlds" then Some GrWorlds
  else None.

Inductive world_field := WlCyc | WlColor | WlAlias | WlWidth | WlStyle | WlSymbol | WlSize.
Definition world_field_of (n : bytes) : option world_field :=
  if ceqs n "cyc" || ceqs n "cycles" then Some WlCyc
  else if ceqs n "color" || ceqs n "colour" then Some WlColor
  else if ceqs n "alias" then Some WlAlias
  else if ceqs n "width" then Some WlWidth
  else if ceqs n "style" then Some WlStyle
  else if ceqs n "sym" || ceqs n "symbol" then Some WlSymbol
  else if ceqs n "size" then Some WlSize
  else None.

(* ================= field setters ================= *)
(* the common pattern  if (!src || !(len = convert(src, T, &field))) field = default; return len < 0 ? len : 0 *)
Definition num_field {O : Type} (ty : ntype) (s : option source) (o : O) (def : nval) (wr : nval -> O -> O) : sres * O :=
  match s with
  | None => (SOk, wr def o)
  | Some src =>
    match src_number ty src with
    | CErr e => (SFail e, o)
    | CZero => (SOk, wr def o)
    | CKeep => (SOk, o)
    | CVal v => (SOk, wr v o)
    end
  end.
Definition str_field {O : Type} (s : option source) (o : O) (cur : option bytes) (wr : option bytes -> O -> O) : sres * O :=
  match s with
  | None => (SOk, wr None o)
  | Some src => let '(r, v) := string_pset cur src in (r, match r with SOk => wr v o | SFail _ => o end)
  end.
Definition col_field {O : Type} (s : option source) (o : O) (cur def : color) (wr : color -> O -> O) : sres * O :=
  match s with
  | None => (SOk, wr def o)
  | Some src => let '(r, v) := color_pset cur src in (r, match r with SOk => wr v o | SFail _ => o end)
  end.
Definition lat_field {O : Type} (s : option source) (o : O) (cur def lo hi : Z) (wr : Z -> O -> O) : sres * O :=
  match s with
  | None => (SOk, wr def o)
  | Some src => let '(r, v) := lattr_pset cur src def lo hi in (r, match r with SOk => wr v o | SFail _ => o end)
  end.
Definition pt_field {O : Type} (s : option source) (o : O) (rmax : N) (dx dy : N) (wr : N -> N -> O -> O) : sres * O :=
  match s with
  | None => (SOk, wr dx dy o)
  | Some src =>
    match fpoint_set src 0%N rmax with
    | FErr e => (SFail e, o)
    | FZero => (SOk, wr dx dy o)
    | FVal x y => (SOk, wr x y o)
    end
  end.
(* axis setPosition: 'c', else first character of the first word ('k') *)
Definition chr_or_key {O : Type} (s : option source) (o : O) (def : Z) (wr : Z -> O -> O) : sres * O :=
  match s with
  | None => (SOk, wr def o)
  | Some src =>
    match src_number NChr src with
    | CZero => (SOk, wr def o)
    | CKeep => (SOk, o)
    | CVal v => (SOk, wr (nv_int v) o)
    | CErr _ =>
      match src_key src with
      | CErr e => (SFail e, o)
      | CVal (c :: _) => (SOk, wr (Z.of_N c) o)
      | _ => (SOk, wr def o)
      end
    end
  end.

Definition LG : Z := 32.   (* TransformLg *)
Definition clear_lg (f : Z) : Z := Z.land f (Z.lnot LG mod 256).
Definition set_lg (f : Z) : Z := Z.lor f LG.

Definition axis_set_field (f : axis_field) (s : option source) (o : axis) : sres * axis :=
  match f with
  | AxTitle => str_field s o (ax_title o) set_ax_title
  | AxBegin => num_field NF64 s o (NvBits (ax_begin def_axis)) (fun v => set_ax_begin (nv_bits v))
  | AxEnd => num_field NF64 s o (NvBits (ax_end def_axis)) (fun v => set_ax_end (nv_bits v))
  | AxTlen => num_field NF32 s o (NvBits (ax_tlen def_axis)) (fun v => set_ax_tlen (nv_bits v))
  | AxIntv =>
    match s with
    | None => (SOk, set_ax_format (clear_lg (ax_format o)) (set_ax_intv (ax_intv def_axis) o))
    | Some src =>
      match src_number NU8 src with
      | CZero => (SOk, set_ax_format (clear_lg (ax_format o)) (set_ax_intv 0 o))
      | CKeep => (SOk, set_ax_format (clear_lg (ax_format o)) o)
      | CVal v => (SOk, set_ax_format (clear_lg (ax_format o)) (set_ax_intv (nv_int v) o))
      | CErr e =>
        match src_str src with
        | CVal (Some l) => if ncaseeq 3 l (bs "log")
                           then (SOk, set_ax_format (set_lg (ax_format o)) (set_ax_intv 0 o))
                           else (SFail e, o)
        | _ => (SFail e, o)
        end
      end
    end
  | AxExp => num_field NI16 s o (NvInt (ax_exp def_axis)) (fun v => set_ax_exp (nv_int v))
  | AxSub => num_field NU8 s o (NvInt (ax_sub def_axis)) (fun v => set_ax_sub (nv_int v))
  | AxDec => num_field NU8 s o (NvInt (ax_dec def_axis)) (fun v => set_ax_dec (nv_int v))
  | AxLpos => chr_or_key s o (ax_lpos def_axis) set_ax_lpos
  | AxTpos => chr_or_key s o (ax_tpos def_axis) set_ax_tpos
  end.

(* line setPosition: 'f', else 'd' narrowed; with the sources modelled a value converts to 'd' but not to
   'f' exactly when it is finite and beyond the float range *)
Definition line_pos (s : option source) (o : line) (wr : N -> line -> line) : sres * line :=
  match s with
  | None => (SOk, wr 0%N o)
  | Some src =>
    match src_number NF32 src with
    | CZero => (SOk, wr 0%N o)
    | CKeep => (SOk, o)
    | CVal v => (SOk, wr (nv_bits v) o)
    | CErr _ =>
      match src_number NF64 src with
      | CErr _ => (SFail BadType, o)
      | CZero => (SOk, wr 0%N o)
      | CKeep => (SOk, o)
      | CVal _ => (SFail BadValue, o)      (* a double that had no float image: finite beyond the float range *)
      end
    end
  end.
Definition LineWidthMax : Z := 10.
Definition LineStyleMax : Z := 5.
Definition SymbolTypeMax : Z := 8.
Definition SymbolSizeMax : Z := 20.
Definition attr_field {O : Type} (which : nat) (s : option source) (o : O) (a : lattr) (wr : lattr -> O -> O) : sres * O :=
  match which with
  | 0%nat => lat_field s o (la_width a) 1 0 LineWidthMax (fun v => wr (set_la_width v a))
  | 1%nat => lat_field s o (la_style a) 1 0 LineStyleMax (fun v => wr (set_la_style v a))
  | 2%nat => lat_field s o (la_symbol a) 0 0 SymbolTypeMax (fun v => wr (set_la_symbol v a))
  | _ => lat_field s o (la_size a) 10 0 SymbolSizeMax (fun v => wr (set_la_size v a))
  end.

Definition line_set_field (f : line_field) (s : option source) (o : line) : sres * line :=
  match f with
  | LiX1 => line_pos s o set_li_fx
  | LiX2 => line_pos s o set_li_tx
  | LiY1 => line_pos s o set_li_fy
  | LiY2 => line_pos s o set_li_ty
  | LiColor => col_field s o (li_color o) (li_color def_line) set_li_color
  | LiWidth => attr_field 0 s o (li_attr o) set_li_attr
  | LiStyle => attr_field 1 s o (li_attr o) set_li_attr
  | LiSymbol => attr_field 2 s o (li_attr o) set_li_attr
  | LiSize => attr_field 3 s o (li_attr o) set_li_attr
  end.

Definition F32_ONE : N := 1065353216%N.
Definition F32_MAX : N := 2139095039%N.

Definition text_set_field (f : text_field) (s : option source) (o : text) : sres * text :=
  match f with
  | TxValue => str_field s o (tx_value o) set_tx_value
  | TxFont => str_field s o (tx_font o) set_tx_font
  | TxX => num_field NF32 s o (NvBits (tx_px def_text)) (fun v => set_tx_px (nv_bits v))
  | TxY => num_field NF32 s o (NvBits (tx_py def_text)) (fun v => set_tx_py (nv_bits v))
  | TxPos => pt_field s o F32_ONE (tx_px def_text) (tx_py def_text) (fun x y t => set_tx_py y (set_tx_px x t))
  | TxColor => col_field s o (tx_color o) (tx_color def_text) set_tx_color
  | TxSize => num_field NU8 s o (NvInt (tx_size def_text)) (fun v => set_tx_size (nv_int v))
  | TxAlign => num_field NChr s o (NvInt (tx_align def_text)) (fun v => set_tx_align (nv_int v))
  | TxAngle => num_field NF64 s o (NvBits (tx_angle def_text)) (fun v => set_tx_angle (nv_bits v))
  end.

(* graph "align" text: character k (1-based, k <= 4) contributes its code shifted by 2k into a uint8 *)
Fixpoint align_bits (v : bytes) (i : nat) (n : Z) : Z :=
  match v with
  | [] => n
  | c :: r =>
    if (4 <=? i)%nat then n else
    let i' := S i in
    let code := if (N.eqb c 66 || N.eqb c 98)%N then 1 else if (N.eqb c 69 || N.eqb c 101)%N then 2
                else if (N.eqb c 90 || N.eqb c 122)%N then 3 else 0 in
    align_bits r i' (Z.lor n (Z.shiftl code (2 * Z.of_nat i')) mod 256)
  end.
Fixpoint clip_bits (v : bytes) (n : Z) : Z :=
  match v with
  | [] => n
  | c :: r => clip_bits r (Z.lor n (if N.eqb c 120 then 1 else if N.eqb c 121 then 2 else if N.eqb c 122 then 4 else 8))
  end.

(* grid type of a graph, AS PATCHED by docs/C20_grid_by_value.diff: a source that is no character is taken as the
   number the property shows ('y'), so that the value read from a graph can be assigned again *)
Definition grid_type (s : option source) : ntype :=
  match s with
  | Some src => match src_number NChr src with CErr _ => NU8 | _ => NChr end
  | None => NChr
  end.
Definition graph_set_field (f : graph_field) (s : option source) (o : graph) : sres * graph :=
  match f with
  | GrFg => col_field s o (gr_fg o) (gr_fg def_graph) set_gr_fg
  | GrBg => col_field s o (gr_bg o) (gr_bg def_graph) set_gr_bg
  | GrPos => pt_field s o F32_ONE (gr_px def_graph) (gr_py def_graph) (fun x y g => set_gr_py y (set_gr_px x g))
  | GrScale => pt_field s o F32_MAX (gr_sx def_graph) (gr_sy def_graph) (fun x y g => set_gr_sy y (set_gr_sx x g))
  | GrGrid => num_field (grid_type s) s o (NvInt (gr_grid def_graph)) (fun v => set_gr_grid (nv_int v))
  | GrAlign =>
    match s with
    | None => (SOk, set_gr_align (gr_align def_graph) o)
    | Some src =>
      match src_number NU8 src with
      | CZero => (SOk, set_gr_align (gr_align def_graph) o)
      | CKeep => (SOk, o)
      | CVal v => (SOk, set_gr_align (nv_int v) o)
      | CErr _ =>
        match src_str src with
        | CErr e => (SFail e, o)
        | CVal (Some v) => (SOk, set_gr_align (align_bits v 0 0) o)
        | _ => (SOk, set_gr_align 0 o)
        end
      end
    end
  | GrClip =>
    match s with
    | None => (SOk, set_gr_clip (gr_clip def_graph) o)
    | Some src =>
      match src_number NU8 src with
      | CZero => (SOk, set_gr_clip (gr_clip def_graph) o)
      | CKeep => (SOk, o)
      | CVal v => (SOk, set_gr_clip (nv_int v) o)
      | CErr _ =>
        match src_str src with
        | CErr e => (SFail e, o)
        | CVal (Some v) => (SOk, set_gr_clip (clip_bits v 0) o)
        | _ => (SOk, set_gr_clip (gr_clip def_graph) o)
        end
      end
    end
  | GrLpos => num_field NChr s o (NvInt (gr_lpos def_graph)) (fun v => set_gr_lpos (nv_int v))
  | GrAxes => str_field s o (gr_axes o) set_gr_axes
  | GrWorlds => str_field s o (gr_worlds o) set_gr_worlds
  end.

Definition world_set_field (f : world_field) (s : option source) (o : world) : sres * world :=
  match f with
  | WlCyc => num_field NU32 s o (NvInt (wl_cyc def_world)) (fun v => set_wl_cyc (nv_int v))
  | WlColor => col_field s o (wl_color o) (wl_color def_world) set_wl_color
  | WlAlias => str_field s o (wl_alias o) set_wl_alias
  | WlWidth => attr_field 0 s o (wl_attr o) set_wl_attr
  | WlStyle => attr_field 1 s o (wl_attr o) set_wl_attr
  | WlSymbol => attr_field 2 s o (wl_attr o) set_wl_attr
  | WlSize => attr_field 3 s o (wl_attr o) set_wl_attr
  end.

(* ================= mpt_*_set ================= *)
Definition no_value (s : source) : bool :=     (* the pointer / struct type request answers 0 *)
  match s with SText None _ | SText (Some []) _ => true | _ => false end.
Definition ok_or (r : sres * option bytes) : option (option bytes) :=
  match r with (SOk, v) => Some v | _ => None end.

Definition axis_set (o : axis) (name : option bytes) (s : option source) : sres * axis :=
  match name with
  | None =>
    match s with
    | None => (SFail BadOperation, o)
    | Some (SObj (OAxis f)) => (SOk, f)
    | Some src =>
      if no_value src then (SOk, def_axis)
      else match ok_or (string_pset (ax_title o) src) with
           | Some t => (SOk, set_ax_title t o)
           | None => (SFail BadType, o)
           end
    end
  | Some [] =>
    match s with
    | None => (SOk, def_axis)
    | Some (SObj (OAxis f)) => (SOk, f)
    | Some src => if no_value src then (SOk, def_axis) else (SFail BadType, o)
    end
  | Some n =>
    match axis_field_of n with
    | Some f => axis_set_field f s o
    | None => (SFail BadArgument, o)
    end
  end.

Definition line_set (o : line) (name : option bytes) (s : option source) : sres * line :=
  match name with
  | None =>
    match s with
    | None => (SFail BadOperation, o)
    | Some (SObj (OLine f)) => (SOk, f)
    | Some (SValue (VCol a r g b)) => (SOk, set_li_color (mkcol a r g b) o)
    | Some (SValue (VLat st w sy sz)) => (SOk, set_li_attr (mklattr (Z.of_N st) (Z.of_N w) (Z.of_N sy) (Z.of_N sz)) o)
    | Some src => if no_value src then (SOk, def_line) else (SFail BadType, o)
    end
  | Some [] =>
    match s with
    | None => (SOk, def_line)
    | Some (SObj (OLine f)) => (SOk, f)
    | Some src => if no_value src then (SOk, def_line) else (SFail BadType, o)
    end
  | Some n =>
    match line_field_of n with
    | Some f => line_set_field f s o
    | None => (SFail BadArgument, o)
    end
  end.

Definition text_set (o : text) (name : option bytes) (s : option source) : sres * text :=
  match name with
  | None =>
    match s with
    | None => (SFail BadOperation, o)
    | Some (SObj (OText f)) => (SOk, f)
    | Some src =>
      if no_value src then (SOk, def_text)
      else match ok_or (string_pset (tx_value o) src) with
           | Some t => (SOk, set_tx_value t o)
           | None =>
             match src with
             | SValue (VCol a r g b) => (SOk, set_tx_color (mkcol a r g b) o)
             | _ => (SFail BadType, o)
             end
           end
    end
  | Some [] =>
    match s with
    | None => (SOk, def_text)
    | Some (SObj (OText f)) => (SOk, f)
    | Some src => if no_value src then (SOk, def_text) else (SFail BadType, o)
    end
  | Some n =>
    match text_field_of n with
    | Some f => text_set_field f s o
    | None => (SFail BadArgument, o)
    end
  end.

Definition graph_set (o : graph) (name : option bytes) (s : option source) : sres * graph :=
  match name with
  | None =>
    match s with
    | None => (SFail BadOperation, o)
    | Some (SObj (OGraph f)) => (SOk, f)
    | Some (SValue (VCol a r g b)) => (SOk, set_gr_fg (mkcol a r g b) o)
    | Some src => if no_value src then (SOk, def_graph) else (SFail BadType, o)
    end
  | Some [] =>
    match s with
    | None => (SOk, def_graph)
    | Some (SObj (OGraph f)) => (SOk, f)
    | Some src => if no_value src then (SOk, def_graph) else (SFail BadType, o)
    end
  | Some n =>
    match graph_field_of n with
    | Some f => graph_set_field f s o
    | None => (SFail BadArgument, o)
    end
  end.

Definition world_set (o : world) (name : option bytes) (s : option source) : sres * world :=
  match name with
  | None =>
    match s with
    | None => (SFail BadOperation, o)
    | Some (SObj (OWorld f)) => (SOk, f)
    | Some src =>
      if no_value src then (SOk, def_world)
      else match ok_or (string_pset (wl_alias o) src) with
           | Some t => (SOk, set_wl_alias t o)
           | None =>
             match src with
             | SValue (VCol a r g b) => (SOk, set_wl_color (mkcol a r g b) o)
             | SValue (VLat st w sy sz) => (SOk, set_wl_attr (mklattr (Z.of_N st) (Z.of_N w) (Z.of_N sy) (Z.of_N sz)) o)
             | _ => (SFail BadType, o)
             end
           end
    end
  | Some [] =>
    match s with
    | None => (SOk, def_world)
    | Some (SObj (OWorld f)) => (SOk, f)
    | Some src => if no_value src then (SOk, def_world) else (SFail BadType, o)
    end
  | Some n =>
    match world_field_of n with
    | Some f => world_set_field f s o
    | None => (SFail BadArgument, o)
    end
  end.

Definition obj_set (o : anyobj) (name : option bytes) (s : option source) : sres * anyobj :=
  match o with
  | OAxis x => let '(r, x') := axis_set x name s in (r, OAxis x')
  | OLine x => let '(r, x') := line_set x name s in (r, OLine x')
  | OText x => let '(r, x') := text_set x name s in (r, OText x')
  | OGraph x => let '(r, x') := graph_set x name s in (r, OGraph x')
  | OWorld x => let '(r, x') := world_set x name s in (r, OWorld x')
  end.

(* ================= mpt_*_get: generated read tables over the generated member layout ================= *)
Definition pcol (c : color) : pval := PCol (c_a c) (c_r c) (c_g c) (c_b c).
Definition axis_member (o : axis) (m : bytes) : pval :=
  if eqs m "_title" then PStr (ax_title o) else if eqs m "begin" then PF64 (ax_begin o)
  else if eqs m "end" then PF64 (ax_end o) else if eqs m "tlen" then PF32 (ax_tlen o)
  else if eqs m "exp" then PInt (ax_exp o) else if eqs m "intv" then PInt (ax_intv o)
  else if eqs m "sub" then PInt (ax_sub o) else if eqs m "format" then PInt (ax_format o)
  else if eqs m "dec" then PInt (ax_dec o) else if eqs m "lpos" then PChr (ax_lpos o)
  else if eqs m "tpos" then PChr (ax_tpos o) else PNone.
Definition lattr_member (a : lattr) (m : bytes) : pval :=
  if eqs m "attr.style" then PInt (la_style a) else if eqs m "attr.width" then PInt (la_width a)
  else if eqs m "attr.symbol" then PInt (la_symbol a) else if eqs m "attr.size" then PInt (la_size a) else PNone.
Definition line_member (o : line) (m : bytes) : pval :=
  if eqs m "color" then pcol (li_color o)
  else if eqs m "from.x" then PF32 (li_fx o) else if eqs m "from.y" then PF32 (li_fy o)
  else if eqs m "to.x" then PF32 (li_tx o) else if eqs m "to.y" then PF32 (li_ty o)
  else lattr_member (li_attr o) m.
Definition text_member (o : text) (m : bytes) : pval :=
  if eqs m "_value" then PStr (tx_value o) else if eqs m "_font" then PStr (tx_font o)
  else if eqs m "color" then pcol (tx_color o) else if eqs m "size" then PInt (tx_size o)
  else if eqs m "weight" then PChr (tx_weight o) else if eqs m "style" then PChr (tx_style o)
  else if eqs m "align" then PChr (tx_align o) else if eqs m "pos" then PPt (tx_px o) (tx_py o)
  else if eqs m "pos.x" then PF32 (tx_px o) else if eqs m "pos.y" then PF32 (tx_py o)
  else if eqs m "angle" then PF64 (tx_angle o) else PNone.
Definition graph_member (o : graph) (m : bytes) : pval :=
  if eqs m "_axes" then PStr (gr_axes o) else if eqs m "_worlds" then PStr (gr_worlds o)
  else if eqs m "fg" then pcol (gr_fg o) else if eqs m "bg" then pcol (gr_bg o)
  else if eqs m "pos" then PPt (gr_px o) (gr_py o) else if eqs m "scale" then PPt (gr_sx o) (gr_sy o)
  else if eqs m "grid" then PInt (gr_grid o) else if eqs m "align" then PInt (gr_align o)
  else if eqs m "frame" then PInt (gr_frame o) else if eqs m "clip" then PInt (gr_clip o)
  else if eqs m "lpos" then PChr (gr_lpos o) else PNone.
Definition world_member (o : world) (m : bytes) : pval :=
  if eqs m "_alias" then PStr (wl_alias o) else if eqs m "color" then pcol (wl_color o)
  else if eqs m "cyc" then PInt (wl_cyc o) else lattr_member (wl_attr o) m.

(* value behind the address a table row hands out: the struct member at that offset with that type *)
Definition read_row (members : list mrow) (mv : bytes -> pval) (r : trow) : pval :=
  match tr_off r with
  | None => PNone
  | Some off =>
    match find (fun m => N.eqb (m_off m) off && tcode_eqb (m_type m) (tr_type r)) members with
    | Some m => mv (m_name m)
    | None => PNone
    end
  end.

(* one property as the get interface reports it: name, value type, value, return value
   (negative error magnitude as -e, 0 = equals the default, 1 = differs) *)
Record pent := mkpent { pe_name : bytes; pe_type : tcode; pe_val : pval; pe_ret : Z }.

Definition known_type (t : tcode) : bool := match t with TBadType _ => false | _ => true end.
(* mpt_value_compare of the value with the default's field *)
Definition cmp_ret (t : tcode) (v d : pval) : Z :=
  if known_type t then (if pval_eqb v d then 0 else 1) else - BadType.

Definition row_entry (members : list mrow) (mv dv : bytes -> pval) (r : trow) : pent :=
  let v := read_row members mv r in
  mkpent (tr_name r) (tr_type r) v (cmp_ret (tr_type r) v (read_row members dv r)).

Definition axes_clip : list string := ["" ; "x"; "y"; "xy"; "z"; "xz"; "yz"; "xyz"]%string.

Definition axis_lg (o : axis) : bool := negb (Z.land (ax_format o) LG =? 0).
Definition axis_entry (o : axis) (pos : nat) (r : trow) : pent :=
  let lg := (pos =? 5)%nat && axis_lg o in
  let e := row_entry axis_members (axis_member o) (axis_member def_axis) r in
  mkpent (tr_name r) (if lg then TStr else pe_type e) (if lg then PStr (Some (bs "log")) else pe_val e) (if lg then 1 else pe_ret e).
Definition graph_entry (o : graph) (r : trow) : pent :=
  let txt := eqs (tr_name r) "clip" && (gr_clip o <? 8) in
  let e := row_entry graph_members (graph_member o) (graph_member def_graph) r in
  mkpent (tr_name r) (if txt then TStr else pe_type e)
         (if txt then PStr (Some (bs (nth (Z.to_nat (gr_clip o)) axes_clip ""%string))) else pe_val e)
         (if txt then (if gr_clip o =? gr_clip def_graph then 0 else 1) else pe_ret e).

Fixpoint mapi {A B : Type} (f : nat -> A -> B) (i : nat) (l : list A) : list B :=
  match l with [] => [] | x :: r => f i x :: mapi f (S i) r end.

(* text "x"/"y" by name: return value 'd' (100) iff pos.x equals its default, for both *)
Definition text_xy_entry (o : text) (r : trow) : pent :=
  mkpent (tr_name r) (tr_type r) (read_row text_members (text_member o) r)
         (if N.eqb (tx_px o) (tx_px def_text) then 100 else 0).

(* the listed properties: enumeration by position *)
Definition obj_listed (o : anyobj) : list pent :=
  match o with
  | OAxis x => mapi (axis_entry x) 0 axis_table
  | OLine x => map (row_entry line_members (line_member x) (line_member def_line)) line_table
  | OText x => map (row_entry text_members (text_member x) (text_member def_text)) text_table
  | OGraph x => map (graph_entry x) graph_table
  | OWorld x => map (row_entry world_members (world_member x) (world_member def_world)) world_table
  end.
(* a full dump through the public interface: the listed properties, for a text also x and y by name *)
Definition obj_props (o : anyobj) : list pent :=
  app (obj_listed o) (match o with OText x => map (text_xy_entry x) text_table_named | _ => [] end).

(* ---- property_match.c ---- *)
Fixpoint property_match (m : bytes) (mlen : Z) (l : list bytes) (pos : Z) : Z :=
  match l with
  | [] => - BadValue
  | curr :: rest =>
    if mlen <? 0 then (if caseeq m curr then pos else property_match m mlen rest (pos + 1))
    else
      let n := Z.to_nat mlen in
      if ncaseeq n m curr then
        (if (mlen <=? Z.of_nat (List.length curr)) && existsb (ncaseeq n m) rest then - BadType else pos)
      else property_match m mlen rest (pos + 1)
  end.

(* get by name: entry or negative error *)
Definition obj_get (o : anyobj) (name : bytes) : Z + pent :=
  let sel (tab : list trow) (mlen : Z) (axis_err : bool) : Z + nat :=
    let r := property_match name mlen (map tr_name tab) 0 in
    if r <? 0 then inl (if axis_err then - BadArgument else r) else inr (Z.to_nat r) in
  let pick (es : list pent) (r : Z + nat) : Z + pent :=
    match r with inl e => inl e | inr i => match nth_error es i with Some e => inr e | None => inl (- BadArgument) end end in
  match o with
  | OAxis x => pick (mapi (axis_entry x) 0 axis_table) (sel axis_table 3 true)
  | OLine x => pick (obj_listed o) (sel line_table (-1) false)
  | OText x =>
    match name with
    | [c] =>
      match find (fun r => beq (tr_name r) [c]) text_table_named with
      | Some r => inr (text_xy_entry x r)
      | None => inl (- BadArgument)
      end
    | _ => pick (obj_listed o) (sel text_table (-1) false)
    end
  | OGraph x => pick (obj_listed o) (sel graph_table 2 false)
  | OWorld x => pick (obj_listed o) (sel world_table 3 false)
  end.

(* ================= operations and histories ================= *)
Inductive osrc := XReset | XText (t : option bytes) (o : torc) | XValue (v : tval) | XOther.
Inductive op :=
| OpSet (tgt_b : bool) (name : option bytes) (s : osrc)
| OpGet (tgt_b : bool) (name : bytes)
| OpSp (tgt_b : bool) (flags : Z) (name : option bytes) (s : osrc).

Inductive rtok := RK | RE (e : Z) | RG (p : pent) | RKn (n : Z).

Definition resolve (s : osrc) (other : anyobj) : option source :=
  match s with
  | XReset => None
  | XText t o => Some (SText t o)
  | XValue v => Some (SValue v)
  | XOther => Some (SObj other)
  end.
Definition tok_of (r : sres) : rtok := match r with SOk => RK | SFail e => RE e end.

(* mpt_object_set_property(obj, match, id, val); text values arrive through a convertable that only answers 's' *)
Definition TraverseChange : Z := 16.
Definition TraverseDefault : Z := 32.
Definition TraverseEmpty : Z := 64.
Definition TraverseUnknown : Z := 128.
Definition has (flags bit : Z) : bool := negb (Z.land flags bit =? 0).
Definition set_property_op (o other : anyobj) (flags : Z) (name : option bytes) (s : osrc) : rtok * anyobj :=
  if match name with None => negb (has flags TraverseEmpty) | Some _ => false end then (RKn TraverseEmpty, o)
  else
    let fin (r : sres * anyobj) : rtok * anyobj :=
      match r with
      | (SOk, o') => (RKn 0, o')
      | (SFail e, o') => if (e =? BadArgument) && has flags TraverseUnknown then (RKn TraverseUnknown, o') else (RE e, o')
      end in
    match s with
    | XReset => if has flags TraverseDefault then fin (obj_set o name None) else (RKn TraverseDefault, o)
    | XText t orc => if has flags TraverseChange then fin (obj_set o name (Some (SText t orc))) else (RKn TraverseChange, o)
    | XValue _ => (RE 99, o)
    | XOther => if has flags TraverseChange then fin (obj_set o name (Some (SObj other))) else (RKn TraverseChange, o)
    end.

Definition step (st : anyobj * anyobj) (p : op) : (anyobj * anyobj) * rtok :=
  let '(a, b) := st in
  match p with
  | OpSet false n s => let '(r, a') := obj_set a n (resolve s b) in ((a', b), tok_of r)
  | OpSet true n s => let '(r, b') := obj_set b n (resolve s a) in ((a, b'), tok_of r)
  | OpGet tb n => ((a, b), match obj_get (if tb then b else a) n with inl e => RE (- e) | inr p => RG p end)
  | OpSp false fl n s => let '(r, a') := set_property_op a b fl n s in ((a', b), r)
  | OpSp true fl n s => let '(r, b') := set_property_op b a fl n s in ((a, b'), r)
  end.

Definition out := (rtok * list pent * list pent)%type.
Fixpoint mrun (st : anyobj * anyobj) (ops : list op) : list out :=
  match ops with
  | [] => []
  | p :: r => let '(st', t) := step st p in (t, obj_props (fst st'), obj_props (snd st')) :: mrun st' r
  end.

Definition default_of (kind : N) : anyobj :=
  match kind with
  | 0%N => OAxis def_axis | 1%N => OLine def_line | 2%N => OText def_text | 3%N => OGraph def_graph | _ => OWorld def_world
  end.

(* ================= mpt++ object interface (mpt++/layout.cpp, mpt++/graph.cpp) =================
   layout::graph::axis, layout::line, layout::text, layout::graph, layout::graph::world derive from the C structs;
   object::set_property / object::property hand over to mpt_*_set / mpt_*_get on `this`.  layout::graph::set_property
   additionally refreshes its transformation (_gtr) after an accepted assignment from a source: that is no listed
   property and no struct member of mpt::graph, so the wrapper is the C call on the properties. *)
Definition cxx_set_property (o : anyobj) (name : option bytes) (src : option source) : sres * anyobj :=
  match o with
  | OGraph x =>
    let '(r, x') := graph_set x name src in
    (* ret < 0 || !src: return; else update_transform(); return ret *)
    (r, OGraph x')
  | _ => obj_set o name src
  end.
Definition cxx_property_by_name (o : anyobj) (name : bytes) : Z + pent := obj_get o name.
Definition cxx_property_by_pos (o : anyobj) : list pent := obj_listed o.
(* constructors: axis(AxisFlags type) = mpt_axis_init + format = type & 0x3; world(int c): cyc = c < 0 ? 1 : c;
   the others (and the default arguments: AxisStyleGen = 0, c = 0) are mpt_*_init *)
Definition cxx_new_axis (flags : Z) : anyobj := OAxis (set_ax_format (Z.land flags 3) def_axis).
Definition cxx_new_world (c : Z) : anyobj := OWorld (set_wl_cyc (if c <? 0 then 1 else c) def_world).
Definition cxx_new (kind : N) : anyobj :=
  match kind with 0%N => cxx_new_axis 0 | 4%N => cxx_new_world 0 | k => default_of k end.
(* copy construction / clone (axis(const ::mpt::axis *from) etc.): *this = *from through the C init with template *)
Definition cxx_clone (o : anyobj) : anyobj := o.
(* the object as a generic assignment source: its convert() answers the pointer (line: value) type of its class *)
Definition cxx_source (o : anyobj) : source := SObj o.
