(* C20/LayoutMatch.v — mpt_property_match selects a property iff the (prefix of the) name is unique or exact. *)
Require Import List String Ascii NArith ZArith Bool Lia.
Import ListNotations.
From MptV Require Import C20.LayoutTypes C20.LayoutConv C20.Gen_Layout C20.LayoutModel C20.LayoutSpec C20.LayoutLemmas.
Local Open Scope Z_scope.

(* the test of one table entry: whole name (mlen < 0) or the first mlen characters, without regard to case;
   a name or entry shorter than mlen must then agree completely *)
Definition hit (m : bytes) (mlen : Z) (n : bytes) : bool :=
  if mlen <? 0 then caseeq m n else ncaseeq (Z.to_nat mlen) m n.

(* entry i is selected: it is the first hit and, unless it is shorter than mlen (an exact match), the only
   hit among the entries behind it; for mlen < 0 the first exact match is taken *)
Definition selected (m : bytes) (mlen : Z) (l : list bytes) (i : nat) : Prop :=
  exists pre cur post, l = app pre (cur :: post) /\ List.length pre = i /\ hit m mlen cur = true /\
    forallb (fun n => negb (hit m mlen n)) pre = true /\
    (mlen < 0 \/ Z.of_nat (List.length cur) < mlen \/ existsb (hit m mlen) post = false).

Lemma existsb_hit m mlen rest : (mlen <? 0) = false ->
  existsb (hit m mlen) rest = existsb (ncaseeq (Z.to_nat mlen) m) rest.
Proof. intros N. induction rest as [|a r IH]; cbn; [reflexivity|]. unfold hit at 1. rewrite N, IH. reflexivity. Qed.

Lemma pm_step_hit m mlen cur rest pos : hit m mlen cur = true ->
  property_match m mlen (cur :: rest) pos =
  if mlen <? 0 then pos
  else if (mlen <=? Z.of_nat (List.length cur)) && existsb (hit m mlen) rest then - BadType else pos.
Proof.
  intros H. cbn [property_match]. destruct (mlen <? 0) eqn:N.
  - unfold hit in H. rewrite N in H. rewrite H. reflexivity.
  - rewrite (existsb_hit m mlen rest N). unfold hit in H. rewrite N in H. rewrite H. reflexivity.
Qed.
Lemma pm_step_miss m mlen cur rest pos : hit m mlen cur = false ->
  property_match m mlen (cur :: rest) pos = property_match m mlen rest (pos + 1).
Proof. unfold hit. cbn [property_match]. destruct (mlen <? 0); intros H; rewrite H; reflexivity. Qed.

Lemma pm_range m mlen l pos : 0 <= pos ->
  property_match m mlen l pos < 0 \/ pos <= property_match m mlen l pos.
Proof.
  revert pos. induction l as [|cur rest IH]; intros pos P; [left; cbn; unfold BadValue; lia|].
  destruct (hit m mlen cur) eqn:H.
  - rewrite pm_step_hit by assumption. destruct (mlen <? 0); [right; lia|].
    destruct ((mlen <=? Z.of_nat (List.length cur)) && existsb (hit m mlen) rest); [left; unfold BadType; lia|right; lia].
  - rewrite pm_step_miss by assumption. destruct (IH (pos + 1)); lia.
Qed.

Theorem match_selected m mlen l : forall pos i, 0 <= pos ->
  property_match m mlen l pos = pos + Z.of_nat i <-> selected m mlen l i.
Proof.
  induction l as [|cur rest IH]; intros pos i P.
  - cbn [property_match]. unfold BadValue. split; [lia|].
    intros (pre & c & post & E & _). destruct pre; discriminate.
  - destruct (hit m mlen cur) eqn:H.
    + rewrite pm_step_hit by assumption. split.
      * intros R. destruct (mlen <? 0) eqn:N.
        -- assert (i = 0%nat) by lia. subst. exists [], cur, rest. repeat split; auto. left. apply Z.ltb_lt; auto.
        -- destruct ((mlen <=? Z.of_nat (List.length cur)) && existsb (hit m mlen) rest) eqn:U; [unfold BadType in R; lia|].
           assert (i = 0%nat) by lia. subst. exists [], cur, rest. repeat split; auto.
           apply andb_false_iff in U as [U|U]; [right; left; apply Z.leb_gt; auto | right; right; auto].
      * intros (pre & c & post & E & L & Hc & Hp & Hu).
        destruct pre as [|x pre].
        -- cbn in E. inversion E; subst. cbn [List.length]. destruct (mlen <? 0) eqn:N; [lia|].
           apply Z.ltb_ge in N. destruct Hu as [Hu|[Hu|Hu]]; [lia| |].
           ++ replace (mlen <=? Z.of_nat (List.length c)) with false by (symmetry; apply Z.leb_gt; lia). cbn [andb]. lia.
           ++ rewrite Hu, andb_false_r. lia.
        -- cbn in E. inversion E; subst. cbn [forallb] in Hp. rewrite H in Hp. discriminate.
    + rewrite pm_step_miss by assumption. split.
      * intros R. destruct i as [|i].
        -- destruct (pm_range m mlen rest (pos + 1)); lia.
        -- assert (property_match m mlen rest (pos + 1) = (pos + 1) + Z.of_nat i) as R' by lia.
           apply IH in R'; [|lia]. destruct R' as (pre & c & post & E & L & Hc & Hp & Hu).
           exists (cur :: pre), c, post. subst. repeat split; auto. cbn [forallb]. rewrite H. auto.
      * intros (pre & c & post & E & L & Hc & Hp & Hu).
        destruct pre as [|x pre].
        -- cbn in E. inversion E; subst. congruence.
        -- cbn in E. inversion E; subst. cbn [List.length]. cbn [forallb] in Hp. apply andb_true_iff in Hp as [_ Hp].
           assert (property_match m mlen (app pre (c :: post)) (pos + 1) = (pos + 1) + Z.of_nat (List.length pre)) as R.
           { apply IH; [lia|]. exists pre, c, post. repeat split; auto. }
           lia.
Qed.

(* nothing selected: a refusal *)
Theorem match_refused m mlen l : (forall i, ~ selected m mlen l i) <-> property_match m mlen l 0 < 0.
Proof.
  split.
  - intros N. destruct (pm_range m mlen l 0); [lia|auto|].
    exfalso. apply (N (Z.to_nat (property_match m mlen l 0))). apply (match_selected m mlen l 0); lia.
  - intros R i S. apply (match_selected m mlen l 0) in S; lia.
Qed.

(* the test in plain words: equal first mlen characters after case folding *)
Lemma hit_prefix m mlen n : 0 <= mlen ->
  hit m mlen n = beq (lowers (firstn (Z.to_nat mlen) m)) (lowers (firstn (Z.to_nat mlen) n)).
Proof. intros H. unfold hit. replace (mlen <? 0) with false by (symmetry; apply Z.ltb_ge; lia). apply ncaseeq_firstn. Qed.
Lemma hit_exact m mlen n : mlen < 0 -> hit m mlen n = beq (lowers m) (lowers n).
Proof. intros H. unfold hit. replace (mlen <? 0) with true by (symmetry; apply Z.ltb_lt; lia). apply caseeq_lowers. Qed.

Theorem match_selected0 m mlen l i : property_match m mlen l 0 = Z.of_nat i <-> selected m mlen l i.
Proof. apply (match_selected m mlen l 0 i). apply Z.le_refl. Qed.

(* ---- the specification's matching rule computes the same answer ---- *)
Lemma hit_name m mlen n : hit m mlen n = name_hit m mlen n.
Proof.
  unfold name_hit. destruct (mlen <? 0) eqn:N.
  - apply hit_exact. apply Z.ltb_lt. exact N.
  - apply hit_prefix. apply Z.ltb_ge. exact N.
Qed.

Lemma existsb_ext' {A} (f g : A -> bool) l : (forall a, f a = g a) -> existsb f l = existsb g l.
Proof. intros E. induction l as [|a r IH]; cbn; [reflexivity|]. rewrite E, IH. reflexivity. Qed.

Lemma first_hit_ext f g l i : (forall n, f n = g n) -> first_hit f l i = first_hit g l i.
Proof. intros E. revert i. induction l as [|n r IH]; intros i; cbn; [reflexivity|]. rewrite E, IH. reflexivity. Qed.

Definition pm_answer (m : bytes) (mlen : Z) (pos : Z) (i0 : nat) (r : option (nat * bytes * list bytes)) : Z :=
  match r with
  | None => - BadValue
  | Some (i, n, rest) =>
    if mlen <? 0 then pos + Z.of_nat (i - i0)
    else if (mlen <=? Z.of_nat (List.length n)) && existsb (hit m mlen) rest then - BadType
    else pos + Z.of_nat (i - i0)
  end.

Lemma first_hit_ge f l i0 i n rest : first_hit f l i0 = Some (i, n, rest) -> (i0 <= i)%nat.
Proof.
  revert i0. induction l as [|x r IH]; intros i0; cbn; [discriminate|].
  destruct (f x); [intros E; inversion E; subst; lia|]. intros E. apply IH in E. lia.
Qed.

Lemma pm_first m mlen l : forall pos i0,
  property_match m mlen l pos = pm_answer m mlen pos i0 (first_hit (hit m mlen) l i0).
Proof.
  induction l as [|cur rest IH]; intros pos i0; [reflexivity|].
  cbn [first_hit]. destruct (hit m mlen cur) eqn:H.
  - rewrite pm_step_hit by assumption. unfold pm_answer. rewrite Nat.sub_diag, Z.add_0_r. reflexivity.
  - rewrite pm_step_miss by assumption. rewrite (IH (pos + 1) (S i0)).
    destruct (first_hit (hit m mlen) rest (S i0)) as [[[i n] r]|] eqn:F; [|reflexivity].
    apply first_hit_ge in F. unfold pm_answer.
    replace (pos + 1 + Z.of_nat (i - S i0)) with (pos + Z.of_nat (i - i0)) by lia. reflexivity.
Qed.

(* mpt_property_match against the specification: the selected index, or a refusal *)
Theorem match_spec m mlen l :
  match spec_match m mlen l with
  | Some i => property_match m mlen l 0 = Z.of_nat i
  | None => property_match m mlen l 0 < 0
  end.
Proof.
  rewrite (pm_first m mlen l 0 0). unfold spec_match.
  rewrite (first_hit_ext (name_hit m mlen) (hit m mlen)) by (intros n; symmetry; apply hit_name).
  destruct (first_hit (hit m mlen) l 0) as [[[i n] r]|]; cbn [pm_answer]; [|unfold BadValue; lia].
  rewrite (existsb_ext' (name_hit m mlen) (hit m mlen)) by (intros a; symmetry; apply hit_name).
  rewrite Nat.sub_0_r, Z.add_0_l.
  destruct (mlen <? 0); [reflexivity|].
  destruct ((mlen <=? Z.of_nat (List.length n)) && existsb (hit m mlen) r); [unfold BadType; lia|reflexivity].
Qed.

Lemma spec_match_bound m mlen l i : spec_match m mlen l = Some i -> (i < List.length l)%nat.
Proof.
  unfold spec_match.
  assert (forall f l i0 i n r, first_hit f l i0 = Some (i, n, r) -> (i < i0 + List.length l)%nat) as B.
  { intros f l0. induction l0 as [|x r0 IH]; intros i0 j n r; cbn; [discriminate|].
    destruct (f x); [intros E; inversion E; subst; lia|]. intros E. apply IH in E. lia. }
  destruct (first_hit (name_hit m mlen) l 0) as [[[j n] r]|] eqn:F; [|discriminate].
  apply B in F. destruct (mlen <? 0); [intros E; inversion E; subst; lia|].
  destruct ((mlen <=? Z.of_nat (List.length n)) && existsb (name_hit m mlen) r); [discriminate|].
  intros E; inversion E; subst; lia.
Qed.
