(* C20/LayoutColour.v — colour texts: the strict grammar is accepted with its value, an accepted colour
   survives printing (mpt++/color.cpp) and parsing again. *)
Require Import List String Ascii NArith ZArith Bool Lia.
Import ListNotations.
From MptV Require Import C20.LayoutTypes C20.LayoutConv C20.Gen_Layout C20.LayoutModel C20.LayoutSpec C20.LayoutLemmas.
Local Open Scope Z_scope.

(* ---- one two-digit hex group: finite sweep over all character pairs below 128 ---- *)
Definition pair_check (c0 c1 : N) : bool :=
  match hexval c0, hexval c1 with
  | Some a, Some b =>
    match conv_uint 255 16 [c0; c1] with
    | CVal v => (v =? Z.of_N (16 * a + b)) && negb (N.eqb c0 0) && negb (N.eqb c1 0) && (a <? 16)%N && (b <? 16)%N
    | _ => false
    end
  | _, _ => true
  end.
Definition codes128 : list N := map N.of_nat (seq 0 128).

Lemma pair_sweep : forallb (fun c0 => forallb (pair_check c0) codes128) codes128 = true.
Proof. vm_compute. reflexivity. Qed.

Lemma hexval_small c a : hexval c = Some a -> (c < 128)%N.
Proof.
  unfold hexval. intros H.
  destruct ((48 <=? c)%N && (c <=? 57)%N) eqn:A.
  - apply andb_true_iff in A as [_ A]. apply N.leb_le in A. lia.
  - destruct ((97 <=? c)%N && (c <=? 102)%N) eqn:B.
    + apply andb_true_iff in B as [_ B]. apply N.leb_le in B. lia.
    + destruct ((65 <=? c)%N && (c <=? 70)%N) eqn:C; [|discriminate].
      apply andb_true_iff in C as [_ C]. apply N.leb_le in C. lia.
Qed.
Lemma in_codes128 c : (c < 128)%N -> In c codes128.
Proof.
  intros H. unfold codes128. apply in_map_iff. exists (N.to_nat c). split; [apply N2Nat.id|].
  apply in_seq. lia.
Qed.

Lemma pair_ok c0 c1 a b : hexval c0 = Some a -> hexval c1 = Some b ->
  conv_uint 255 16 [c0; c1] = CVal (Z.of_N (16 * a + b)) /\ N.eqb c0 0 = false /\ N.eqb c1 0 = false
  /\ (a < 16)%N /\ (b < 16)%N.
Proof.
  intros H0 H1.
  pose proof pair_sweep as S. rewrite forallb_forall in S.
  specialize (S c0 (in_codes128 _ (hexval_small _ _ H0))). rewrite forallb_forall in S.
  specialize (S c1 (in_codes128 _ (hexval_small _ _ H1))).
  unfold pair_check in S. rewrite H0, H1 in S.
  destruct (conv_uint 255 16 [c0; c1]); try discriminate.
  repeat (apply andb_true_iff in S as [S ?]).
  apply Z.eqb_eq in S. subst v.
  repeat split; auto; try (apply negb_true_iff; assumption); apply N.ltb_lt; assumption.
Qed.

(* ---- the strict grammar is accepted with its value ---- *)
Ltac step_pair :=
  cbn [html_pairs];
  match goal with
  | H0 : hexval ?c0 = Some ?a, H1 : hexval ?c1 = Some ?b |- context [conv_uint 255 16 [?c0; ?c1]] =>
    let P := fresh "P" in let Q0 := fresh "Q" in let Q1 := fresh "Q" in
    destruct (pair_ok c0 c1 a b H0 H1) as (P & Q0 & Q1 & ? & ?);
    rewrite ?Q0, ?Q1, P; cbn [firstn skipn app]; clear P H0 H1
  end.

Lemma to_of (n : N) : Z.to_N (Z.of_N n) = n.
Proof. apply N2Z.id. Qed.

Lemma strict_hash r a rr g b : strict_hex r = Some (a, rr, g, b) ->
  color_html r = Some (mkcol a rr g b).
Proof.
  unfold strict_hex, hexpair, color_html.
  destruct r as [|r1 [|r2 r]]; try discriminate.
  destruct r as [|g1 [|g2 r]]; try discriminate.
  { destruct (hexval r1) eqn:H1; [|discriminate]. destruct (hexval r2) eqn:H2; [|discriminate].
    intros E; inversion E; subst. step_pair. cbn [html_pairs]. rewrite to_of. reflexivity. }
  destruct r as [|b1 [|b2 r]]; try discriminate.
  { destruct (hexval r1) eqn:H1; [|discriminate]. destruct (hexval r2) eqn:H2; [|discriminate].
    destruct (hexval g1) eqn:H3; [|discriminate]. destruct (hexval g2) eqn:H4; [|discriminate].
    intros E; inversion E; subst. do 2 step_pair. cbn [html_pairs]. rewrite !to_of. reflexivity. }
  destruct r as [|a1 [|a2 r]]; try discriminate.
  { destruct (hexval r1) eqn:H1; [|discriminate]. destruct (hexval r2) eqn:H2; [|discriminate].
    destruct (hexval g1) eqn:H3; [|discriminate]. destruct (hexval g2) eqn:H4; [|discriminate].
    destruct (hexval b1) eqn:H5; [|discriminate]. destruct (hexval b2) eqn:H6; [|discriminate].
    intros E; inversion E; subst. do 3 step_pair. cbn [html_pairs]. rewrite !to_of. reflexivity. }
  destruct r as [|x r]; try discriminate.
  destruct (hexval r1) eqn:H1; [|discriminate]. destruct (hexval r2) eqn:H2; [|discriminate].
  destruct (hexval g1) eqn:H3; [|discriminate]. destruct (hexval g2) eqn:H4; [|discriminate].
  destruct (hexval b1) eqn:H5; [|discriminate]. destruct (hexval b2) eqn:H6; [|discriminate].
  destruct (hexval a1) eqn:H7; [|discriminate]. destruct (hexval a2) eqn:H8; [|discriminate].
  intros E; inversion E; subst. do 4 step_pair. cbn [html_pairs]. rewrite !to_of. reflexivity.
Qed.

(* ---- the eight names ---- *)
Lemma map_lower_firstn n t : map lower (firstn n t) = firstn n (lowers t).
Proof. unfold lowers. symmetry. apply firstn_map. Qed.

Lemma skipn_len_nil (t lit : bytes) : lowers t = lit -> skipn (List.length lit) t = [].
Proof. intros H. apply skipn_all2. rewrite <- H. unfold lowers. rewrite map_length. lia. Qed.

Lemma strict_name_ok t a r g b :
  strict_name strict_names (lowers t) = Some (a, r, g, b) -> color_by_name color_names t = Some (mkcol a r g b).
Proof.
  unfold strict_names, strict_name.
  repeat match goal with
  | |- (if beq (lowers t) ?lit then _ else _) = _ -> _ =>
    destruct (beq (lowers t) lit) eqn:E;
    [ apply beq_eq in E; intros R; inversion R; subst; clear R;
      unfold color_names, color_by_name;
      rewrite !ncaseeq_firstn, !map_lower_firstn, E;
      repeat match goal with |- context [skipn ?k t] =>
        first [ rewrite (skipn_len_nil t _ E) | fail 1 ] end;
      try reflexivity
    | clear E ]
  end.
  all: try discriminate.
Qed.

Lemma strict_parse t a r g b : spec_colour_strict t = Some (a, r, g, b) ->
  color_parse (Some t) = Some (mkcol a r g b).
Proof.
  unfold spec_colour_strict, color_parse. destruct t as [|c t]; [discriminate|].
  destruct (N.eqb c 35); [apply strict_hash | apply strict_name_ok].
Qed.

(* ---- print and parse again ---- *)
Definition bounded (c : color) : Prop := (c_a c < 256 /\ c_r c < 256 /\ c_g c < 256 /\ c_b c < 256)%N.

Lemma sweep16 : forallb (fun n => match hexval (hexdig n) with Some m => N.eqb m n | None => false end)
                        (map N.of_nat (seq 0 16)) = true.
Proof. vm_compute. reflexivity. Qed.
Lemma hexval_hexdig n : (n < 16)%N -> hexval (hexdig n) = Some n.
Proof.
  intros H. pose proof sweep16 as S. rewrite forallb_forall in S.
  assert (In n (map N.of_nat (seq 0 16))) as I.
  { apply in_map_iff. exists (N.to_nat n). split; [apply N2Nat.id|]. apply in_seq. lia. }
  specialize (S n I). destruct (hexval (hexdig n)); [|discriminate]. apply N.eqb_eq in S. congruence.
Qed.
Lemma hexpair_hex2 v : (v < 256)%N -> hexpair (hexdig (v / 16)) (hexdig (v mod 16)) = Some v.
Proof.
  intros H. unfold hexpair.
  assert (v / 16 < 16)%N by (apply N.div_lt_upper_bound; lia).
  assert (v mod 16 < 16)%N by (apply N.mod_lt; lia).
  rewrite !hexval_hexdig by assumption. f_equal. symmetry. apply N.div_mod. lia.
Qed.

Lemma strict_print c : bounded c ->
  spec_colour_strict (color_print c) = Some (c_a c, c_r c, c_g c, c_b c).
Proof.
  intros (A & R & G & B). unfold color_print, spec_colour_strict. cbn [N.eqb Pos.eqb].
  destruct (N.eqb (c_a c) 255) eqn:E; unfold hex2; cbn [app strict_hex].
  - rewrite !hexpair_hex2 by assumption. apply N.eqb_eq in E. rewrite E. reflexivity.
  - rewrite !hexpair_hex2 by assumption. reflexivity.
Qed.

Theorem print_parse c : bounded c -> color_parse (Some (color_print c)) = Some c.
Proof.
  intros H. rewrite (strict_parse _ _ _ _ _ (strict_print c H)). destruct c; reflexivity.
Qed.

(* an accepted text yields byte components *)
Lemma conv_uint_le maxv base t v : conv_uint maxv base t = CVal v -> v <= maxv.
Proof.
  unfold conv_uint. destruct t; [discriminate|].
  destruct (numeral base (n :: t)) as [[[neg m] k]|]; [|destruct (all_space (n :: t)); discriminate].
  destruct (18446744073709551615 <? m); [discriminate|].
  destruct (neg && negb (m =? 0)); [discriminate|].
  destruct (maxv <? m) eqn:E; [discriminate|]. intros H; inversion H; subst. apply Z.ltb_ge in E. lia.
Qed.

Definition all_bytes (l : list N) : Prop := Forall (fun x => (x < 256)%N) l.
Lemma Forall_firstn' {A} (P : A -> Prop) n l : Forall P l -> Forall P (firstn n l).
Proof. revert l; induction n; intros l H; cbn; [constructor|]. destruct l; [constructor|]. inversion H; subst. constructor; auto. Qed.
Lemma Forall_skipn' {A} (P : A -> Prop) n l : Forall P l -> Forall P (skipn n l).
Proof. revert l; induction n; intros l H; cbn; auto. destruct l; [constructor|]. inversion H; subst. auto. Qed.

Lemma upd_bytes col i v : all_bytes col -> (v < 256)%N -> all_bytes (firstn i col ++ [v] ++ skipn (S i) col).
Proof.
  intros H Hv. unfold all_bytes in *. apply Forall_app. split; [apply Forall_firstn'; auto|].
  apply Forall_app. split; [repeat constructor; auto | apply Forall_skipn'; auto].
Qed.

Lemma html_pairs_bytes fuel txt col i res : all_bytes col -> html_pairs fuel txt col i = Some res -> all_bytes res.
Proof.
  revert txt col i. induction fuel; intros txt col i H; cbn [html_pairs].
  - intros E; inversion E; subst; auto.
  - destruct txt as [|c0 rest]; [intros E; inversion E; subst; auto|].
    destruct (N.eqb c0 0); [intros E; inversion E; subst; auto|].
    destruct rest as [|c1 rest']; [discriminate|].
    destruct (N.eqb c1 0); [discriminate|].
    destruct (conv_uint 255 16 [c0; c1]) eqn:C; try discriminate; try (apply IHfuel; assumption).
    apply IHfuel. apply upd_bytes; auto.
    apply conv_uint_le in C. lia.
Qed.

Lemma color_html_bounded r c : color_html r = Some c -> bounded c.
Proof.
  unfold color_html. destruct (html_pairs 4 r [0; 0; 0; 255]%N 0) as [res|] eqn:E; [|discriminate].
  apply html_pairs_bytes in E; [|repeat constructor; reflexivity].
  destruct res as [|x0 [|x1 [|x2 [|x3 [|x4 res]]]]]; try discriminate.
  intros H; inversion H; subst. unfold bounded; cbn.
  inversion E as [|? ? A0 E1]; subst. inversion E1 as [|? ? A1 E2]; subst.
  inversion E2 as [|? ? A2 E3]; subst. inversion E3 as [|? ? A3 E4]; subst. auto.
Qed.

Lemma color_by_name_in tab t c : color_by_name tab t = Some c -> In c (map snd tab).
Proof.
  induction tab as [|[n x] tab]; cbn; [discriminate|].
  destruct (ncaseeq (List.length n) n t && _); [intros E; inversion E; subst; auto | auto].
Qed.

Lemma color_parse_bounded t c : color_parse t = Some c -> bounded c.
Proof.
  unfold color_parse. destruct t as [[|x r]|].
  - intros E; inversion E; subst. unfold bounded; cbn; lia.
  - destruct (N.eqb x 35); [apply color_html_bounded|].
    intros E. apply color_by_name_in in E. cbn in E.
    repeat (destruct E as [E|E]; [subst; unfold bounded; cbn; lia|]). contradiction.
  - intros E; inversion E; subst. unfold bounded; cbn; lia.
Qed.

(* colour_print_parse: an accepted colour text denotes the same colour when printed and parsed again *)
Theorem accepted_print_parse t c : color_parse t = Some c -> color_parse (Some (color_print c)) = Some c.
Proof. intros H. apply print_parse. eapply color_parse_bounded; eauto. Qed.

(* ---- the setter against the specification ---- *)
Definition col_apply (cur : color) (s : source) : bool * color :=
  match den_col s with
  | DVal (PCol a r g b) => (true, mkcol a r g b)
  | DKeep => (true, cur)
  | _ => (false, cur)
  end.

Lemma pcol_eta c : mkcol (c_a c) (c_r c) (c_g c) (c_b c) = c.
Proof. destruct c; reflexivity. Qed.

Lemma parse_or_strict cur t :
  match (match spec_colour_strict t with
         | Some (a, r, g, b) => DVal (PCol a r g b)
         | None => match color_parse (Some t) with Some c => DVal (pcol c) | None => DRefuse end
         end) with
  | DVal (PCol a r g b) => (true, mkcol a r g b)
  | DKeep => (true, cur)
  | _ => (false, cur)
  end = match color_parse (Some t) with Some c => (true, c) | None => (false, cur) end.
Proof.
  destruct (spec_colour_strict t) as [[[[a r] g] b]|] eqn:E.
  - pose proof (strict_parse _ _ _ _ _ E) as P. unfold bytes in *. rewrite P. reflexivity.
  - destruct (color_parse (Some t)) as [c|]; [|reflexivity]. unfold pcol. rewrite pcol_eta. reflexivity.
Qed.

Lemma color_pset_spec cur s : (sok (fst (color_pset cur s)), snd (color_pset cur s)) = col_apply cur s.
Proof.
  unfold col_apply. destruct s as [t o|v|x].
  - destruct t as [[|c t]|]; try reflexivity.
    unfold den_col. rewrite parse_or_strict. unfold color_pset, src_str. unfold bytes in *.
    destruct (color_parse (Some (c :: t))); reflexivity.
  - destruct v; try reflexivity.
    destruct s as [[|c t]|]; try reflexivity.
    unfold den_col. rewrite parse_or_strict. unfold color_pset, src_str. unfold bytes in *.
    destruct (color_parse (Some (c :: t))); reflexivity.
  - reflexivity.
Qed.
