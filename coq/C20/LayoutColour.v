(* C20/LayoutColour.v — colour texts: the strict grammar is accepted with its value, an accepted colour
   survives printing (mpt++/color.cpp) and parsing again. *)
Require Import List String Ascii NArith ZArith Bool Lia.
Import ListNotations.
From MptV Require Import C20.LayoutTypes C20.LayoutConv C20.Gen_Layout C20.LayoutModel C20.LayoutSpec C20.LayoutLemmas.
Local Open Scope Z_scope.

(* ---- one two-digit hex group: finite sweep over all character pairs below 128 ---- *)
Definition pair_check (c0 c1 : N) : bool :=
  match hexval c0, hexval c1 with
  | Some a, Some b =>
    match conv_uint 255 16 [c0; c1] with
    | CVal v => (v =? Z.of_N (16 * a + b)) && negb (N.eqb c0 0) && negb (N.eqb c1 0) && (a <? 16)%N && (b <? 16)%N
    | _ => false
    end
  | _, _ => true
  end.
Definition codes128 : list N := map N.of_nat (seq 0 128).

Lemma pair_sweep : forallb (fun c0 => forallb (pair_check c0) codes128) codes128 = true.
Proof. vm_compute. reflexivity. Qed.

Lemma hexval_small c a : hexval c = Some a -> (c < 128)%N.
Proof.
  unfold hexval. intros H.
  destruct ((48 <=? c)%N && (c <=? 57)%N) eqn:A.
  - apply andb_true_iff in A as [_ A]. apply N.leb_le in A. lia.
  - destruct ((97 <=? c)%N && (c <=? 102)%N) eqn:B.
    + apply andb_true_iff in B as [_ B]. apply N.leb_le in B. lia.
    + destruct ((65 <=? c)%N && (c <=? 70)%N) eqn:C; [|discriminate].
      apply andb_true_iff in C as [_ C]. apply N.leb_le in C. lia.
Qed.
Lemma in_codes128 c : (c < 128)%N -> In c codes128.
Proof.
  intros H. unfold codes128. apply in_map_iff. exists (N.to_nat c). split; [apply N2Nat.id|].
  apply in_seq. lia.
Qed.

Lemma pair_ok c0 c1 a b : hexval c0 = Some a -> hexval c1 = Some b ->
  conv_uint 255 16 [c0; c1] = CVal (Z.of_N (16 * a + b)) /\ N.eqb c0 0 = false /\ N.eqb c1 0 = false
  /\ (a < 16)%N /\ (b < 16)%N.
Proof.
  intros H0 H1.
  pose proof pair_sweep as S. rewrite forallb_forall in S.
  specialize (S c0 (in_codes128 _ (hexval_small _ _ H0))). rewrite forallb_forall in S.
  specialize (S c1 (in_codes128 _ (hexval_small _ _ H1))).
  unfold pair_check in S. rewrite H0, H1 in S.
  destruct (conv_uint 255 16 [c0; c1]); try discriminate.
  repeat (apply andb_true_iff in S as [S ?]).
  apply Z.eqb_eq in S. subst v.
  repeat split; auto; try (apply negb_true_iff; assumption); apply N.ltb_lt; assumption.
Qed.

(* ---- the strict grammar is accepted with its value ---- *)
Ltac step_pair :=
  cbn [html_pairs];
  match goal with
  | H0 : hexval ?c0 = Some ?a, H1 : hexval ?c1 = Some ?b |- context [conv_uint 255 16 [?c0; ?c1]] =>
    let P := fresh "P" in let Q0 := fresh "Q" in let Q1 := fresh "Q" in
    destruct (pair_ok c0 c1 a b H0 H1) as (P & Q0 & Q1 & ? & ?);
    rewrite ?Q0, ?Q1, P; cbn [firstn skipn app]; clear P H0 H1
  end.

Lemma to_of (n : N) : Z.to_N (Z.of_N n) = n.
Proof. apply N2Z.id. Qed.

Lemma strict_hash r a rr g b : spec_colour_strict (35%N :: r) = Some (a, rr, g, b) ->
  color_html r = Some (mkcol a rr g b).
Proof.
  unfold spec_colour_strict, color_html.
  destruct r as [|r1 [|r2 r]]; try discriminate.
  destruct r as [|g1 [|g2 r]]; try discriminate.
  { destruct (hexval r1) eqn:H1; [|discriminate]. destruct (hexval r2) eqn:H2; [|discriminate].
    intros E; inversion E; subst. step_pair. cbn [html_pairs]. rewrite to_of. reflexivity. }
  destruct r as [|b1 [|b2 r]]; try discriminate.
  { destruct (hexval r1) eqn:H1; [|discriminate]. destruct (hexval r2) eqn:H2; [|discriminate].
    destruct (hexval g1) eqn:H3; [|discriminate]. destruct (hexval g2) eqn:H4; [|discriminate].
    intros E; inversion E; subst. do 2 step_pair. cbn [html_pairs]. rewrite !to_of. reflexivity. }
  destruct r as [|a1 [|a2 r]]; try discriminate.
  { destruct (hexval r1) eqn:H1; [|discriminate]. destruct (hexval r2) eqn:H2; [|discriminate].
    destruct (hexval g1) eqn:H3; [|discriminate]. destruct (hexval g2) eqn:H4; [|discriminate].
    destruct (hexval b1) eqn:H5; [|discriminate]. destruct (hexval b2) eqn:H6; [|discriminate].
    intros E; inversion E; subst. do 3 step_pair. cbn [html_pairs]. rewrite !to_of. reflexivity. }
  destruct r as [|x r]; try discriminate.
  destruct (hexval r1) eqn:H1; [|discriminate]. destruct (hexval r2) eqn:H2; [|discriminate].
  destruct (hexval g1) eqn:H3; [|discriminate]. destruct (hexval g2) eqn:H4; [|discriminate].
  destruct (hexval b1) eqn:H5; [|discriminate]. destruct (hexval b2) eqn:H6; [|discriminate].
  destruct (hexval a1) eqn:H7; [|discriminate]. destruct (hexval a2) eqn:H8; [|discriminate].
  intros E; inversion E; subst. do 4 step_pair. cbn [html_pairs]. rewrite !to_of. reflexivity.
Qed.
