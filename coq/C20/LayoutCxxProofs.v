(* C20/LayoutCxxProofs.v — the mpt++-only operations against their specification: every step of the mpt++ harness
   language acts on the listed properties as LayoutCxxSpec says; constructors meet the invariant; bind() takes the
   items the "axes" / "worlds" properties name; class layout. *)
Require Import List String Ascii NArith ZArith Bool Lia.
Import ListNotations.
From MptV Require Import C20.LayoutTypes C20.LayoutConv C20.Gen_Layout C20.LayoutModel C20.LayoutSpec
  C20.LayoutLemmas C20.LayoutAbs C20.LayoutFields C20.LayoutRefineAxis C20.LayoutRefineGraph C20.LayoutRefine
  C20.LayoutSetProp C20.LayoutHistory C20.LayoutCxx C20.LayoutCxxModel C20.LayoutCxxSpec C20.LayoutCopy.
Local Open Scope Z_scope.

(* ---- constructors with arguments ---- *)
Lemma inv_construct k arg : inv (cxx_construct k arg).
Proof.
  unfold cxx_construct. destruct arg as [z|]; [|apply inv_cxx_new].
  destruct (N.eqb k 0); [apply inv_cxx_axis|]. destruct (N.eqb k 4); [exact Logic.I|apply inv_cxx_new].
Qed.
(* the axis flags argument only selects the axis style, the world argument only the cycle count *)
Lemma construct_axis_props f : abs (cxx_new_axis f) = defaults KAxis.
Proof.
  unfold cxx_new_axis. rewrite abs_axis. unfold intv_val, axis_lg. cbn [ax_format set_ax_format].
  rewrite land3_no_lg. reflexivity.
Qed.
Lemma construct_world_props c :
  abs (cxx_new_world c) = aput (defaults KWorld) (bs "cycles") (PInt (if c <? 0 then 1 else c)).
Proof. reflexivity. Qed.

(* ---- clone, struct-level copy, direct setters ---- *)
Lemma cset_refines o w t r o' : wf_text t -> cxx_cset o w t = Some (r, o') ->
  exists p, cset_prop (kind_of o) w = Some p /\ abs o' = aput (abs o) p (PStr (nonempty t)) /\ r = true.
Proof.
  intros W H.
  assert (string_set t None = nonempty t) as S.
  { destruct t as [t|]; [|reflexivity]. apply string_set_strlen. exact W. }
  unfold cxx_cset in H. rewrite S in H.
  destruct o as [x|x|x|x|x], w; try discriminate H; inversion H; subst; cbn [kind_of cset_prop]; eexists; split; try reflexivity;
    split; try reflexivity.
Qed.

(* ---- an mpt++ object as value of a named property ---- *)
Lemma named_other_refines o other c n :
  same_kind o other -> inv o ->
  sset (kind_of o) (abs o) (abs other) (Some (c :: n)) (xs_named_other (kind_of o) (abs other)) =
  (sok (fst (obj_set o (Some (c :: n)) (Some (cxx_named_source other)))),
   abs (snd (obj_set o (Some (c :: n)) (Some (cxx_named_source other))))).
Proof.
  intros K I. destruct other as [y|y|y|y|y]; unfold same_kind in K; cbn [kind_of] in K; rewrite K;
    cbn [cxx_named_source xs_named_other colour_prop].
  - rewrite <- K. exact (set_refines o (OAxis y) (Some (c :: n)) XOther K Logic.I I).
  - rewrite <- K. exact (set_refines o (OLine y) (Some (c :: n)) XOther K Logic.I I).
  - change (aget (abs (OText y)) (bs "color")) with (Some (PCol (c_a (tx_color y)) (c_r (tx_color y)) (c_g (tx_color y)) (c_b (tx_color y)))).
    rewrite <- K.
    exact (set_refines o (OText y) (Some (c :: n))
             (XValue (VCol (c_a (tx_color y)) (c_r (tx_color y)) (c_g (tx_color y)) (c_b (tx_color y)))) K Logic.I I).
  - change (aget (abs (OGraph y)) (bs "foreground")) with (Some (PCol (c_a (gr_fg y)) (c_r (gr_fg y)) (c_g (gr_fg y)) (c_b (gr_fg y)))).
    rewrite <- K.
    exact (set_refines o (OGraph y) (Some (c :: n))
             (XValue (VCol (c_a (gr_fg y)) (c_r (gr_fg y)) (c_g (gr_fg y)) (c_b (gr_fg y)))) K Logic.I I).
  - change (aget (abs (OWorld y)) (bs "color")) with (Some (PCol (c_a (wl_color y)) (c_r (wl_color y)) (c_g (wl_color y)) (c_b (wl_color y)))).
    rewrite <- K.
    exact (set_refines o (OWorld y) (Some (c :: n))
             (XValue (VCol (c_a (wl_color y)) (c_r (wl_color y)) (c_g (wl_color y)) (c_b (wl_color y)))) K Logic.I I).
Qed.

(* convert() and the graph's item handling leave the objects as they are *)
Definition pure_op (p : xop) : Prop :=
  match p with
  | XConv _ _ | XGadd _ _ _ | XGitem _ _ _ _ _ _ | XGbind _ | XGtr _ | XClone _ | XLreset _
  | XGbindl _ | XGbindo _ | XGview _ | XGcyc _ _ | XGscyc _ _ | XTot _ | XPinfo _ _ => True
  | _ => False
  end.
Lemma xstep_pure st p : pure_op p ->
  xa (fst (xstep st p)) = xa st /\ xb (fst (xstep st p)) = xb st.
Proof.
  intros H. destruct p; try contradiction; cbn [xstep].
  - destruct tb; cbn; auto.
  - destruct (cxx_convert (if tb then xb st else xa st) q); cbn; auto.
  - cbn; auto.
  - destruct tb; [destruct (xb st) eqn:E|destruct (xa st) eqn:E]; cbn; auto; destruct isaxis; cbn; rewrite ?E; auto.
  - destruct tb; [destruct (xb st) eqn:E|destruct (xa st) eqn:E]; cbn; auto; destruct (create_item ty); cbn; rewrite ?E; auto.
  - destruct tb; [destruct (xb st) eqn:E|destruct (xa st) eqn:E]; cbn; auto;
      match goal with |- context [graph_bind ?g ?x] => destruct (graph_bind g x) end; cbn; rewrite ?E; auto.
  - destruct tb; [destruct (xb st) eqn:E|destruct (xa st) eqn:E]; cbn; rewrite ?E; auto.
  - destruct tb; [destruct (xb st) eqn:E|destruct (xa st) eqn:E]; cbn; auto;
      match goal with |- context [graph_bind ?g ?x] => destruct (graph_bind g x) end; cbn; rewrite ?E; auto.
  - destruct tb; [destruct (xb st) eqn:E|destruct (xa st) eqn:E]; cbn; auto;
      match goal with |- context [graph_bind_rel ?g ?x ?c] => destruct (graph_bind_rel g x c) end; cbn; rewrite ?E; auto.
  - destruct tb; [destruct (xb st) eqn:E|destruct (xa st) eqn:E]; cbn; auto.
  - destruct tb; [destruct (xb st) eqn:E|destruct (xa st) eqn:E]; cbn; auto;
      match goal with |- context [cyc_index ?n ?q] => destruct (cyc_index n q) end; cbn; auto;
      match goal with |- context [nth ?i ?l None] => destruct (nth i l None) end; cbn; rewrite ?E; auto.
  - destruct tb; [destruct (xb st) eqn:E|destruct (xa st) eqn:E]; cbn; auto;
      match goal with |- context [cyc_index ?n ?q] => destruct (cyc_index n q) end; cbn; rewrite ?E; auto.
  - cbn; auto.
  - cbn; auto.
Qed.

(* ---- layout::graph::bind ---- *)
(* a failed bind (an item named by "axes" / "worlds" is missing, here or in a graph among the items) restores the
   bound lists; with any relation (bind(0, ..): the own items, gbindo: the other graph's items) *)
Lemma bind_failure_rel g x chain r x' : graph_bind_rel g x chain = (r, x') -> r < 0 -> x' = x.
Proof.
  unfold graph_bind_rel. intros H N.
  repeat match type of H with context [match ?e with _ => _ end] => destruct e end; inversion H; subst; auto; lia.
Qed.
Lemma bind_failure g x r x' : graph_bind g x = (r, x') -> r < 0 -> x' = x.
Proof. apply bind_failure_rel. Qed.
Lemma bind_names_fst {A} (find : bytes -> option A) ws l : bind_names find ws = Some l ->
  map fst l = map (fun w => Some (last_seg w)) ws.
Proof.
  revert l. induction ws as [|w r IH]; intros l; cbn [bind_names]; [intros H; inversion H; reflexivity|].
  destruct (find w); [|discriminate]. destruct (bind_names find r) as [l0|] eqn:E; [|discriminate].
  intros H; inversion H; subst. cbn. rewrite (IH l0 eq_refl). reflexivity.
Qed.
Lemma bind_names_found {A} (find : bytes -> option A) ws l : bind_names find ws = Some l ->
  Forall (fun nv => exists w, fst nv = Some (last_seg w) /\ find w = Some (snd nv)) l.
Proof.
  revert l. induction ws as [|w r IH]; intros l; cbn [bind_names]; [intros H; inversion H; constructor|].
  destruct (find w) eqn:F; [|discriminate]. destruct (bind_names find r) eqn:E; [|discriminate].
  intros H; inversion H; subst. constructor; [exists w; auto|apply IH; reflexivity].
Qed.
(* a successful bind with an "axes" name list binds exactly the named axis items, in the order of the list, each
   under its name (the part behind a ':') and with the properties of the item the relation finds *)
Theorem bind_axes_named_rel g x chain x' names : graph_bind_rel g x chain = (1, x') -> gr_axes g = Some names ->
  map fst (gx_axes x') = map (fun w => Some (last_seg w)) (words names) /\
  Forall (fun nv => exists w, fst nv = Some (last_seg w) /\ find_rel find_axis chain w = Some (snd nv)) (gx_axes x').
Proof.
  unfold graph_bind_rel. intros H A. rewrite A in H.
  destruct (bind_names (find_rel find_axis chain) (words names)) as [al|] eqn:E; [|inversion H].
  destruct (match gr_worlds g with None => Some (all_worlds (gx_items x)) | Some n => bind_names (find_rel find_world chain) (words n) end);
    [|inversion H].
  destruct (forallb _ (gx_items x)); inversion H; subst; cbn [gx_axes].
  split; [eapply bind_names_fst; eauto | eapply bind_names_found; eauto].
Qed.
Theorem bind_axes_named g x x' names : graph_bind g x = (1, x') -> gr_axes g = Some names ->
  map fst (gx_axes x') = map (fun w => Some (last_seg w)) (words names) /\
  Forall (fun nv => exists w, fst nv = Some (last_seg w) /\ find_rel find_axis [gx_items x] w = Some (snd nv)) (gx_axes x').
Proof. apply bind_axes_named_rel. Qed.
(* a name without '.' and ':' is looked up as it is and bound under itself *)
Lemma plain_name w : existsb (N.eqb 46) w = false -> existsb (N.eqb 58) w = false -> find_key w = Some w /\ last_seg w = w.
Proof.
  intros D C. split.
  - unfold find_key. assert (split_dot w = (w, None)) as S.
    { clear C. induction w as [|c r IH]; [reflexivity|]. cbn [existsb] in D. apply orb_false_iff in D as [D1 D2].
      cbn [split_dot]. rewrite N.eqb_sym, D1, (IH D2). reflexivity. }
    rewrite S. reflexivity.
  - destruct w as [|c r]; [reflexivity|]. cbn [existsb] in C. apply orb_false_iff in C as [C1 C2].
    cbn [last_seg]. rewrite C2. rewrite N.eqb_sym, C1. reflexivity.
Qed.

(* ---- class layout (as patched) ---- *)
Definition labs (o : layoutobj) : aobj := [(bs "alias", PStr (ly_alias o)); (bs "font", PStr (ly_font o))].
Lemma layout_props_abs o : map (fun e => (pe_name e, pe_val e)) (layout_props o) = labs o.
Proof. reflexivity. Qed.

Lemma lay_name_model n :
  lay_name n = if ceqs n "alias" || ceqs n "name" then Some (bs "alias") else if ceqs n "font" then Some (bs "font") else None.
Proof.
  unfold lay_name. norm_names.
  destruct (beq (lowers n) _) eqn:A; cbn [orb]; [reflexivity|].
  destruct (beq (lowers n) _) eqn:B; cbn [orb]; reflexivity.
Qed.

Definition lay_src_ok (s : osrc) : Prop := match s with XOther => False | _ => wf_osrc s end.

Theorem layout_step_refines (a b : layoutobj) (tb : bool) n s : lay_src_ok s ->
  let src : option source := match s with XReset => None | XText t o => Some (SText t o) | XValue v => Some (SValue v) | XOther => None end in
  let R := layout_set (if tb then b else a) n src in
  fst (lsstep (labs a, labs b) (XBase (OpSet tb n s))) =
  (if tb then (labs a, labs (snd R)) else (labs (snd R), labs b)) /\
  snd (lsstep (labs a, labs b) (XBase (OpSet tb n s))) = XsTok (if sok (fst R) then TK else TR).
Proof.
  intros OK src R. subst R src. cbn [lsstep].
  destruct n as [[|c n]|].
  - (* "" *) destruct s; try contradiction; destruct tb; cbn; auto.
  - (* named *)
    rewrite lay_name_model. unfold layout_set.
    destruct (ceqs (c :: n) "alias" || ceqs (c :: n) "name") eqn:A.
    + destruct s as [|t o|v|]; try contradiction.
      * destruct tb; cbn; auto.
      * rewrite (string_pset_spec _ (SText t o) OK). cbn [den_str]. destruct tb; cbn; auto.
      * rewrite (string_pset_spec _ _ (wf_value v OK)).
        destruct (den_str_cases (SValue v)) as [E|[x E]]; rewrite E; destruct tb; cbn; auto.
    + destruct (ceqs (c :: n) "font") eqn:F.
      * destruct s as [|t o|v|]; try contradiction.
        -- destruct tb; cbn; auto.
        -- rewrite (string_pset_spec _ (SText t o) OK). cbn [den_str]. destruct tb; cbn; auto.
        -- rewrite (string_pset_spec _ _ (wf_value v OK)).
           destruct (den_str_cases (SValue v)) as [E|[x E]]; rewrite E; destruct tb; cbn; auto.
      * destruct s; try contradiction; destruct tb; cbn; auto.
  - (* NULL name *)
    unfold layout_set. destruct s as [|t o|v|]; try contradiction.
    + destruct tb; cbn; auto.
    + rewrite (string_pset_spec _ (SText t o) OK). cbn [den_str]. destruct tb; cbn; auto.
    + rewrite (string_pset_spec _ _ (wf_value v OK)).
      destruct (den_str_cases (SValue v)) as [E|[x E]]; rewrite E; destruct tb; cbn; auto.
Qed.

(* ---- every step of the mpt++ harness language, on the listed properties ---- *)
Definition xop_ok (p : xop) : Prop :=
  match p with
  | XBase (OpSet _ _ s) => wf_osrc s
  | XBase (OpGet _ _) => True
  | XBase (OpSp _ _ _ s) => wf_osrc s /\ not_value s
  | XCset _ _ t => wf_text t
  | XTmeta _ t => wf_text t
  | _ => True
  end.

(* the text of a metatype as mpt_string_pset stores it: the text itself (an empty one as an empty string) *)
Lemma cstr_app_nul t : no_nul t = true -> cstr (app t [0%N]) = t.
Proof.
  induction t as [|c t IH]; [reflexivity|]. cbn [no_nul forallb]. intros H. apply andb_true_iff in H as [A B].
  cbn [app cstr]. destruct (N.eqb c 0); [discriminate|]. rewrite (IH B). reflexivity.
Qed.
Lemma meta_string_text t : no_nul t = true -> meta_string t = Some t.
Proof.
  intros H. unfold meta_string, string_set.
  replace (S (List.length t)) with (List.length (app t [0%N])) by (rewrite app_length; cbn; lia).
  rewrite firstn_all. rewrite cstr_app_nul by assumption. reflexivity.
Qed.

Lemma upd_t_a st tb o g : xa (upd_t st tb o g) = (if tb then xa st else o).
Proof. destruct tb; reflexivity. Qed.
Lemma upd_t_b st tb o g : xb (upd_t st tb o g) = (if tb then o else xb st).
Proof. destruct tb; reflexivity. Qed.

Theorem xstep_refines st p :
  same_kind (xa st) (xb st) -> inv (xa st) -> inv (xb st) -> strs_ok (xa st) -> strs_ok (xb st) -> xop_ok p ->
  fst (xsstep (kind_of (xa st)) (abs (xa st), abs (xb st)) p) =
  (abs (xa (fst (xstep st p))), abs (xb (fst (xstep st p)))).
Proof.
  intros K Ia Ib Sa Sb OK.
  assert (same_kind (xb st) (xa st)) as K' by (unfold same_kind in *; congruence).
  assert (kind_of (xb st) = kind_of (xa st)) as KB by (unfold same_kind in *; congruence).
  destruct p as [p|tb|tb|tb w t|tb q|tb|tb ia nm|tb ty nm pr t o|tb|tb|tb|tb|tb|tb pos|tb pos|tb lg|tb t|tb|tb cx].
  - (* the common operations *)
    destruct p as [tb n s|tb n|tb fl n s]; cbn [xop_ok] in OK.
    + (* set *)
      cbn [xstep xsstep].
      assert (forall src, fst (cxx_set_property (if tb then xb st else xa st) n src) =
                          fst (obj_set (if tb then xb st else xa st) n src) /\
                          snd (cxx_set_property (if tb then xb st else xa st) n src) =
                          snd (obj_set (if tb then xb st else xa st) n src)) as CS
        by (intros src; rewrite cxx_set_is_c; auto).
      destruct s as [|t o|v|].
      * (* reset *)
        destruct (cxx_set_property (if tb then xb st else xa st) n (resolve XReset (if tb then xa st else xb st))) as [r tg'] eqn:E.
        pose proof (CS (resolve XReset (if tb then xa st else xb st))) as [_ C2]. rewrite E in C2. cbn [snd] in C2.
        cbn [fst]. rewrite upd_t_a, upd_t_b. cbn [sstep]. destruct tb.
        -- pose proof (set_refines (xb st) (xa st) n XReset K' OK Ib) as R. rewrite KB in R. rewrite R. cbn [fst]. rewrite C2. reflexivity.
        -- pose proof (set_refines (xa st) (xb st) n XReset K OK Ia) as R. rewrite R. cbn [fst]. rewrite C2. reflexivity.
      * destruct (cxx_set_property (if tb then xb st else xa st) n (resolve (XText t o) (if tb then xa st else xb st))) as [r tg'] eqn:E.
        pose proof (CS (resolve (XText t o) (if tb then xa st else xb st))) as [_ C2]. rewrite E in C2. cbn [snd] in C2.
        cbn [fst]. rewrite upd_t_a, upd_t_b. cbn [sstep]. destruct tb.
        -- pose proof (set_refines (xb st) (xa st) n (XText t o) K' OK Ib) as R. rewrite KB in R. rewrite R. cbn [fst]. rewrite C2. reflexivity.
        -- pose proof (set_refines (xa st) (xb st) n (XText t o) K OK Ia) as R. rewrite R. cbn [fst]. rewrite C2. reflexivity.
      * destruct (cxx_set_property (if tb then xb st else xa st) n (resolve (XValue v) (if tb then xa st else xb st))) as [r tg'] eqn:E.
        pose proof (CS (resolve (XValue v) (if tb then xa st else xb st))) as [_ C2]. rewrite E in C2. cbn [snd] in C2.
        cbn [fst]. rewrite upd_t_a, upd_t_b. cbn [sstep]. destruct tb.
        -- pose proof (set_refines (xb st) (xa st) n (XValue v) K' OK Ib) as R. rewrite KB in R. rewrite R. cbn [fst]. rewrite C2. reflexivity.
        -- pose proof (set_refines (xa st) (xb st) n (XValue v) K OK Ia) as R. rewrite R. cbn [fst]. rewrite C2. reflexivity.
      * (* the other object *)
        destruct (cxx_set_property (if tb then xb st else xa st) n
                    (Some (if is_named n then cxx_named_source (if tb then xa st else xb st) else SObj (if tb then xa st else xb st))))
          as [r tg'] eqn:E.
        pose proof (CS (Some (if is_named n then cxx_named_source (if tb then xa st else xb st) else SObj (if tb then xa st else xb st))))
          as [_ C2]. rewrite E in C2. cbn [snd] in C2.
        cbn [fst]. rewrite upd_t_a, upd_t_b.
        destruct n as [[|c n]|]; cbn [is_named] in *; unfold bytes in *.
        -- destruct tb.
           ++ pose proof (set_refines (xb st) (xa st) (Some []) XOther K' Logic.I Ib) as R. rewrite KB in R.
              unfold of_osrc, resolve in R. unfold bytes in *. rewrite R. cbn [fst]. rewrite C2. reflexivity.
           ++ pose proof (set_refines (xa st) (xb st) (Some []) XOther K Logic.I Ia) as R.
              unfold of_osrc, resolve in R. unfold bytes in *. rewrite R. cbn [fst]. rewrite C2. reflexivity.
        -- destruct tb.
           ++ pose proof (named_other_refines (xb st) (xa st) c n K' Ib) as R. rewrite KB in R. rewrite R. cbn [fst]. rewrite C2. reflexivity.
           ++ pose proof (named_other_refines (xa st) (xb st) c n K Ia) as R. rewrite R. cbn [fst]. rewrite C2. reflexivity.
        -- destruct tb.
           ++ pose proof (set_refines (xb st) (xa st) None XOther K' Logic.I Ib) as R. rewrite KB in R.
              unfold of_osrc, resolve in R. unfold bytes in *. rewrite R. cbn [fst]. rewrite C2. reflexivity.
           ++ pose proof (set_refines (xa st) (xb st) None XOther K Logic.I Ia) as R.
              unfold of_osrc, resolve in R. unfold bytes in *. rewrite R. cbn [fst]. rewrite C2. reflexivity.
    + (* lookup: no change *)
      cbn [xstep xsstep step sstep]. cbn. reflexivity.
    + (* mpt_object_set_property *)
      destruct OK as [W NV]. cbn [xstep xsstep step sstep]. destruct tb.
      * pose proof (set_property_refines (xb st) (xa st) fl n s K' W Ib NV) as R. rewrite KB in R. rewrite R.
        destruct (set_property_op (xb st) (xa st) fl n s) as [t b']. cbn. reflexivity.
      * pose proof (set_property_refines (xa st) (xb st) fl n s K W Ia NV) as R. rewrite R.
        destruct (set_property_op (xa st) (xb st) fl n s) as [t a']. cbn. reflexivity.
  - destruct (xstep_pure st (XClone tb) Logic.I) as [A B]. rewrite A, B. reflexivity.
  - cbn [xstep xsstep fst]. rewrite upd_t_a, upd_t_b. destruct tb; reflexivity.
  - cbn [xstep xsstep xop_ok] in *.
    destruct (cxx_cset (if tb then xb st else xa st) w t) as [[r o']|] eqn:E.
    + destruct (cset_refines _ _ _ _ _ OK E) as (p & P & A & _).
      cbn [fst]. rewrite upd_t_a, upd_t_b. destruct tb.
      * rewrite KB in P. rewrite P. cbn [fst]. rewrite A. reflexivity.
      * rewrite P. cbn [fst]. rewrite A. reflexivity.
    + assert (cset_prop (kind_of (xa st)) w = None) as N.
      { destruct tb; [rewrite <- KB|]; unfold cxx_cset in E;
          match type of E with context [match ?o with _ => _ end] => destruct o end; destruct w; try discriminate E; reflexivity. }
      rewrite N. reflexivity.
  - destruct (xstep_pure st (XConv tb q) Logic.I) as [A B]. rewrite A, B. reflexivity.
  - destruct (xstep_pure st (XLreset tb) Logic.I) as [A B]. rewrite A, B. reflexivity.
  - destruct (xstep_pure st (XGadd tb ia nm) Logic.I) as [A B]. rewrite A, B. reflexivity.
  - destruct (xstep_pure st (XGitem tb ty nm pr t o) Logic.I) as [A B]. rewrite A, B. reflexivity.
  - destruct (xstep_pure st (XGbind tb) Logic.I) as [A B]. rewrite A, B. reflexivity.
  - destruct (xstep_pure st (XGtr tb) Logic.I) as [A B]. rewrite A, B. reflexivity.
  - destruct (xstep_pure st (XGbindl tb) Logic.I) as [A B]. rewrite A, B. reflexivity.
  - destruct (xstep_pure st (XGbindo tb) Logic.I) as [A B]. rewrite A, B. reflexivity.
  - destruct (xstep_pure st (XGview tb) Logic.I) as [A B]. rewrite A, B. reflexivity.
  - destruct (xstep_pure st (XGcyc tb pos) Logic.I) as [A B]. rewrite A, B. reflexivity.
  - destruct (xstep_pure st (XGscyc tb pos) Logic.I) as [A B]. rewrite A, B. reflexivity.
  - (* object::set(other object): the specification's copy *)
    cbn [xstep xsstep].
    destruct tb.
    + destruct (object_set_refines lg (xb st) (xa st) Ib Sb Sa) as (A & _). rewrite KB in A.
      destruct (object_set_from lg (xb st) (xa st)) as [r tg']. cbn [fst snd] in *. rewrite upd_t_a, upd_t_b. rewrite A. reflexivity.
    + destruct (object_set_refines lg (xa st) (xb st) Ia Sa Sb) as (A & _).
      destruct (object_set_from lg (xa st) (xb st)) as [r tg']. cbn [fst snd] in *. rewrite upd_t_a, upd_t_b. rewrite A. reflexivity.
  - (* text::set(metatype) *)
    cbn [xstep xsstep xop_ok] in *.
    assert (meta_string (match t with Some b => b | None => [] end) = Some (match t with Some b => b | None => [] end)) as M.
    { apply meta_string_text. destruct t; [exact OK|reflexivity]. }
    destruct tb.
    + rewrite <- KB. destruct (xb st) as [x|x|x|x|x] eqn:E; cbn [kind_of fst]; rewrite ?upd_t_a, ?upd_t_b; rewrite ?E; try reflexivity.
      rewrite M. reflexivity.
    + destruct (xa st) as [x|x|x|x|x] eqn:E; cbn [kind_of fst]; rewrite ?upd_t_a, ?upd_t_b; rewrite ?E; try reflexivity.
      rewrite M. reflexivity.
  - destruct (xstep_pure st (XTot tb) Logic.I) as [A B]. rewrite A, B. reflexivity.
  - destruct (xstep_pure st (XPinfo tb cx) Logic.I) as [A B]. rewrite A, B. reflexivity.
Qed.

(* ---- what every step keeps: both objects of one kind, the invariant, strings that are C strings ---- *)
Definition good (o : anyobj) : Prop := inv o /\ strs_ok o.
Lemma good_set o other n s : same_kind o other -> wf_osrc s -> good o -> good other ->
  good (snd (obj_set o n (resolve s other))) /\ kind_of (snd (obj_set o n (resolve s other))) = kind_of o.
Proof.
  intros K W (I & S) (IO & SO). repeat split.
  - apply set_keeps_inv; assumption.
  - apply set_keeps_strs; assumption.
  - apply set_keeps_kind.
Qed.
Lemma good_sp o other fl n s : same_kind o other -> wf_osrc s -> good o -> good other ->
  good (snd (set_property_op o other fl n s)) /\ kind_of (snd (set_property_op o other fl n s)) = kind_of o.
Proof.
  intros K W G GO. destruct (sp_obj o other fl n s) as [E|(src & E & ->)]; rewrite E; [auto|].
  apply good_set; assumption.
Qed.
Lemma named_source_good o other c n : same_kind o other -> good o -> good other ->
  good (snd (obj_set o (Some (c :: n)) (Some (cxx_named_source other)))) /\
  kind_of (snd (obj_set o (Some (c :: n)) (Some (cxx_named_source other)))) = kind_of o.
Proof.
  intros K G GO. destruct other as [y|y|y|y|y]; cbn [cxx_named_source].
  - exact (good_set o (OAxis y) (Some (c :: n)) XOther K Logic.I G GO).
  - exact (good_set o (OLine y) (Some (c :: n)) XOther K Logic.I G GO).
  - exact (good_set o (OText y) (Some (c :: n)) (XValue (VCol (c_a (tx_color y)) (c_r (tx_color y)) (c_g (tx_color y)) (c_b (tx_color y)))) K Logic.I G GO).
  - exact (good_set o (OGraph y) (Some (c :: n)) (XValue (VCol (c_a (gr_fg y)) (c_r (gr_fg y)) (c_g (gr_fg y)) (c_b (gr_fg y)))) K Logic.I G GO).
  - exact (good_set o (OWorld y) (Some (c :: n)) (XValue (VCol (c_a (wl_color y)) (c_r (wl_color y)) (c_g (wl_color y)) (c_b (wl_color y)))) K Logic.I G GO).
Qed.
Lemma good_default_strs n : strs_ok (default_of n).
Proof. unfold strs_ok. rewrite defaults_match. apply defaults_ok. Qed.
Lemma good_construct k arg : good (cxx_construct k arg).
Proof.
  split; [apply inv_construct|]. unfold strs_ok.
  unfold cxx_construct. destruct arg as [z|].
  - destruct (N.eqb k 0); [rewrite construct_axis_props; apply defaults_ok|].
    destruct (N.eqb k 4); [rewrite construct_world_props; apply aput_ok; [apply defaults_ok|exact Logic.I]|].
    rewrite cxx_new_defaults. apply defaults_ok.
  - rewrite cxx_new_defaults. apply defaults_ok.
Qed.

Theorem xstep_keeps st p :
  same_kind (xa st) (xb st) -> good (xa st) -> good (xb st) -> xop_ok p ->
  same_kind (xa (fst (xstep st p))) (xb (fst (xstep st p))) /\ good (xa (fst (xstep st p))) /\ good (xb (fst (xstep st p))).
Proof.
  intros K Ga Gb OK.
  assert (same_kind (xb st) (xa st)) as K' by (unfold same_kind in *; congruence).
  assert (forall q, pure_op q -> same_kind (xa (fst (xstep st q))) (xb (fst (xstep st q))) /\
                                 good (xa (fst (xstep st q))) /\ good (xb (fst (xstep st q)))) as PU.
  { intros q PQ. destruct (xstep_pure st q PQ) as [A B]. rewrite A, B. auto. }
  destruct p as [p|tb|tb|tb w t|tb q|tb|tb ia nm|tb ty nm pr t o|tb|tb|tb|tb|tb|tb pos|tb pos|tb lg|tb t|tb|tb cx];
    try (apply PU; exact Logic.I).
  - destruct p as [tb n s|tb n|tb fl n s]; cbn [xop_ok] in OK.
    + cbn [xstep].
      match goal with |- context [cxx_set_property ?o ?nm ?src] => rewrite (cxx_set_is_c o nm src) end.
      assert (forall tg ot, same_kind tg ot -> good tg -> good ot ->
                good (snd (obj_set tg n (match s with XOther => Some (if is_named n then cxx_named_source ot else SObj ot) | _ => resolve s ot end))) /\
                kind_of (snd (obj_set tg n (match s with XOther => Some (if is_named n then cxx_named_source ot else SObj ot) | _ => resolve s ot end))) = kind_of tg) as G.
      { intros tg ot KK G1 G2. destruct s as [|t0 o0|v|].
        - exact (good_set tg ot n XReset KK OK G1 G2).
        - exact (good_set tg ot n (XText t0 o0) KK OK G1 G2).
        - exact (good_set tg ot n (XValue v) KK OK G1 G2).
        - destruct n as [[|c n]|]; cbn [is_named].
          + exact (good_set tg ot (Some []) XOther KK Logic.I G1 G2).
          + apply named_source_good; assumption.
          + exact (good_set tg ot None XOther KK Logic.I G1 G2). }
      destruct tb.
      * destruct (G (xb st) (xa st) K' Gb Ga) as (G1 & K1).
        destruct (obj_set (xb st) n _) as [r tg'] eqn:E. cbn [fst snd] in *. rewrite upd_t_a, upd_t_b.
        repeat split; try apply Ga; try apply G1. unfold same_kind in *. congruence.
      * destruct (G (xa st) (xb st) K Ga Gb) as (G1 & K1).
        destruct (obj_set (xa st) n _) as [r tg'] eqn:E. cbn [fst snd] in *. rewrite upd_t_a, upd_t_b.
        repeat split; try apply Gb; try apply G1. unfold same_kind in *. congruence.
    + cbn [xstep step]. cbn [fst xa xb]. auto.
    + destruct OK as [W NV]. cbn [xstep step]. destruct tb.
      * destruct (good_sp (xb st) (xa st) fl n s K' W Gb Ga) as (G1 & K1).
        destruct (set_property_op (xb st) (xa st) fl n s) as [t b']. cbn [fst snd xa xb] in *.
        repeat split; try apply Ga; try apply G1. unfold same_kind in *. congruence.
      * destruct (good_sp (xa st) (xb st) fl n s K W Ga Gb) as (G1 & K1).
        destruct (set_property_op (xa st) (xb st) fl n s) as [t a']. cbn [fst snd xa xb] in *.
        repeat split; try apply Gb; try apply G1. unfold same_kind in *. congruence.
  - (* struct copy *)
    cbn [xstep fst]. rewrite upd_t_a, upd_t_b. destruct tb; repeat split; try apply Ga; try apply Gb; reflexivity.
  - (* direct setters *)
    cbn [xstep xop_ok] in *.
    destruct (cxx_cset (if tb then xb st else xa st) w t) as [[r o']|] eqn:E; [|cbn [fst]; auto].
    destruct (cset_refines _ _ _ _ _ OK E) as (pp & P & A & _).
    assert (good o' /\ kind_of o' = kind_of (if tb then xb st else xa st)) as (G1 & K1).
    { assert (strs_ok o') as S1.
      { unfold strs_ok. rewrite A. apply aput_ok; [destruct tb; [apply Gb|apply Ga]|].
        unfold ent_ok. cbn [snd]. exact (nonempty_ok t OK). }
      unfold cxx_cset in E. destruct (if tb then xb st else xa st) as [x|x|x|x|x], w; try discriminate E; inversion E; subst;
        (split; [split; [exact Logic.I|exact S1]|reflexivity]). }
    cbn [fst]. rewrite upd_t_a, upd_t_b. destruct tb; repeat split; try apply Ga; try apply Gb; try apply G1;
      unfold same_kind in *; congruence.
  - (* object::set *)
    cbn [xstep]. destruct tb.
    + destruct (object_set_refines lg (xb st) (xa st) (proj1 Gb) (proj2 Gb) (proj2 Ga)) as (_ & I1 & S1 & K1).
      destruct (object_set_from lg (xb st) (xa st)) as [r tg']. cbn [fst snd] in *. rewrite upd_t_a, upd_t_b.
      repeat split; try apply Ga; try assumption. unfold same_kind in *. congruence.
    + destruct (object_set_refines lg (xa st) (xb st) (proj1 Ga) (proj2 Ga) (proj2 Gb)) as (_ & I1 & S1 & K1).
      destruct (object_set_from lg (xa st) (xb st)) as [r tg']. cbn [fst snd] in *. rewrite upd_t_a, upd_t_b.
      repeat split; try apply Gb; try assumption. unfold same_kind in *. congruence.
  - (* text::set(metatype) *)
    cbn [xstep xop_ok] in *.
    assert (meta_string (match t with Some b => b | None => [] end) = Some (match t with Some b => b | None => [] end)) as M.
    { apply meta_string_text. destruct t; [exact OK|reflexivity]. }
    assert (no_nul (match t with Some b => b | None => [] end) = true) as NN by (destruct t; [exact OK|reflexivity]).
    destruct tb.
    + destruct (xb st) as [x|x|x|x|x] eqn:E; cbn [fst]; rewrite ?upd_t_a, ?upd_t_b; rewrite ?E; auto.
      rewrite M. repeat split; try apply Ga.
      * unfold same_kind in *. rewrite K. reflexivity.
      * destruct Gb as [_ SB]. unfold strs_ok in *.
        change (abs (OText (set_tx_value (Some match t with Some b => b | None => [] end) x)))
          with (aput (abs (OText x)) (bs "value") (PStr (Some match t with Some b => b | None => [] end))).
        apply aput_ok; [exact SB|exact NN].
    + destruct (xa st) as [x|x|x|x|x] eqn:E; cbn [fst]; rewrite ?upd_t_a, ?upd_t_b; rewrite ?E; auto.
      rewrite M. repeat split; try apply Gb.
      * unfold same_kind in *. rewrite <- K. reflexivity.
      * destruct Ga as [_ SA]. unfold strs_ok in *.
        change (abs (OText (set_tx_value (Some match t with Some b => b | None => [] end) x)))
          with (aput (abs (OText x)) (bs "value") (PStr (Some match t with Some b => b | None => [] end))).
        apply aput_ok; [exact SA|exact NN].
Qed.

(* ---- mpt_lattr_set ---- *)
Theorem lattr_set4_spec a w st sy sz :
  lattr_set4 a w st sy sz =
  match spec_lattr4 w st sy sz with
  | Some (w', st', sy', sz') => (SOk, mklattr st' w' sy' sz')
  | None => (SFail BadValue, a)
  end.
Proof.
  unfold lattr_set4, spec_lattr4, attr_value, LineWidthMax, LineStyleMax, SymbolTypeMax, SymbolSizeMax.
  destruct (10 <? w); cbn [orb]; [reflexivity|].
  destruct (5 <? st); cbn [orb]; [reflexivity|].
  destruct (8 <? sy); cbn [orb]; [reflexivity|].
  destruct (20 <? sz); cbn [orb]; [reflexivity|].
  assert (forall v, (0 <=? v) = negb (v <? 0)) as E by (intros v; rewrite Z.leb_antisym; reflexivity).
  rewrite !E. destruct (w <? 0), (st <? 0), (sy <? 0), (sz <? 0); reflexivity.
Qed.

(* ---- the whole-object query: an object that equals the default object in every member shows the documented defaults;
   so a listed property away from its default is always reported as a change ---- *)
Lemma col_eqb_eq a b : col_eqb a b = true -> a = b.
Proof.
  unfold col_eqb. intros H. repeat (apply andb_true_iff in H; destruct H as [H ?]).
  destruct a, b; cbn in *. repeat match goal with X : N.eqb _ _ = true |- _ => apply N.eqb_eq in X end. congruence.
Qed.
Lemma lat_eqb_eq a b : lat_eqb a b = true -> a = b.
Proof.
  unfold lat_eqb. intros H. repeat (apply andb_true_iff in H; destruct H as [H ?]).
  destruct a, b; cbn in *. repeat match goal with X : Z.eqb _ _ = true |- _ => apply Z.eqb_eq in X end. congruence.
Qed.
Lemma str_unset_eq s : str_unset s = true -> s = None.
Proof. destruct s; [discriminate|reflexivity]. Qed.
Ltac crack_default H :=
  repeat (apply andb_true_iff in H; destruct H as [H ?]);
  repeat match goal with
         | X : N.eqb _ _ = true |- _ => apply N.eqb_eq in X
         | X : Z.eqb _ _ = true |- _ => apply Z.eqb_eq in X
         | X : col_eqb _ _ = true |- _ => apply col_eqb_eq in X
         | X : lat_eqb _ _ = true |- _ => apply lat_eqb_eq in X
         | X : str_unset _ = true |- _ => apply str_unset_eq in X
         end.
Theorem total_default o : obj_is_default o = true -> abs o = defaults (kind_of o).
Proof.
  destruct o as [x|x|x|x|x]; cbn [obj_is_default kind_of]; intros H; crack_default H;
    destruct x; cbn in *;
    repeat match goal with c : color |- _ => destruct c end;
    repeat match goal with c : lattr |- _ => destruct c end;
    cbn in *; unfold def_lattr, col_black in *;
    repeat match goal with
           | X : mklattr _ _ _ _ = mklattr _ _ _ _ |- _ => inversion X; clear X
           | X : mkcol _ _ _ _ = mkcol _ _ _ _ |- _ => inversion X; clear X
           end;
    subst; reflexivity.
Qed.
Lemma all_default_defaults k : all_default k (defaults k) = true.
Proof. destruct k; reflexivity. Qed.
Theorem total_reports_change o : all_default (kind_of o) (abs o) = false -> pe_ret (obj_total o) = 1.
Proof.
  intros H. unfold obj_total. cbn [pe_ret]. destruct (obj_is_default o) eqn:D; [|reflexivity].
  rewrite (total_default o D), all_default_defaults in H. discriminate.
Qed.
