(* C20/LayoutCxxProofs.v — the mpt++-only operations against their specification: every step of the mpt++ harness
   language acts on the listed properties as LayoutCxxSpec says; constructors meet the invariant; bind() takes the
   items the "axes" / "worlds" properties name; class layout. *)
Require Import List String Ascii NArith ZArith Bool Lia.
Import ListNotations.
From MptV Require Import C20.LayoutTypes C20.LayoutConv C20.Gen_Layout C20.LayoutModel C20.LayoutSpec
  C20.LayoutLemmas C20.LayoutAbs C20.LayoutFields C20.LayoutRefineAxis C20.LayoutRefineGraph C20.LayoutRefine
  C20.LayoutSetProp C20.LayoutCxx C20.LayoutCxxModel C20.LayoutCxxSpec.
Local Open Scope Z_scope.

(* ---- constructors with arguments ---- *)
Lemma inv_construct k arg : inv (cxx_construct k arg).
Proof.
  unfold cxx_construct. destruct arg as [z|]; [|apply inv_cxx_new].
  destruct (N.eqb k 0); [apply inv_cxx_axis|]. destruct (N.eqb k 4); [exact Logic.I|apply inv_cxx_new].
Qed.
(* the axis flags argument only selects the axis style, the world argument only the cycle count *)
Lemma construct_axis_props f : abs (cxx_new_axis f) = defaults KAxis.
Proof.
  unfold cxx_new_axis. rewrite abs_axis. unfold intv_val, axis_lg. cbn [ax_format set_ax_format].
  rewrite land3_no_lg. reflexivity.
Qed.
Lemma construct_world_props c :
  abs (cxx_new_world c) = aput (defaults KWorld) (bs "cycles") (PInt (if c <? 0 then 1 else c)).
Proof. reflexivity. Qed.

(* ---- clone, struct-level copy, direct setters ---- *)
Lemma cset_refines o w t r o' : wf_text t -> cxx_cset o w t = Some (r, o') ->
  exists p, cset_prop (kind_of o) w = Some p /\ abs o' = aput (abs o) p (PStr (nonempty t)) /\ r = true.
Proof.
  intros W H.
  assert (string_set t None = nonempty t) as S.
  { destruct t as [t|]; [|reflexivity]. apply string_set_strlen. exact W. }
  unfold cxx_cset in H. rewrite S in H.
  destruct o as [x|x|x|x|x], w; try discriminate H; inversion H; subst; cbn [kind_of cset_prop]; eexists; split; try reflexivity;
    split; try reflexivity.
Qed.

(* ---- an mpt++ object as value of a named property ---- *)
Lemma named_other_refines o other c n :
  same_kind o other -> inv o ->
  sset (kind_of o) (abs o) (abs other) (Some (c :: n)) (xs_named_other (kind_of o) (abs other)) =
  (sok (fst (obj_set o (Some (c :: n)) (Some (cxx_named_source other)))),
   abs (snd (obj_set o (Some (c :: n)) (Some (cxx_named_source other))))).
Proof.
  intros K I. destruct other as [y|y|y|y|y]; unfold same_kind in K; cbn [kind_of] in K; rewrite K;
    cbn [cxx_named_source xs_named_other colour_prop].
  - rewrite <- K. exact (set_refines o (OAxis y) (Some (c :: n)) XOther K Logic.I I).
  - rewrite <- K. exact (set_refines o (OLine y) (Some (c :: n)) XOther K Logic.I I).
  - change (aget (abs (OText y)) (bs "color")) with (Some (PCol (c_a (tx_color y)) (c_r (tx_color y)) (c_g (tx_color y)) (c_b (tx_color y)))).
    rewrite <- K.
    exact (set_refines o (OText y) (Some (c :: n))
             (XValue (VCol (c_a (tx_color y)) (c_r (tx_color y)) (c_g (tx_color y)) (c_b (tx_color y)))) K Logic.I I).
  - change (aget (abs (OGraph y)) (bs "foreground")) with (Some (PCol (c_a (gr_fg y)) (c_r (gr_fg y)) (c_g (gr_fg y)) (c_b (gr_fg y)))).
    rewrite <- K.
    exact (set_refines o (OGraph y) (Some (c :: n))
             (XValue (VCol (c_a (gr_fg y)) (c_r (gr_fg y)) (c_g (gr_fg y)) (c_b (gr_fg y)))) K Logic.I I).
  - change (aget (abs (OWorld y)) (bs "color")) with (Some (PCol (c_a (wl_color y)) (c_r (wl_color y)) (c_g (wl_color y)) (c_b (wl_color y)))).
    rewrite <- K.
    exact (set_refines o (OWorld y) (Some (c :: n))
             (XValue (VCol (c_a (wl_color y)) (c_r (wl_color y)) (c_g (wl_color y)) (c_b (wl_color y)))) K Logic.I I).
Qed.

(* convert() and the graph's item handling leave the objects as they are *)
Lemma xstep_pure st p :
  match p with XConv _ _ | XGadd _ _ _ | XGitem _ _ _ _ _ _ | XGbind _ | XGtr _ | XClone _ | XLreset _ => True | _ => False end ->
  xa (fst (xstep st p)) = xa st /\ xb (fst (xstep st p)) = xb st.
Proof.
  intros H. destruct p; try contradiction; cbn [xstep].
  - destruct tb; cbn; auto.
  - destruct (cxx_convert (if tb then xb st else xa st) q); cbn; auto.
  - cbn; auto.
  - destruct tb; [destruct (xb st) eqn:E|destruct (xa st) eqn:E]; cbn; auto; destruct isaxis; cbn; rewrite ?E; auto.
  - destruct tb; [destruct (xb st) eqn:E|destruct (xa st) eqn:E]; cbn; auto; destruct (create_item ty); cbn; rewrite ?E; auto.
  - destruct tb; [destruct (xb st) eqn:E|destruct (xa st) eqn:E]; cbn; auto;
      match goal with |- context [graph_bind ?g ?x] => destruct (graph_bind g x) end; cbn; rewrite ?E; auto.
  - destruct tb; [destruct (xb st) eqn:E|destruct (xa st) eqn:E]; cbn; rewrite ?E; auto.
Qed.

(* ---- layout::graph::bind ---- *)
(* a failed bind (an item named by "axes" / "worlds" is missing) restores the bound lists *)
Lemma bind_failure g x r x' : graph_bind g x = (r, x') -> r < 0 -> x' = x.
Proof.
  unfold graph_bind. intros H N.
  repeat match type of H with context [match ?e with _ => _ end] => destruct e end; inversion H; subst; auto; lia.
Qed.
Lemma bind_names_fst {A} (find : bytes -> option A) ws l : bind_names find ws = Some l -> map fst l = map Some ws.
Proof.
  revert l. induction ws as [|w r IH]; intros l; cbn [bind_names]; [intros H; inversion H; reflexivity|].
  destruct (find w); [|discriminate]. destruct (bind_names find r) as [l0|] eqn:E; [|discriminate].
  intros H; inversion H; subst. cbn. rewrite (IH l0 eq_refl). reflexivity.
Qed.
Lemma bind_names_found {A} (find : bytes -> option A) ws l : bind_names find ws = Some l ->
  Forall (fun nv => exists w, fst nv = Some w /\ find w = Some (snd nv)) l.
Proof.
  revert l. induction ws as [|w r IH]; intros l; cbn [bind_names]; [intros H; inversion H; constructor|].
  destruct (find w) eqn:F; [|discriminate]. destruct (bind_names find r) eqn:E; [|discriminate].
  intros H; inversion H; subst. constructor; [exists w; auto|apply IH; reflexivity].
Qed.
(* a successful bind with an "axes" name list binds exactly the named axis items, in the order of the list, each
   under its name and with the item's properties *)
Theorem bind_axes_named g x x' names : graph_bind g x = (1, x') -> gr_axes g = Some names ->
  map fst (gx_axes x') = map Some (words names) /\
  Forall (fun nv => exists w, fst nv = Some w /\ find_axis (gx_items x) w = Some (snd nv)) (gx_axes x').
Proof.
  unfold graph_bind. intros H A. rewrite A in H.
  destruct (bind_names (find_axis (gx_items x)) (words names)) as [al|] eqn:E; [|inversion H].
  destruct (match gr_worlds g with None => Some (all_worlds (gx_items x)) | Some n => bind_names (find_world (gx_items x)) (words n) end);
    inversion H; subst; cbn [gx_axes].
  split; [eapply bind_names_fst; eauto | eapply bind_names_found; eauto].
Qed.

(* ---- class layout (as patched) ---- *)
Definition labs (o : layoutobj) : aobj := [(bs "alias", PStr (ly_alias o)); (bs "font", PStr (ly_font o))].
Lemma layout_props_abs o : map (fun e => (pe_name e, pe_val e)) (layout_props o) = labs o.
Proof. reflexivity. Qed.

Lemma lay_name_model n :
  lay_name n = if ceqs n "alias" || ceqs n "name" then Some (bs "alias") else if ceqs n "font" then Some (bs "font") else None.
Proof.
  unfold lay_name. norm_names.
  destruct (beq (lowers n) _) eqn:A; cbn [orb]; [reflexivity|].
  destruct (beq (lowers n) _) eqn:B; cbn [orb]; reflexivity.
Qed.

Definition lay_src_ok (s : osrc) : Prop := match s with XOther => False | _ => wf_osrc s end.

Theorem layout_step_refines (a b : layoutobj) (tb : bool) n s : lay_src_ok s ->
  let src : option source := match s with XReset => None | XText t o => Some (SText t o) | XValue v => Some (SValue v) | XOther => None end in
  let R := layout_set (if tb then b else a) n src in
  fst (lsstep (labs a, labs b) (XBase (OpSet tb n s))) =
  (if tb then (labs a, labs (snd R)) else (labs (snd R), labs b)) /\
  snd (lsstep (labs a, labs b) (XBase (OpSet tb n s))) = XsTok (if sok (fst R) then TK else TR).
Proof.
  intros OK src R. subst R src. cbn [lsstep].
  destruct n as [[|c n]|].
  - (* "" *) destruct s; try contradiction; destruct tb; cbn; auto.
  - (* named *)
    rewrite lay_name_model. unfold layout_set.
    destruct (ceqs (c :: n) "alias" || ceqs (c :: n) "name") eqn:A.
    + destruct s as [|t o|v|]; try contradiction.
      * destruct tb; cbn; auto.
      * rewrite (string_pset_spec _ (SText t o) OK). cbn [den_str]. destruct tb; cbn; auto.
      * rewrite (string_pset_spec _ _ (wf_value v OK)).
        destruct (den_str_cases (SValue v)) as [E|[x E]]; rewrite E; destruct tb; cbn; auto.
    + destruct (ceqs (c :: n) "font") eqn:F.
      * destruct s as [|t o|v|]; try contradiction.
        -- destruct tb; cbn; auto.
        -- rewrite (string_pset_spec _ (SText t o) OK). cbn [den_str]. destruct tb; cbn; auto.
        -- rewrite (string_pset_spec _ _ (wf_value v OK)).
           destruct (den_str_cases (SValue v)) as [E|[x E]]; rewrite E; destruct tb; cbn; auto.
      * destruct s; try contradiction; destruct tb; cbn; auto.
  - (* NULL name *)
    unfold layout_set. destruct s as [|t o|v|]; try contradiction.
    + destruct tb; cbn; auto.
    + rewrite (string_pset_spec _ (SText t o) OK). cbn [den_str]. destruct tb; cbn; auto.
    + rewrite (string_pset_spec _ _ (wf_value v OK)).
      destruct (den_str_cases (SValue v)) as [E|[x E]]; rewrite E; destruct tb; cbn; auto.
Qed.

(* ---- every step of the mpt++ harness language, on the listed properties ---- *)
Definition xop_ok (p : xop) : Prop :=
  match p with
  | XBase (OpSet _ _ s) => wf_osrc s
  | XBase (OpGet _ _) => True
  | XBase (OpSp _ _ _ s) => wf_osrc s /\ not_value s
  | XCset _ _ t => wf_text t
  | _ => True
  end.

Lemma upd_t_a st tb o g : xa (upd_t st tb o g) = (if tb then xa st else o).
Proof. destruct tb; reflexivity. Qed.
Lemma upd_t_b st tb o g : xb (upd_t st tb o g) = (if tb then o else xb st).
Proof. destruct tb; reflexivity. Qed.

Theorem xstep_refines st p :
  same_kind (xa st) (xb st) -> inv (xa st) -> inv (xb st) -> xop_ok p ->
  fst (xsstep (kind_of (xa st)) (abs (xa st), abs (xb st)) p) =
  (abs (xa (fst (xstep st p))), abs (xb (fst (xstep st p)))).
Proof.
  intros K Ia Ib OK.
  assert (same_kind (xb st) (xa st)) as K' by (unfold same_kind in *; congruence).
  assert (kind_of (xb st) = kind_of (xa st)) as KB by (unfold same_kind in *; congruence).
  destruct p as [p|tb|tb|tb w t|tb q|tb|tb ia nm|tb ty nm pr t o|tb|tb].
  - (* the common operations *)
    destruct p as [tb n s|tb n|tb fl n s]; cbn [xop_ok] in OK.
    + (* set *)
      cbn [xstep xsstep].
      assert (forall src, fst (cxx_set_property (if tb then xb st else xa st) n src) =
                          fst (obj_set (if tb then xb st else xa st) n src) /\
                          snd (cxx_set_property (if tb then xb st else xa st) n src) =
                          snd (obj_set (if tb then xb st else xa st) n src)) as CS
        by (intros src; rewrite cxx_set_is_c; auto).
      destruct s as [|t o|v|].
      * (* reset *)
        destruct (cxx_set_property (if tb then xb st else xa st) n (resolve XReset (if tb then xa st else xb st))) as [r tg'] eqn:E.
        pose proof (CS (resolve XReset (if tb then xa st else xb st))) as [_ C2]. rewrite E in C2. cbn [snd] in C2.
        cbn [fst]. rewrite upd_t_a, upd_t_b. cbn [sstep]. destruct tb.
        -- pose proof (set_refines (xb st) (xa st) n XReset K' OK Ib) as R. rewrite KB in R. rewrite R. cbn [fst]. rewrite C2. reflexivity.
        -- pose proof (set_refines (xa st) (xb st) n XReset K OK Ia) as R. rewrite R. cbn [fst]. rewrite C2. reflexivity.
      * destruct (cxx_set_property (if tb then xb st else xa st) n (resolve (XText t o) (if tb then xa st else xb st))) as [r tg'] eqn:E.
        pose proof (CS (resolve (XText t o) (if tb then xa st else xb st))) as [_ C2]. rewrite E in C2. cbn [snd] in C2.
        cbn [fst]. rewrite upd_t_a, upd_t_b. cbn [sstep]. destruct tb.
        -- pose proof (set_refines (xb st) (xa st) n (XText t o) K' OK Ib) as R. rewrite KB in R. rewrite R. cbn [fst]. rewrite C2. reflexivity.
        -- pose proof (set_refines (xa st) (xb st) n (XText t o) K OK Ia) as R. rewrite R. cbn [fst]. rewrite C2. reflexivity.
      * destruct (cxx_set_property (if tb then xb st else xa st) n (resolve (XValue v) (if tb then xa st else xb st))) as [r tg'] eqn:E.
        pose proof (CS (resolve (XValue v) (if tb then xa st else xb st))) as [_ C2]. rewrite E in C2. cbn [snd] in C2.
        cbn [fst]. rewrite upd_t_a, upd_t_b. cbn [sstep]. destruct tb.
        -- pose proof (set_refines (xb st) (xa st) n (XValue v) K' OK Ib) as R. rewrite KB in R. rewrite R. cbn [fst]. rewrite C2. reflexivity.
        -- pose proof (set_refines (xa st) (xb st) n (XValue v) K OK Ia) as R. rewrite R. cbn [fst]. rewrite C2. reflexivity.
      * (* the other object *)
        destruct (cxx_set_property (if tb then xb st else xa st) n
                    (Some (if is_named n then cxx_named_source (if tb then xa st else xb st) else SObj (if tb then xa st else xb st))))
          as [r tg'] eqn:E.
        pose proof (CS (Some (if is_named n then cxx_named_source (if tb then xa st else xb st) else SObj (if tb then xa st else xb st))))
          as [_ C2]. rewrite E in C2. cbn [snd] in C2.
        cbn [fst]. rewrite upd_t_a, upd_t_b.
        destruct n as [[|c n]|]; cbn [is_named] in *; unfold bytes in *.
        -- destruct tb.
           ++ pose proof (set_refines (xb st) (xa st) (Some []) XOther K' Logic.I Ib) as R. rewrite KB in R.
              unfold of_osrc, resolve in R. unfold bytes in *. rewrite R. cbn [fst]. rewrite C2. reflexivity.
           ++ pose proof (set_refines (xa st) (xb st) (Some []) XOther K Logic.I Ia) as R.
              unfold of_osrc, resolve in R. unfold bytes in *. rewrite R. cbn [fst]. rewrite C2. reflexivity.
        -- destruct tb.
           ++ pose proof (named_other_refines (xb st) (xa st) c n K' Ib) as R. rewrite KB in R. rewrite R. cbn [fst]. rewrite C2. reflexivity.
           ++ pose proof (named_other_refines (xa st) (xb st) c n K Ia) as R. rewrite R. cbn [fst]. rewrite C2. reflexivity.
        -- destruct tb.
           ++ pose proof (set_refines (xb st) (xa st) None XOther K' Logic.I Ib) as R. rewrite KB in R.
              unfold of_osrc, resolve in R. unfold bytes in *. rewrite R. cbn [fst]. rewrite C2. reflexivity.
           ++ pose proof (set_refines (xa st) (xb st) None XOther K Logic.I Ia) as R.
              unfold of_osrc, resolve in R. unfold bytes in *. rewrite R. cbn [fst]. rewrite C2. reflexivity.
    + (* lookup: no change *)
      cbn [xstep xsstep step sstep]. cbn. reflexivity.
    + (* mpt_object_set_property *)
      destruct OK as [W NV]. cbn [xstep xsstep step sstep]. destruct tb.
      * pose proof (set_property_refines (xb st) (xa st) fl n s K' W Ib NV) as R. rewrite KB in R. rewrite R.
        destruct (set_property_op (xb st) (xa st) fl n s) as [t b']. cbn. reflexivity.
      * pose proof (set_property_refines (xa st) (xb st) fl n s K W Ia NV) as R. rewrite R.
        destruct (set_property_op (xa st) (xb st) fl n s) as [t a']. cbn. reflexivity.
  - destruct (xstep_pure st (XClone tb) Logic.I) as [A B]. rewrite A, B. reflexivity.
  - cbn [xstep xsstep fst]. rewrite upd_t_a, upd_t_b. destruct tb; reflexivity.
  - cbn [xstep xsstep xop_ok] in *.
    destruct (cxx_cset (if tb then xb st else xa st) w t) as [[r o']|] eqn:E.
    + destruct (cset_refines _ _ _ _ _ OK E) as (p & P & A & _).
      cbn [fst]. rewrite upd_t_a, upd_t_b. destruct tb.
      * rewrite KB in P. rewrite P. cbn [fst]. rewrite A. reflexivity.
      * rewrite P. cbn [fst]. rewrite A. reflexivity.
    + assert (cset_prop (kind_of (xa st)) w = None) as N.
      { destruct tb; [rewrite <- KB|]; unfold cxx_cset in E;
          match type of E with context [match ?o with _ => _ end] => destruct o end; destruct w; try discriminate E; reflexivity. }
      rewrite N. reflexivity.
  - destruct (xstep_pure st (XConv tb q) Logic.I) as [A B]. rewrite A, B. reflexivity.
  - destruct (xstep_pure st (XLreset tb) Logic.I) as [A B]. rewrite A, B. reflexivity.
  - destruct (xstep_pure st (XGadd tb ia nm) Logic.I) as [A B]. rewrite A, B. reflexivity.
  - destruct (xstep_pure st (XGitem tb ty nm pr t o) Logic.I) as [A B]. rewrite A, B. reflexivity.
  - destruct (xstep_pure st (XGbind tb) Logic.I) as [A B]. rewrite A, B. reflexivity.
  - destruct (xstep_pure st (XGtr tb) Logic.I) as [A B]. rewrite A, B. reflexivity.
Qed.
