(* C20/LayoutSetProp.v — mpt_object_set_property (flag handling, name modes) refines the specification's step:
   the traverse flags gate the call, an unknown name is the only source of BadArgument, everything else is the
   set step already proved. *)
Require Import List String Ascii NArith ZArith Bool Lia.
Import ListNotations.
From MptV Require Import C20.LayoutTypes C20.LayoutConv C20.Gen_Layout C20.LayoutModel C20.LayoutSpec
  C20.LayoutLemmas C20.LayoutAbs C20.LayoutFields C20.LayoutRefineAxis C20.LayoutRefineGraph C20.LayoutRefine.
Local Open Scope Z_scope.

(* error codes a value can be refused with: BadValue, BadType, MissingData — never BadArgument *)
Definition vcode (e : Z) : Prop := e = BadValue \/ e = BadType \/ e = MissingData.

Lemma conv_uint_code m b t e : conv_uint m b t = CErr e -> vcode e.
Proof.
  unfold conv_uint, vcode. destruct t; [discriminate|].
  destruct (numeral b (n :: t)) as [[[neg v] k]|]; [|destruct (all_space (n :: t)); intros H; inversion H; auto].
  destruct (18446744073709551615 <? v); [intros H; inversion H; auto|].
  destruct (neg && negb (v =? 0)); [intros H; inversion H; auto|].
  destruct (m <? v); intros H; inversion H; auto.
Qed.
Lemma conv_sint_code lo hi b t e : conv_sint lo hi b t = CErr e -> vcode e.
Proof.
  unfold conv_sint, vcode. destruct t; [discriminate|].
  destruct (numeral b (n :: t)) as [[[neg v] k]|]; [|destruct (all_space (n :: t)); intros H; inversion H; auto].
  destruct (((if neg then - v else v) <? -9223372036854775808) || (9223372036854775807 <? (if neg then - v else v)));
    [intros H; inversion H; auto|].
  destruct (((if neg then - v else v) <? lo) || (hi <? (if neg then - v else v))); intros H; inversion H; auto.
Qed.
Lemma conv_flt_code o t e : conv_flt o t = CErr e -> vcode e.
Proof.
  unfold conv_flt, vcode. destruct t; [discriminate|].
  destruct (fo_ovf o); [intros H; inversion H; auto|].
  destruct (fo_end o =? 0); [|discriminate]. destruct (all_space (n :: t)); intros H; inversion H; auto.
Qed.
Lemma convert_number_code ty o t e : convert_number ty o t = CErr e -> vcode e.
Proof.
  unfold convert_number. destruct ty.
  - destruct (conv_uint 255 0 t) eqn:E; try discriminate. intros H; inversion H; subst. eapply conv_uint_code; eauto.
  - destruct (conv_sint (-32768) 32767 0 t) eqn:E; try discriminate. intros H; inversion H; subst. eapply conv_sint_code; eauto.
  - destruct (conv_uint 4294967295 0 t) eqn:E; try discriminate. intros H; inversion H; subst. eapply conv_uint_code; eauto.
  - destruct (conv_sint (-2147483648) 2147483647 0 t) eqn:E; try discriminate. intros H; inversion H; subst. eapply conv_sint_code; eauto.
  - destruct (conv_flt o t) eqn:E; try discriminate. intros H; inversion H; subst. eapply conv_flt_code; eauto.
  - destruct (conv_flt o t) eqn:E; try discriminate. intros H; inversion H; subst. eapply conv_flt_code; eauto.
  - destruct (skip_space t); [discriminate|]. destruct (is_graph n); [discriminate|]. intros H; inversion H. unfold vcode; auto.
Qed.
Lemma src_number_code ty s e : src_number ty s = CErr e -> vcode e.
Proof.
  destruct s as [t o|v|x]; cbn [src_number].
  - destruct t as [t|]; [|discriminate]. unfold text_number. destruct t; [discriminate|].
    destruct (convert_number ty _ (skip_space (n :: t))) eqn:E; try discriminate.
    intros H; inversion H; subst. eapply convert_number_code; eauto.
  - unfold value_number, vcode. intros H.
    repeat match type of H with context [match ?x with _ => _ end] => destruct x end;
      try discriminate H; inversion H; auto.
  - intros H; inversion H. unfold vcode; auto.
Qed.
Lemma src_str_code s e : src_str s = CErr e -> vcode e.
Proof. unfold src_str, vcode. destruct s as [t o|v|x]; try destruct v; intros H; inversion H; auto. Qed.
Lemma src_key_code s e : src_key s = CErr e -> vcode e.
Proof.
  unfold src_key, vcode. destruct s as [t o|v|x]; [|intros H; inversion H; auto|intros H; inversion H; auto].
  destruct t as [[|c t]|]; try discriminate. destruct (take_word (skip_space (c :: t))); intros H; inversion H; auto.
Qed.
Lemma fpoint_code s a b e : fpoint_set s a b = FErr e -> vcode e.
Proof.
  unfold fpoint_set, vcode. intros H.
  repeat match type of H with context [match ?x with _ => _ end] => destruct x end;
    try discriminate H; inversion H; auto.
Qed.
Lemma color_pset_code cur s e v : color_pset cur s = (SFail e, v) -> vcode e.
Proof.
  unfold color_pset, vcode. intros H.
  repeat match type of H with context [match ?x with _ => _ end] => destruct x end;
    try discriminate H; inversion H; auto.
Qed.
Lemma string_pset_code cur s e v : string_pset cur s = (SFail e, v) -> vcode e.
Proof.
  unfold string_pset. destruct (src_vec s); try discriminate;
    destruct (src_str s) as [e'| | |[t|]] eqn:E; try discriminate; intros H; inversion H; subst; eapply src_str_code; eauto.
Qed.
Lemma lattr_pset_code cur s d lo hi e v : lattr_pset cur s d lo hi = (SFail e, v) -> vcode e.
Proof.
  unfold lattr_pset. intros H.
  destruct (src_number NU8 s) as [e1| | |v1] eqn:E1.
  - destruct (src_number NI32 s) as [e2| | |v2] eqn:E2.
    + inversion H; subst. eapply src_number_code; eauto.
    + discriminate.
    + destruct ((cur <? lo) || (hi <? cur)); inversion H. unfold vcode; auto.
    + destruct ((nv_int v2 <? 0) || (255 <? nv_int v2)); [inversion H; unfold vcode; auto|].
      destruct ((nv_int v2 <? lo) || (hi <? nv_int v2)); inversion H. unfold vcode; auto.
  - discriminate.
  - destruct ((cur <? lo) || (hi <? cur)); inversion H. unfold vcode; auto.
  - destruct ((nv_int v1 <? lo) || (hi <? nv_int v1)); inversion H. unfold vcode; auto.
Qed.

(* ---- field setters ---- *)
Lemma num_field_code {O} ty s (o : O) d wr e o' : num_field ty s o d wr = (SFail e, o') -> vcode e.
Proof.
  unfold num_field. destruct s as [src|]; [|discriminate].
  destruct (src_number ty src) eqn:E; try discriminate. intros H; inversion H; subst. eapply src_number_code; eauto.
Qed.
Lemma str_field_code {O} s (o : O) cur wr e o' : str_field s o cur wr = (SFail e, o') -> vcode e.
Proof.
  unfold str_field. destruct s as [src|]; [|discriminate].
  destruct (string_pset cur src) as [[|e'] v] eqn:E; intros H; inversion H; subst. eapply string_pset_code; eauto.
Qed.
Lemma col_field_code {O} s (o : O) cur d wr e o' : col_field s o cur d wr = (SFail e, o') -> vcode e.
Proof.
  unfold col_field. destruct s as [src|]; [|discriminate].
  destruct (color_pset cur src) as [[|e'] v] eqn:E; intros H; inversion H; subst. eapply color_pset_code; eauto.
Qed.
Lemma lat_field_code {O} s (o : O) cur d lo hi wr e o' : lat_field s o cur d lo hi wr = (SFail e, o') -> vcode e.
Proof.
  unfold lat_field. destruct s as [src|]; [|discriminate].
  destruct (lattr_pset cur src d lo hi) as [[|e'] v] eqn:E; intros H; inversion H; subst. eapply lattr_pset_code; eauto.
Qed.
Lemma attr_field_code {O} w s (o : O) a wr e o' : attr_field w s o a wr = (SFail e, o') -> vcode e.
Proof. unfold attr_field. destruct w as [|[|[|w]]]; apply lat_field_code. Qed.
Lemma pt_field_code {O} s (o : O) rm dx dy wr e o' : pt_field s o rm dx dy wr = (SFail e, o') -> vcode e.
Proof.
  unfold pt_field. destruct s as [src|]; [|discriminate].
  destruct (fpoint_set src 0%N rm) eqn:E; try discriminate. intros H; inversion H; subst. eapply fpoint_code; eauto.
Qed.
Lemma chr_or_key_code {O} s (o : O) d wr e o' : chr_or_key s o d wr = (SFail e, o') -> vcode e.
Proof.
  unfold chr_or_key. destruct s as [src|]; [|discriminate].
  destruct (src_number NChr src); try discriminate.
  destruct (src_key src) as [e'| | |[|]] eqn:E; try discriminate. intros H; inversion H; subst. eapply src_key_code; eauto.
Qed.
Lemma line_pos_code s o wr e o' : line_pos s o wr = (SFail e, o') -> vcode e.
Proof.
  unfold line_pos, vcode. destruct s as [src|]; [|discriminate].
  destruct (src_number NF32 src); try discriminate. destruct (src_number NF64 src); intros H; inversion H; auto.
Qed.

Ltac code_tac :=
  first [ eapply num_field_code; eassumption | eapply str_field_code; eassumption
        | eapply col_field_code; eassumption | eapply attr_field_code; eassumption
        | eapply pt_field_code; eassumption | eapply chr_or_key_code; eassumption
        | eapply line_pos_code; eassumption ].

Lemma axis_field_code f s o e o' : axis_set_field f s o = (SFail e, o') -> vcode e.
Proof.
  destruct f; cbn [axis_set_field]; intros H; try code_tac.
  destruct s as [src|]; [|discriminate].
  destruct (src_number NU8 src) eqn:E; try discriminate.
  assert (vcode e0) by (eapply src_number_code; eauto).
  destruct (src_str src) as [| | |[l|]]; try (inversion H; subst; assumption).
  destruct (ncaseeq 3 l (bs "log")); inversion H; subst; assumption.
Qed.
Lemma line_field_code f s o e o' : line_set_field f s o = (SFail e, o') -> vcode e.
Proof. destruct f; cbn [line_set_field]; intros H; code_tac. Qed.
Lemma text_field_code f s o e o' : text_set_field f s o = (SFail e, o') -> vcode e.
Proof. destruct f; cbn [text_set_field]; intros H; code_tac. Qed.
Lemma world_field_code f s o e o' : world_set_field f s o = (SFail e, o') -> vcode e.
Proof. destruct f; cbn [world_set_field]; intros H; code_tac. Qed.
Lemma graph_field_code f s o e o' : graph_set_field f s o = (SFail e, o') -> vcode e.
Proof.
  destruct f; cbn [graph_set_field]; intros H; try code_tac.
  - destruct s as [src|]; [|discriminate]. destruct (src_number NU8 src); try discriminate.
    destruct (src_str src) as [e2| | |[l|]] eqn:E; try discriminate. inversion H; subst. eapply src_str_code; eauto.
  - destruct s as [src|]; [|discriminate]. destruct (src_number NU8 src); try discriminate.
    destruct (src_str src) as [e2| | |[l|]] eqn:E; try discriminate. inversion H; subst. eapply src_str_code; eauto.
Qed.

(* BadArgument is reported exactly for a name the kind does not know *)
Lemma vcode_not_badarg e : vcode e -> e <> BadArgument.
Proof. unfold vcode, BadValue, BadType, MissingData, BadArgument. lia. Qed.

Lemma known_name_code o c n src e o' :
  resolve_name (kind_of o) (c :: n) <> None -> obj_set o (Some (c :: n)) src = (SFail e, o') -> e <> BadArgument.
Proof.
  intros KN H. apply vcode_not_badarg.
  destruct o as [x|x|x|x|x]; cbn [obj_set kind_of] in *.
  - rewrite axis_resolve in KN. unfold axis_set in H. destruct (axis_field_of (c :: n)) as [f|]; [|contradiction].
    destruct (axis_set_field f src x) as [r x'] eqn:E. inversion H; subst. eapply axis_field_code; eauto.
  - rewrite LayoutRefineLine.line_resolve in KN. unfold line_set in H. destruct (line_field_of (c :: n)) as [f|]; [|contradiction].
    destruct (line_set_field f src x) as [r x'] eqn:E. inversion H; subst. eapply line_field_code; eauto.
  - rewrite LayoutRefineText.text_resolve in KN. unfold text_set in H. destruct (text_field_of (c :: n)) as [f|]; [|contradiction].
    destruct (text_set_field f src x) as [r x'] eqn:E. inversion H; subst. eapply text_field_code; eauto.
  - rewrite graph_resolve in KN. unfold graph_set in H. destruct (graph_field_of (c :: n)) as [f|]; [|contradiction].
    destruct (graph_set_field f src x) as [r x'] eqn:E. inversion H; subst. eapply graph_field_code; eauto.
  - rewrite LayoutRefineWorld.world_resolve in KN. unfold world_set in H. destruct (world_field_of (c :: n)) as [f|]; [|contradiction].
    destruct (world_set_field f src x) as [r x'] eqn:E. inversion H; subst. eapply world_field_code; eauto.
Qed.

Lemma unknown_name_code o c n src :
  resolve_name (kind_of o) (c :: n) = None -> obj_set o (Some (c :: n)) src = (SFail BadArgument, o).
Proof.
  intros KN. destruct o as [x|x|x|x|x]; cbn [obj_set kind_of] in *.
  - rewrite axis_resolve in KN. unfold axis_set. destruct (axis_field_of (c :: n)); [discriminate|reflexivity].
  - rewrite LayoutRefineLine.line_resolve in KN. unfold line_set. destruct (line_field_of (c :: n)); [discriminate|reflexivity].
  - rewrite LayoutRefineText.text_resolve in KN. unfold text_set. destruct (text_field_of (c :: n)); [discriminate|reflexivity].
  - rewrite graph_resolve in KN. unfold graph_set. destruct (graph_field_of (c :: n)); [discriminate|reflexivity].
  - rewrite LayoutRefineWorld.world_resolve in KN. unfold world_set. destruct (world_field_of (c :: n)); [discriminate|reflexivity].
Qed.

(* whole-object calls (NULL / empty name) never report BadArgument *)
Lemma whole_code o name src e o' : (name = None \/ name = Some []) -> obj_set o name src = (SFail e, o') -> e <> BadArgument.
Proof.
  intros N H.
  assert (e = BadOperation \/ e = BadType) as C.
  { destruct N as [-> | ->]; destruct o as [x|x|x|x|x]; cbn [obj_set] in H;
      match type of H with (let '(_, _) := ?call in _) = _ => destruct call as [r x'] eqn:E end;
      inversion H; subst;
      unfold axis_set, line_set, text_set, graph_set, world_set in E;
      repeat match type of E with context [match ?x with _ => _ end] => destruct x end;
      try discriminate E; inversion E; auto. }
  unfold BadOperation, BadType, BadArgument in *. lia.
Qed.

(* ---- the refinement ---- *)
Definition sp_tok (r : rtok) : stok :=
  match r with RKn n => TKn n | RK => TK | RE _ => TR | RG e => TG (mksent (pe_name e) (pe_val e) (0 <? pe_ret e)) end.
Definition not_value (s : osrc) : Prop := match s with XValue _ => False | _ => True end.

Lemma sp_fin o other (s : osrc) flags name :
  same_kind o other -> wf_osrc s -> inv o ->
  let R := obj_set o name (resolve s other) in
  let known := match name with
               | Some (c :: n) => match resolve_name (kind_of o) (c :: n) with Some _ => true | None => false end
               | _ => true end in
  (if negb known then ((if has flags TraverseUnknown then TKn TraverseUnknown else TR), abs o)
   else let '(acc, o') := sset (kind_of o) (abs o) (abs other) name (of_osrc s) in ((if acc then TKn 0 else TR), o')) =
  (sp_tok (fst (match R with
                | (SOk, o') => (RKn 0, o')
                | (SFail e, o') => if (e =? BadArgument) && has flags TraverseUnknown then (RKn TraverseUnknown, o') else (RE e, o')
                end)),
   abs (snd (match R with
             | (SOk, o') => (RKn 0, o')
             | (SFail e, o') => if (e =? BadArgument) && has flags TraverseUnknown then (RKn TraverseUnknown, o') else (RE e, o')
             end))).
Proof.
  intros K W I R known. subst R.
  assert (known = false -> exists c n, name = Some (c :: n) /\ resolve_name (kind_of o) (c :: n) = None) as UNK.
  { subst known. destruct name as [[|c n]|]; try discriminate.
    destruct (resolve_name (kind_of o) (c :: n)) eqn:E; [discriminate|]. intros _. eauto. }
  destruct known eqn:KN; cbn [negb].
  - (* the name is known (or no name): BadArgument can not occur *)
    rewrite (set_refines o other name s K W I).
    destruct (obj_set o name (resolve s other)) as [[|e] o'] eqn:E; cbn [fst snd sok sp_tok]; [reflexivity|].
    assert (e <> BadArgument) as NB.
    { subst known. destruct name as [[|c n]|].
      - eapply whole_code; [right; reflexivity|exact E].
      - eapply known_name_code; [|exact E]. destruct (resolve_name (kind_of o) (c :: n)); [discriminate|discriminate].
      - eapply whole_code; [left; reflexivity|exact E]. }
    replace (e =? BadArgument) with false by (symmetry; apply Z.eqb_neq; exact NB). cbn [andb fst snd sp_tok]. reflexivity.
  - destruct (UNK eq_refl) as (c & n & -> & RN).
    rewrite (unknown_name_code o c n (resolve s other) RN). cbn [fst snd].
    change (BadArgument =? BadArgument) with true. cbn [andb].
    destruct (has flags TraverseUnknown); reflexivity.
Qed.

Theorem set_property_refines o other flags name (s : osrc) :
  same_kind o other -> wf_osrc s -> inv o -> not_value s ->
  sprop (kind_of o) (abs o) (abs other) flags name s =
  (sp_tok (fst (set_property_op o other flags name s)), abs (snd (set_property_op o other flags name s))).
Proof.
  intros K W I NV. unfold sprop, set_property_op.
  destruct (match name with None => negb (has flags TraverseEmpty) | Some _ => false end); [reflexivity|].
  pose proof (sp_fin o other s flags name K W I) as F. cbv zeta in F.
  destruct s as [|t orc|v|]; [| | contradiction |]; cbn [resolve of_osrc] in *.
  - destruct (has flags TraverseDefault); cbn [negb]; [|reflexivity]. exact F.
  - destruct (has flags TraverseChange); cbn [negb]; [|reflexivity]. exact F.
  - destruct (has flags TraverseChange); cbn [negb]; [|reflexivity]. exact F.
Qed.
