(* C20/LayoutLemmas.v — generic lemmas: byte strings, case folding, association lists, the abstraction
   function from model objects to the specification's property lists. *)
Require Import List String Ascii NArith ZArith Bool Lia.
Import ListNotations.
From MptV Require Import C20.LayoutTypes C20.LayoutConv C20.Gen_Layout C20.LayoutModel C20.LayoutSpec.
Local Open Scope Z_scope.

Lemma beq_refl a : beq a a = true.
Proof. induction a; cbn; auto. rewrite N.eqb_refl; auto. Qed.

Lemma beq_eq a b : beq a b = true <-> a = b.
Proof.
  revert b; induction a; destruct b; cbn; split; intros H; try congruence; auto.
  - apply andb_true_iff in H as [H1 H2]. apply N.eqb_eq in H1. apply IHa in H2. congruence.
  - inversion H; subst. rewrite N.eqb_refl. apply beq_refl.
Qed.

Lemma beq_sym a b : beq a b = beq b a.
Proof. revert b; induction a; destruct b; cbn; auto. rewrite N.eqb_sym, IHa; auto. Qed.

Lemma caseeq_lowers a b : caseeq a b = beq (map lower a) (map lower b).
Proof. revert b; induction a; destruct b; cbn; auto. rewrite IHa; auto. Qed.

Lemma ncaseeq_firstn n a b : ncaseeq n a b = beq (map lower (firstn n a)) (map lower (firstn n b)).
Proof.
  revert a b; induction n; intros; cbn; auto.
  destruct a, b; cbn; auto. rewrite IHn; auto.
Qed.

Lemma lower_idem c : lower (lower c) = lower c.
Proof.
  unfold lower. destruct ((65 <=? c)%N && (c <=? 90)%N) eqn:E; auto.
  - apply andb_true_iff in E as [A B]. apply N.leb_le in A, B.
    destruct ((65 <=? c + 32)%N && (c + 32 <=? 90)%N) eqn:F; auto.
    apply andb_true_iff in F as [_ F]. apply N.leb_le in F. lia.
  - rewrite E; auto.
Qed.

(* ---- association lists ---- *)
Lemma aget_aput_same o p v : aget o p <> None -> aget (aput o p v) p = Some v.
Proof.
  induction o as [|[n w] o]; cbn; intros H; [congruence|].
  destruct (beq n p) eqn:E; cbn; rewrite E; auto.
Qed.

Lemma aget_aput_other o p q v : beq p q = false -> aget (aput o p v) q = aget o q.
Proof.
  intros H. induction o as [|[n w] o]; cbn; auto.
  destruct (beq n p) eqn:E; cbn.
  - apply beq_eq in E; subst. rewrite H; auto.
  - destruct (beq n q); auto.
Qed.

Lemma aput_names o p v : map fst (aput o p v) = map fst o.
Proof. induction o as [|[n w] o]; cbn; auto. destruct (beq n p); cbn; congruence. Qed.

Lemma aput_absent o p v : aget o p = None -> aput o p v = o.
Proof.
  induction o as [|[n w] o]; cbn; auto. destruct (beq n p); [congruence|]. intros H; rewrite IHo; auto.
Qed.

(* ---- C strings ---- *)
Definition no_nul (t : bytes) : bool := forallb (fun c => negb (N.eqb c 0)) t.
Lemma cstr_id t : no_nul t = true -> cstr t = t.
Proof.
  induction t; cbn; auto. intros H. apply andb_true_iff in H as [A B].
  destruct (N.eqb a 0); cbn in *; [congruence|]. rewrite IHt; auto.
Qed.
Lemma firstn_length_id {A} (l : list A) : firstn (List.length l) l = l.
Proof. apply firstn_all. Qed.

(* sources a C caller can form: texts are NUL terminated strings *)
Definition wf_text (t : option bytes) : Prop := match t with None => True | Some b => no_nul b = true end.
Definition wf_source (s : source) : Prop :=
  match s with SText t _ => wf_text t | SValue (VS t) => wf_text t | _ => True end.
Definition wf_osrc (s : osrc) : Prop :=
  match s with XText t _ => wf_text t | XValue (VS t) => wf_text t | _ => True end.

(* ---- abstraction ---- *)
Definition abs (o : anyobj) : aobj := map (fun e => (pe_name e, pe_val e)) (obj_listed o).

Definition sok (r : sres) : bool := match r with SOk => true | SFail _ => false end.
