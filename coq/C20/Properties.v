(* C20/Properties.v — C20 "Layout object properties round-trip and do not interfere": statements only
   (proofs in LayoutRefine*.v, LayoutColour.v, LayoutMatch.v, LayoutTables.v, LayoutAbs.v), non-vacuity
   examples, Print Assumptions.

   Reading guide.  [obj_set o name src] is mpt_{axis,line,text,graph,world}_set on the struct record [o]
   (name: None = NULL, Some [] = "", src: None = reset, Some (SText ..) = text through mpt_object_set_string,
   Some (SValue ..) = typed value through mpt_object_set_value, Some (SObj ..) = another object).
   [abs o] is what mpt_*_get shows by position through the REGENERATED read tables of Gen_Layout.v.
   [sset]/[denote]/[resolve_name]/[defaults] are the specification (LayoutSpec.v).  [wf_*]: texts are C strings
   (no NUL inside); [inv]: an axis has the logarithmic flag only together with interval count 0, a graph's clip mask
   is not negative (kept by every operation, established by every default / constructor: theorems C20_inv_default, C20_inv_cxx_new).  All statements are for ALL objects, names, texts, values, oracle answers. *)
Require Import List String Ascii NArith ZArith Bool.
Import ListNotations.
From MptV Require Import C20.LayoutTypes C20.LayoutConv C20.Gen_Layout C20.LayoutModel C20.LayoutSpec
  C20.LayoutLemmas C20.LayoutAbs C20.LayoutFields C20.LayoutColour C20.LayoutRefineAxis C20.LayoutRefine
  C20.LayoutRefineGraph C20.LayoutMatch C20.LayoutTables C20.LayoutGet C20.LayoutSetProp C20.LayoutCxx C20.LayoutHistory
  C20.LayoutCxxModel C20.LayoutCxxSpec C20.LayoutCopy C20.LayoutCxxProofs C20.LayoutLoad C20.LayoutLoadSpec C20.LayoutLoadProofs.
Local Open Scope Z_scope.

(* every set / reset / assignment step is the specification's step on the listed properties *)
Theorem C20_set_refines : forall o other name (s : osrc),
  same_kind o other -> wf_osrc s -> inv o ->
  sset (kind_of o) (abs o) (abs other) name (of_osrc s) =
  (sok (fst (obj_set o name (resolve s other))), abs (snd (obj_set o name (resolve s other)))).
Proof. exact set_refines. Qed.

(* ... and so is every history of such steps on two objects (accept/refuse decision and both property lists) *)
Theorem C20_history_refines : forall ops a b,
  same_kind a b -> inv a -> inv b -> Forall set_only ops ->
  mrun_abs (a, b) ops = srun_abs (kind_of a) (abs a, abs b) ops.
Proof. exact history_refines. Qed.

(* set_get: a value the property accepts (it denotes v for the property's kind) is stored and reads back *)
Theorem C20_set_get : forall o c n p h src v,
  wf_source src -> inv o ->
  resolve_name (kind_of o) (c :: n) = Some (p, h) ->
  denote h (aget (abs o) p) (ok_default (kind_of o) p) src = DVal v -> aget (abs o) p <> None ->
  sok (fst (obj_set o (Some (c :: n)) (Some src))) = true /\
  aget (abs (snd (obj_set o (Some (c :: n)) (Some src)))) p = Some (coerce (ok_default (kind_of o) p) v).
Proof. exact set_get. Qed.

(* set_frame: whatever the source (value, reset, other object), accepted or not, no OTHER listed property changes *)
Theorem C20_set_frame : forall o other (s : osrc),
  same_kind o other -> wf_osrc s -> inv o ->
  forall c n p h q, resolve_name (kind_of o) (c :: n) = Some (p, h) -> beq p q = false ->
  aget (abs (snd (obj_set o (Some (c :: n)) (resolve s other)))) q = aget (abs o) q.
Proof. exact set_frame. Qed.

(* reset_default: a reset restores the documented default (regenerated defaults); x / y restore their half *)
Theorem C20_reset_default : forall o c n p h,
  inv o -> resolve_name (kind_of o) (c :: n) = Some (p, h) -> aget (abs o) p <> None ->
  sok (fst (obj_set o (Some (c :: n)) None)) = true /\
  let o' := snd (obj_set o (Some (c :: n)) None) in
  let d := ok_default (kind_of o) p in
  match h with
  | HPtX => forall x y, aget (abs o) p = Some (PPt x y) -> aget (abs o') p = Some (PPt (pt_x d) y)
  | HPtY => forall x y, aget (abs o) p = Some (PPt x y) -> aget (abs o') p = Some (PPt x (pt_y d))
  | _ => aget (abs o') p = Some d
  end.
Proof. exact reset_default. Qed.

(* refused_unchanged: a refused call leaves every struct member as it was (not only the listed properties) *)
Theorem C20_refused_unchanged : forall o name src e o', obj_set o name src = (SFail e, o') -> o' = o.
Proof. exact obj_set_refused. Qed.

(* a name the kind does not know is refused *)
Theorem C20_unknown_name_refused : forall o other (s : osrc),
  same_kind o other -> wf_osrc s -> inv o ->
  forall c n, resolve_name (kind_of o) (c :: n) = None -> sok (fst (obj_set o (Some (c :: n)) (resolve s other))) = false.
Proof. exact unknown_refused. Qed.

(* copy_equal: generic assignment (NULL or "" name) from an object of the same kind gives an equal object
   (all struct members; that the strings are OWN copies is observed by ASan/LeakSanitizer, not proved) *)
Theorem C20_copy_equal : forall o other name,
  same_kind o other -> (name = None \/ name = Some []) -> obj_set o name (Some (SObj other)) = (SOk, other).
Proof. exact copy_equal. Qed.

(* colour_print_parse: an accepted colour text denotes the same colour when printed (mpt++/color.cpp) and
   parsed again; every colour with byte components prints to a text that parses back to it; the strict
   grammar (8 names, #rr, #rrgg, #rrggbb, #rrggbbaa) is accepted with its value *)
Theorem C20_colour_print_parse : forall t c, color_parse t = Some c -> color_parse (Some (color_print c)) = Some c.
Proof. exact accepted_print_parse. Qed.
Theorem C20_colour_print_parse_all : forall c, bounded c -> color_parse (Some (color_print c)) = Some c.
Proof. exact print_parse. Qed.
Theorem C20_colour_strict_accepted : forall t a r g b,
  spec_colour_strict t = Some (a, r, g, b) -> color_parse (Some t) = Some (mkcol a r g b).
Proof. exact strict_parse. Qed.

(* prefix_match_unique: mpt_property_match returns index i iff entry i is the first whose first mlen characters
   agree with the name (whole name for mlen < 0) and, unless that entry is shorter than mlen, no later entry
   agrees as well; otherwise it refuses *)
Theorem C20_prefix_match_unique : forall m mlen l i,
  property_match m mlen l 0 = Z.of_nat i <-> selected m mlen l i.
Proof. exact match_selected0. Qed.
Theorem C20_prefix_match_refused : forall m mlen l,
  (forall i, ~ selected m mlen l i) <-> property_match m mlen l 0 < 0.
Proof. exact match_refused. Qed.

(* get_table_fields_disjoint_in_bounds: finite sweep over Gen_Layout's read tables (all_tables = the five
   kinds' tables and the by-name x / y rows of text) *)
Theorem C20_get_table_fields_disjoint_in_bounds : forall t, In t all_tables ->
  (forall r, In r (td_rows t) -> row_in_bounds t r = true) /\
  (forall i j a b, (i < j)%nat -> nth_error (td_rows t) i = Some a -> nth_error (td_rows t) j = Some b ->
                   rows_disjoint a b = true).
Proof. exact get_table_fields_disjoint_in_bounds. Qed.

(* the static initialisers agree with the defaults observed on default objects *)
Theorem C20_defaults_match : forall n, abs (default_of n) = defaults (kind_no n).
Proof. exact defaults_match. Qed.

(* ---- lookup by name through the regenerated tables ---- *)
(* mpt_property_match computes the specification's matching rule *)
Theorem C20_match_is_spec : forall m mlen l,
  match spec_match m mlen l with
  | Some i => property_match m mlen l 0 = Z.of_nat i
  | None => property_match m mlen l 0 < 0
  end.
Proof. exact match_spec. Qed.
(* mpt_*_get by name (any prefix, any case): the property the rule selects, its value, and a return value that
   says "differs from the default" exactly when the value is not the documented default *)
Theorem C20_get_by_name : forall o name, inv o -> not_xy o name ->
  match obj_get o name with
  | inl _ => sget (kind_of o) (abs o) name = TR
  | inr e => sget (kind_of o) (abs o) name = TG (mksent (pe_name e) (pe_val e) (0 <? pe_ret e))
  end.
Proof. exact get_refines. Qed.
Theorem C20_get_text_xy : forall x c,
  match obj_get (OText x) [c] with
  | inl _ => sget KText (abs (OText x)) [c] = TR
  | inr e => exists d, sget KText (abs (OText x)) [c] = TG (mksent (pe_name e) (pe_val e) d)
  end.
Proof. exact get_text_xy. Qed.
(* every enumerated property: return value > 0 iff the value is not the documented default *)
Theorem C20_get_flags : forall o, inv o -> Forall (flag_ok (kind_of o)) (obj_listed o).
Proof. exact listed_flags. Qed.

(* ---- mpt_object_set_property: flags, name modes, BadArgument only for unknown names ---- *)
Theorem C20_set_property_refines : forall o other flags name (s : osrc),
  same_kind o other -> wf_osrc s -> inv o -> not_value s ->
  sprop (kind_of o) (abs o) (abs other) flags name s =
  (sp_tok (fst (set_property_op o other flags name s)), abs (snd (set_property_op o other flags name s))).
Proof. exact set_property_refines. Qed.

(* ---- histories over all operations, and from default / constructed objects without hypothesis ---- *)
Theorem C20_history_states : forall ops a b,
  same_kind a b -> inv a -> inv b -> Forall op_ok ops ->
  mstates (a, b) ops = sstates (kind_of a) (abs a, abs b) ops.
Proof. exact history_states. Qed.
Theorem C20_history_states_from_init : forall n ops, Forall op_ok ops ->
  mstates (default_of n, default_of n) ops = sstates (kind_no n) (defaults (kind_no n), defaults (kind_no n)) ops.
Proof. exact history_states_from_init. Qed.
Theorem C20_history_from_init : forall n ops, Forall set_only ops ->
  mrun_abs (default_of n, default_of n) ops = srun_abs (kind_no n) (defaults (kind_no n), defaults (kind_no n)) ops.
Proof. exact history_from_init. Qed.
Theorem C20_inv_default : forall n, inv (default_of n).
Proof. exact inv_default. Qed.

(* ---- mpt++ classes: the object interface is the C function on the properties ---- *)
Theorem C20_cxx_set_is_c : forall o name src, cxx_set_property o name src = obj_set o name src.
Proof. exact cxx_set_is_c. Qed.
Theorem C20_cxx_get_is_c : forall o name, cxx_property_by_name o name = obj_get o name.
Proof. exact cxx_get_is_c. Qed.
Theorem C20_cxx_assign : forall o other name, same_kind o other -> (name = None \/ name = Some []) ->
  cxx_set_property o name (Some (cxx_source other)) = (SOk, cxx_clone other).
Proof. exact cxx_assign. Qed.
Theorem C20_inv_cxx_new : forall n, inv (cxx_new n).
Proof. exact inv_cxx_new. Qed.
Theorem C20_inv_cxx_axis : forall flags, inv (cxx_new_axis flags).
Proof. exact inv_cxx_axis. Qed.
Theorem C20_cxx_new_defaults : forall n, abs (cxx_new n) = defaults (kind_no n).
Proof. exact cxx_new_defaults. Qed.

(* ---- mpt++ classes, own logic (LayoutCxxModel.v): constructors with arguments, clone / struct copy, direct setters, an
   object as value of a named property, convert(), graph items / bind, class layout ---- *)
(* every step of the mpt++ harness language acts on the listed properties of both objects as LayoutCxxSpec.xsstep says *)
(* [strs_ok]: the strings an object holds are C strings (no NUL inside); [good o] = [inv o] and [strs_ok o]: kept by every
   step (C20_cxx_step_keeps), established by every constructor (C20_cxx_construct_good) *)
Theorem C20_cxx_step_refines : forall st p,
  same_kind (xa st) (xb st) -> inv (xa st) -> inv (xb st) -> strs_ok (xa st) -> strs_ok (xb st) -> xop_ok p ->
  fst (xsstep (kind_of (xa st)) (abs (xa st), abs (xb st)) p) =
  (abs (xa (fst (xstep st p))), abs (xb (fst (xstep st p)))).
Proof. exact xstep_refines. Qed.
Theorem C20_cxx_step_keeps : forall st p,
  same_kind (xa st) (xb st) -> good (xa st) -> good (xb st) -> xop_ok p ->
  same_kind (xa (fst (xstep st p))) (xb (fst (xstep st p))) /\ good (xa (fst (xstep st p))) /\ good (xb (fst (xstep st p))).
Proof. exact xstep_keeps. Qed.
Theorem C20_cxx_construct_good : forall k arg, good (cxx_construct k arg).
Proof. exact good_construct. Qed.
Theorem C20_set_keeps_strs : forall o other name s, same_kind o other -> wf_osrc s -> inv o -> strs_ok o -> strs_ok other ->
  strs_ok (snd (obj_set o name (resolve s other))).
Proof. exact set_keeps_strs. Qed.
(* object::set(const object &, logger): every property of the other object by value (inheritance of layout items, copies
   made by bind): on the listed properties it is the specification's copy, the invariants are kept.  With the grid type
   of a graph AS PATCHED (docs/C20_grid_by_value.diff) *)
Theorem C20_object_set_refines : forall log tg src, inv tg -> strs_ok tg -> strs_ok src ->
  abs (snd (object_set_from log tg src)) = spec_copy (kind_of tg) log (abs src) (abs tg) /\
  inv (snd (object_set_from log tg src)) /\ strs_ok (snd (object_set_from log tg src)) /\
  kind_of (snd (object_set_from log tg src)) = kind_of tg.
Proof. exact object_set_refines. Qed.
(* the text metatype of a parsed node as source of a named property acts as the plain string it answers with *)
Theorem C20_meta_set_is_value : forall o n t, no_nul t = true -> t <> [] ->
  meta_set o n t = obj_set o (Some n) (Some (SValue (VS (Some t)))).
Proof. exact meta_set_is_value. Qed.
Theorem C20_meta_string_text : forall t, no_nul t = true -> meta_string t = Some t.
Proof. exact meta_string_text. Qed.
(* mpt_lattr_set *)
Theorem C20_lattr_set4_spec : forall a w st sy sz,
  lattr_set4 a w st sy sz =
  match spec_lattr4 w st sy sz with
  | Some (w', st', sy', sz') => (SOk, mklattr st' w' sy' sz')
  | None => (SFail BadValue, a)
  end.
Proof. exact lattr_set4_spec. Qed.
(* the whole-object query (as patched by docs/C20_total_padding.diff): an object equal to the default object in every
   member shows the documented defaults, so a listed property away from its default is reported as a change *)
Theorem C20_total_default : forall o, obj_is_default o = true -> abs o = defaults (kind_of o).
Proof. exact total_default. Qed.
Theorem C20_total_reports_change : forall o, all_default (kind_of o) (abs o) = false -> pe_ret (obj_total o) = 1.
Proof. exact total_reports_change. Qed.
Theorem C20_cxx_construct_inv : forall k arg, inv (cxx_construct k arg).
Proof. exact inv_construct. Qed.
Theorem C20_cxx_axis_ctor_props : forall f, abs (cxx_new_axis f) = defaults KAxis.
Proof. exact construct_axis_props. Qed.
Theorem C20_cxx_world_ctor_props : forall c,
  abs (cxx_new_world c) = aput (defaults KWorld) (bs "cycles") (PInt (if c <? 0 then 1 else c)).
Proof. exact construct_world_props. Qed.
Theorem C20_cxx_direct_setters : forall o w t r o', wf_text t -> cxx_cset o w t = Some (r, o') ->
  exists p, cset_prop (kind_of o) w = Some p /\ abs o' = aput (abs o) p (PStr (nonempty t)) /\ r = true.
Proof. exact cset_refines. Qed.
Theorem C20_cxx_named_object_source : forall o other c n, same_kind o other -> inv o ->
  sset (kind_of o) (abs o) (abs other) (Some (c :: n)) (xs_named_other (kind_of o) (abs other)) =
  (sok (fst (obj_set o (Some (c :: n)) (Some (cxx_named_source other)))),
   abs (snd (obj_set o (Some (c :: n)) (Some (cxx_named_source other))))).
Proof. exact named_other_refines. Qed.
(* layout::graph::bind: a missing item restores the bound lists; a name list binds exactly the named items in order *)
Theorem C20_cxx_bind_failure : forall g x r x', graph_bind g x = (r, x') -> r < 0 -> x' = x.
Proof. exact bind_failure. Qed.
Theorem C20_cxx_bind_axes_named : forall g x x' names, graph_bind g x = (1, x') -> gr_axes g = Some names ->
  map fst (gx_axes x') = map (fun w => Some (last_seg w)) (words names) /\
  Forall (fun nv => exists w, fst nv = Some (last_seg w) /\ find_rel find_axis [gx_items x] w = Some (snd nv)) (gx_axes x').
Proof. exact bind_axes_named. Qed.
(* the same with any relation (bind with the items of another graph, a graph of a layout: own items, then the layout's) *)
Theorem C20_cxx_bind_failure_rel : forall g x chain r x', graph_bind_rel g x chain = (r, x') -> r < 0 -> x' = x.
Proof. exact bind_failure_rel. Qed.
Theorem C20_cxx_bind_axes_named_rel : forall g x chain x' names, graph_bind_rel g x chain = (1, x') -> gr_axes g = Some names ->
  map fst (gx_axes x') = map (fun w => Some (last_seg w)) (words names) /\
  Forall (fun nv => exists w, fst nv = Some (last_seg w) /\ find_rel find_axis chain w = Some (snd nv)) (gx_axes x').
Proof. exact bind_axes_named_rel. Qed.
Theorem C20_bind_plain_name : forall w, existsb (N.eqb 46) w = false -> existsb (N.eqb 58) w = false ->
  find_key w = Some w /\ last_seg w = w.
Proof. exact plain_name. Qed.
(* reading a layout file (layout::load on the entries the parser delivers, add_items, bind): the items, their properties,
   the bound axes / worlds and the graph list are the specification's (LayoutLoadSpec.v: items at their documented
   defaults, parents' properties copied in turn, the entries assigned in their order), for all well formed entries *)
Theorem C20_load_refines : forall ents lay gs, Forall wf_tent ents ->
  let R := load_entries mops ents lay gs in
  load_entries sops ents (labs lay) (fgraphs gs) =
    (fst (fst (fst R)), labs (snd (fst (fst R))), map fnode (snd (fst R)), fgraphs (snd R)) /\ Forall good_node (snd (fst R)).
Proof. exact load_entries_refines. Qed.
Theorem C20_min_scale_refines : forall gs, min_scale sops (fgraphs gs) = min_scale mops gs.
Proof. exact min_scale_refines. Qed.
(* class layout (as patched by docs/c20_proposed_layout_object.diff): set / reset / NULL-name assignment *)
Theorem C20_layout_step_refines : forall (a b : layoutobj) (tb : bool) n s, lay_src_ok s ->
  let src : option source := match s with XReset => None | XText t o => Some (SText t o) | XValue v => Some (SValue v) | XOther => None end in
  let R := layout_set (if tb then b else a) n src in
  fst (lsstep (labs a, labs b) (XBase (OpSet tb n s))) =
  (if tb then (labs a, labs (snd R)) else (labs (snd R), labs b)) /\
  snd (lsstep (labs a, labs b) (XBase (OpSet tb n s))) = XsTok (if sok (fst R) then TK else TR).
Proof. exact layout_step_refines. Qed.

(* ---- non-vacuity: concrete objects and sources meet the hypotheses and exercise non-trivial branches ---- *)
Definition ex_orc := mktorc (mkforc 3 false 1080033280%N) (mkforc 3 false 4615063718147915776%N) no_forc.   (* "3.5" *)
Definition ex_axis := snd (axis_set (snd (axis_set def_axis (Some (bs "title")) (Some (SText (Some (bs "T")) no_torc))))
                                    (Some (bs "subtick")) (Some (SText (Some (bs "3")) no_torc))).
Example C20_ex_inv : inv (OAxis ex_axis) /\ axis_inv def_axis /\ wf_source (SText (Some (bs "3.5")) ex_orc).
Proof. repeat split; vm_compute; congruence. Qed.
Example C20_ex_set_get :
  aget (abs (snd (obj_set (OAxis ex_axis) (Some (bs "BEGIN")) (Some (SText (Some (bs "3.5")) ex_orc))))) (bs "begin")
  = Some (PF64 4615063718147915776%N)
  /\ denote (HNum NF64) (Some (PF64 0%N)) (PF64 0%N) (SText (Some (bs "3.5")) ex_orc) = DVal (PF64 4615063718147915776%N).
Proof. split; vm_compute; reflexivity. Qed.
Example C20_ex_frame :
  aget (abs (snd (obj_set (OAxis ex_axis) (Some (bs "begin")) (Some (SText (Some (bs "3.5")) ex_orc))))) (bs "subtick") = Some (PInt 3)
  /\ aget (abs (snd (obj_set (OAxis ex_axis) (Some (bs "begin")) (Some (SText (Some (bs "3.5")) ex_orc))))) (bs "title")
     = Some (PStr (Some (bs "T"))).
Proof. split; vm_compute; reflexivity. Qed.
Example C20_ex_reset :
  aget (abs (snd (obj_set (OAxis ex_axis) (Some (bs "sub")) None))) (bs "subtick") = Some (PInt 0)
  /\ aget (abs (OAxis ex_axis)) (bs "subtick") = Some (PInt 3).
Proof. split; vm_compute; reflexivity. Qed.
Example C20_ex_refused :
  obj_set (OAxis ex_axis) (Some (bs "subtick")) (Some (SText (Some (bs "300")) no_torc)) = (SFail BadValue, OAxis ex_axis)
  /\ obj_set (OAxis ex_axis) (Some (bs "subtick")) (Some (SValue (VI 105 256 0 0))) = (SFail BadType, OAxis ex_axis)
  /\ fst (obj_set (OAxis ex_axis) (Some (bs "nosuch")) None) = SFail BadArgument.
Proof. repeat split; vm_compute; reflexivity. Qed.
Example C20_ex_copy :
  obj_set (OAxis def_axis) None (Some (SObj (OAxis ex_axis))) = (SOk, OAxis ex_axis)
  /\ abs (OAxis ex_axis) <> abs (OAxis def_axis).
Proof. split; [reflexivity|vm_compute; congruence]. Qed.
Example C20_ex_colour :
  color_parse (Some (bs "#ff000080")) = Some (mkcol 128 255 0 0)
  /\ color_print (mkcol 128 255 0 0) = bs "#ff000080"
  /\ color_parse (Some (bs "Red")) = Some (mkcol 255 255 0 0)
  /\ color_print (mkcol 255 255 0 0) = bs "#ff0000"
  /\ color_parse (Some (bs "#f00")) = None.
Proof. repeat split; vm_compute; reflexivity. Qed.
Example C20_ex_match :
  property_match (bs "tit") 3 (map tr_name axis_table) 0 = 0
  /\ property_match (bs "TPOSITION") 3 (map tr_name axis_table) 0 = 9
  /\ property_match (bs "ti") 3 (map tr_name axis_table) 0 = - BadValue
  /\ property_match (bs "s") 1 (map tr_name world_table) 0 = - BadType
  /\ selected (bs "tit") 3 (map tr_name axis_table) 0.
Proof.
  repeat split; try (vm_compute; reflexivity).
  exists [], (bs "title"), (tl (map tr_name axis_table)). repeat split; try (vm_compute; reflexivity).
  right; right. vm_compute. reflexivity.
Qed.
Example C20_ex_tables : List.length all_tables = 6%nat /\ List.length (td_rows (hd (mktd "" 0 [] []) all_tables)) = 10%nat.
Proof. split; reflexivity. Qed.

Example C20_ex_get :
  (match obj_get (OAxis ex_axis) (bs "SUBxyz") with inr e => (pe_name e, pe_val e, pe_ret e) | inl _ => ([], PNone, 0) end)
  = (bs "subtick", PInt 3, 1)
  /\ sget KAxis (abs (OAxis ex_axis)) (bs "SUBxyz") = TG (mksent (bs "subtick") (PInt 3) true)
  /\ obj_get (OAxis ex_axis) (bs "su") = inl (- BadArgument)
  /\ obj_get (OWorld def_world) (bs "s") = inl (- BadValue)
  /\ not_xy (OAxis ex_axis) (bs "SUBxyz").
Proof. repeat split; vm_compute; reflexivity. Qed.
Example C20_ex_set_property :
  fst (set_property_op (OAxis ex_axis) (OAxis def_axis) 48 (Some (bs "dec")) (XText (Some (bs "4")) no_torc)) = RKn 0
  /\ fst (set_property_op (OAxis ex_axis) (OAxis def_axis) 32 (Some (bs "dec")) (XText (Some (bs "4")) no_torc)) = RKn 16
  /\ fst (set_property_op (OAxis ex_axis) (OAxis def_axis) 176 (Some (bs "nosuch")) (XText (Some (bs "4")) no_torc)) = RKn 128
  /\ fst (set_property_op (OAxis ex_axis) (OAxis def_axis) 48 (Some (bs "nosuch")) (XText (Some (bs "4")) no_torc)) = RE BadArgument
  /\ fst (set_property_op (OAxis ex_axis) (OAxis def_axis) 48 None XReset) = RKn 64
  /\ aget (abs (snd (set_property_op (OAxis ex_axis) (OAxis def_axis) 48 (Some (bs "dec")) (XText (Some (bs "4")) no_torc)))) (bs "decimals")
     = Some (PInt 4).
Proof. repeat split; vm_compute; reflexivity. Qed.
Example C20_ex_cxx :
  cxx_set_property (cxx_new 3) None (Some (cxx_source (cxx_new 3))) = (SOk, cxx_new 3)
  /\ abs (cxx_new_axis 1) = defaults KAxis /\ cxx_new_axis 1 <> cxx_new_axis 0.
Proof. repeat split; try reflexivity. vm_compute. congruence. Qed.
Example C20_ex_history :
  Forall op_ok [OpSet false (Some (bs "int")) (XText (Some (bs "log")) no_torc); OpGet false (bs "int");
                OpSp true 48 (Some (bs "sub")) (XText (Some (bs "2")) no_torc); OpSet false None XOther]
  /\ List.length (mstates (default_of 0, default_of 0)
        [OpSet false (Some (bs "int")) (XText (Some (bs "log")) no_torc); OpGet false (bs "int");
         OpSp true 48 (Some (bs "sub")) (XText (Some (bs "2")) no_torc); OpSet false None XOther]) = 4%nat.
Proof. split; [repeat constructor|reflexivity]. Qed.

Example C20_ex_cxx_ops :
  (let st := mkxs (cxx_construct 2 None) (cxx_construct 2 None) gx_empty gx_empty in
   let st1 := fst (xstep st (XBase (OpSet true (Some (bs "color")) (XText (Some (bs "red")) no_torc)))) in
   let st2 := fst (xstep st1 (XBase (OpSet false (Some (bs "color")) XOther))) in
   aget (abs (xa st2)) (bs "color")) = Some (PCol 255 255 0 0)
  /\ cxx_convert (cxx_construct 4 (Some (-5))) QLattr = (CrMe, CpLattr def_lattr)
  /\ aget (abs (cxx_construct 4 (Some (-5)))) (bs "cycles") = Some (PInt 1)
  /\ xop_ok (XCset false WValue (Some (bs "v"))).
Proof. repeat split; vm_compute; reflexivity. Qed.
Example C20_ex_cxx_bind :
  let items := [(Some (bs "ay"), GIAxis (typed_axis 2)); (Some (bs "ax"), GIAxis (typed_axis 1)); (Some (bs "wl"), GIWorld def_world)] in
  let g := set_gr_axes (Some (bs " ax  ay")) def_graph in
  (fst (graph_bind g (mkgx items [] [] false lim0 [])) = 1
   /\ map fst (gx_axes (snd (graph_bind g (mkgx items [] [] false lim0 [])))) = [Some (bs "ax"); Some (bs "ay")]
   /\ fst (graph_bind (set_gr_axes (Some (bs "no")) def_graph) (mkgx items [] [] false lim0 [])) = - MissingData
   /\ map fst (gx_axes (snd (graph_bind_rel (set_gr_axes (Some (bs "p:ax ay.")) def_graph) gx_empty [[(Some (bs "p:ax"), GIAxis def_axis)]; items])))
      = [Some (bs "ax"); Some (bs "ay.")]).
Proof. repeat split; vm_compute; reflexivity. Qed.
(* copy by properties, the whole-object query, mpt_lattr_set, a layout file *)
Example C20_ex_object_set :
  let src := snd (obj_set (snd (obj_set (OGraph def_graph) (Some (bs "align")) (Some (SText (Some (bs "bez")) no_torc))))
                          (Some (bs "axes")) (Some (SText (Some (bs "ax ay")) no_torc))) in
  good src /\ abs (snd (object_set_from false (OGraph def_graph) src)) = abs src
  /\ fst (object_set_from false (OGraph def_graph) src) = true
  /\ pe_ret (obj_total src) = 1 /\ pe_ret (obj_total (OGraph def_graph)) = 0
  /\ lattr_set4 def_lattr 11 0 0 0 = (SFail BadValue, def_lattr) /\ lattr_set4 def_lattr (-1) 5 8 20 = (SOk, mklattr 5 1 8 20).
Proof. repeat split; try exact Logic.I; try (unfold strs_ok; repeat constructor); vm_compute; try reflexivity; discriminate. Qed.
Example C20_ex_load :
  let ents := [TEProp (mkfp (bs "name") (bs "lay1") no_torc);
               TESect (mkfs (bs "text tx") [GEProp (mkfp (bs "size") (bs "20") no_torc); GEProp (mkfp (bs "value") (bs "Hi") no_torc)]);
               TESect (mkfs (bs "text t2 : tx") [GEProp (mkfp (bs "align") (bs "6") no_torc)]);
               TESect (mkfs (bs "graph g") [GEProp (mkfp (bs "axes") (bs "ax") no_torc); GEItem (mkfl (bs "xaxis ax") [mkfp (bs "title") (bs "X") no_torc])])] in
  Forall wf_tent ents
  /\ (let '(ok, lay, tops, gs) := load_entries mops ents def_layout [] in
      ok = true /\ ly_alias lay = Some (bs "lay1") /\ List.length tops = 3%nat /\ List.length gs = 1%nat
      /\ map (fun t => aget (abs (tn_obj t)) (bs "size")) tops = [Some (PInt 20); Some (PInt 20); None]
      /\ map (fun t => map fst (tn_axes t)) tops = [[]; []; [Some (bs "ax")]]).
Proof. split; [repeat constructor|vm_compute; repeat split; reflexivity]. Qed.
Example C20_ex_layout :
  layout_set def_layout (Some (bs "NAME")) (Some (SText (Some (bs "la")) no_torc)) = (SOk, mklay (Some (bs "la")) None)
  /\ layout_set (mklay (Some (bs "la")) (Some (bs "f"))) (Some (bs "alias")) None = (SOk, mklay None (Some (bs "f")))
  /\ fst (layout_set def_layout (Some (bs "nosuch")) None) = SFail BadArgument
  /\ lay_src_ok (XText (Some (bs "la")) no_torc).
Proof. repeat split; vm_compute; reflexivity. Qed.

Print Assumptions C20_set_refines.
Print Assumptions C20_history_refines.
Print Assumptions C20_set_get.
Print Assumptions C20_set_frame.
Print Assumptions C20_reset_default.
Print Assumptions C20_refused_unchanged.
Print Assumptions C20_unknown_name_refused.
Print Assumptions C20_copy_equal.
Print Assumptions C20_colour_print_parse.
Print Assumptions C20_colour_print_parse_all.
Print Assumptions C20_colour_strict_accepted.
Print Assumptions C20_prefix_match_unique.
Print Assumptions C20_prefix_match_refused.
Print Assumptions C20_get_table_fields_disjoint_in_bounds.
Print Assumptions C20_defaults_match.
Print Assumptions C20_match_is_spec.
Print Assumptions C20_get_by_name.
Print Assumptions C20_get_text_xy.
Print Assumptions C20_get_flags.
Print Assumptions C20_set_property_refines.
Print Assumptions C20_history_states.
Print Assumptions C20_history_states_from_init.
Print Assumptions C20_history_from_init.
Print Assumptions C20_inv_default.
Print Assumptions C20_cxx_set_is_c.
Print Assumptions C20_cxx_get_is_c.
Print Assumptions C20_cxx_assign.
Print Assumptions C20_inv_cxx_new.
Print Assumptions C20_inv_cxx_axis.
Print Assumptions C20_cxx_new_defaults.
Print Assumptions C20_cxx_step_refines.
Print Assumptions C20_cxx_construct_inv.
Print Assumptions C20_cxx_axis_ctor_props.
Print Assumptions C20_cxx_world_ctor_props.
Print Assumptions C20_cxx_direct_setters.
Print Assumptions C20_cxx_named_object_source.
Print Assumptions C20_cxx_bind_failure.
Print Assumptions C20_cxx_bind_axes_named.
Print Assumptions C20_layout_step_refines.
Print Assumptions C20_cxx_step_keeps.
Print Assumptions C20_cxx_construct_good.
Print Assumptions C20_set_keeps_strs.
Print Assumptions C20_object_set_refines.
Print Assumptions C20_meta_set_is_value.
Print Assumptions C20_meta_string_text.
Print Assumptions C20_lattr_set4_spec.
Print Assumptions C20_total_default.
Print Assumptions C20_total_reports_change.
Print Assumptions C20_cxx_bind_failure_rel.
Print Assumptions C20_cxx_bind_axes_named_rel.
Print Assumptions C20_bind_plain_name.
Print Assumptions C20_load_refines.
Print Assumptions C20_min_scale_refines.
