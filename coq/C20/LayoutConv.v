(* C20/LayoutConv.v — executable model (NO proofs) of the value sources the layout property setters see
   through the convertable interface:
     - text handed to mpt_object_set_string (iterConv in object_set_string.c -> mpt_convert_string ->
       mpt_convert_number -> _mpt_convert_int/_uint, mpt_cfloat/mpt_cdouble, 'c', 'k'),
     - typed values handed to mpt_object_set_value (valueConvert -> mpt_value_convert -> data converters),
   reduced to the conversion requests the property files make.  Floating point parsing/rounding is NOT
   modelled: the libc answer (strtof/strtod: consumed length, overflow, bit pattern) and the hardware
   images of integers/floats in the other float format are part of the case (oracle, see DESIGN 3.2). *)
Require Import List String Ascii NArith ZArith Bool.
Import ListNotations.
From MptV Require Import C20.LayoutTypes.
Local Open Scope Z_scope.

(* error codes (magnitudes of MPT_ERROR(...)) *)
Definition BadArgument : Z := 1.
Definition BadValue : Z := 2.
Definition BadType : Z := 3.
Definition BadOperation : Z := 4.
Definition MissingData : Z := 16.

(* result of one conversion request:
   CErr e   negative return
   CZero    return 0: "no value" (setters fall back to the default)
   CKeep    positive return, destination NOT written (empty / white-space-only text)
   CVal v   positive return, destination written with v *)
Inductive cres (A : Type) := CErr (e : Z) | CZero | CKeep | CVal (v : A).
Arguments CErr {A} e. Arguments CZero {A}. Arguments CKeep {A}. Arguments CVal {A} v.

(* ---- "C" locale character classes (ASCII tables) ---- *)
Definition is_space (c : N) : bool := (N.eqb c 32 || (N.leb 9 c && N.leb c 13))%N.
Definition is_graph (c : N) : bool := (N.leb 33 c && N.leb c 126)%N.
Definition lower (c : N) : N := if (N.leb 65 c && N.leb c 90)%N then (c + 32)%N else c.
Fixpoint skip_space (t : bytes) : bytes :=
  match t with c :: r => if is_space c then skip_space r else t | [] => [] end.
(* strcasecmp(a, b) == 0 *)
Fixpoint caseeq (a b : bytes) : bool :=
  match a, b with
  | [], [] => true
  | x :: a', y :: b' => N.eqb (lower x) (lower y) && caseeq a' b'
  | _, _ => false
  end.
(* strncasecmp(a, b, n) == 0 *)
Fixpoint ncaseeq (n : nat) (a b : bytes) : bool :=
  match n with
  | O => true
  | S n' =>
    match a, b with
    | [], [] => true
    | x :: a', y :: b' => N.eqb (lower x) (lower y) && ncaseeq n' a' b'
    | _, _ => false
    end
  end.

(* ---- strtoimax / strtoumax numerals (glibc), base 0 or 16 ---- *)
Definition digit_val (c : N) : option Z :=
  if (N.leb 48 c && N.leb c 57)%N then Some (Z.of_N c - 48)
  else if (N.leb 97 c && N.leb c 122)%N then Some (Z.of_N c - 87)
  else if (N.leb 65 c && N.leb c 90)%N then Some (Z.of_N c - 55)
  else None.
Definition is_digit (base : Z) (c : N) : bool :=
  match digit_val c with Some d => d <? base | None => false end.
(* digits of the numeral: value so far, digits consumed *)
Fixpoint digits (base : Z) (t : bytes) (acc : Z) (n : Z) : Z * Z :=
  match t with
  | c :: r => match digit_val c with
              | Some d => if d <? base then digits base r (acc * base + d) (n + 1) else (acc, n)
              | None => (acc, n)
              end
  | [] => (acc, n)
  end.
(* numeral at the start of t (white space already allowed): Some (negative, magnitude, consumed) or None
   when no conversion is performed *)
Definition numeral (base0 : Z) (t0 : bytes) : option (bool * Z * Z) :=
  let t := skip_space t0 in
  let ws := Z.of_nat (List.length t0 - List.length t) in
  let '(neg, t1, sg) :=
    match t with
    | 45%N :: r => (true, r, 1)
    | 43%N :: r => (false, r, 1)
    | _ => (false, t, 0)
    end in
  let hexpfx :=
    match t1 with
    | 48%N :: x :: d :: _ => (N.eqb x 120 || N.eqb x 88)%N && is_digit 16 d
    | _ => false
    end in
  let '(base, t2, pf) :=
    if (base0 =? 0) || (base0 =? 16) then
      if hexpfx then (16, skipn 2 t1, 2)
      else if base0 =? 16 then (16, t1, 0)
      else match t1 with 48%N :: _ => (8, t1, 0) | _ => (10, t1, 0) end
    else (base0, t1, 0) in
  let '(v, n) := digits base t2 0 0 in
  if n =? 0 then None else Some (neg, v, ws + sg + pf + n).

Definition all_space (t : bytes) : bool := match skip_space t with [] => true | _ => false end.

(* _mpt_convert_uint(val, width, src, base) + wrapper: src is a NUL terminated text *)
Definition conv_uint (maxv : Z) (base : Z) (t : bytes) : cres Z :=
  match t with
  | [] => CZero
  | _ =>
    match numeral base t with
    | None => if all_space t then CZero else CErr BadType
    | Some (neg, v, _) =>
      if 18446744073709551615 <? v then CErr BadValue          (* ERANGE *)
      else if neg && negb (v =? 0) then CErr BadValue          (* negated numeral *)
      else if maxv <? v then CErr BadValue
      else CVal v
    end
  end.
Definition conv_sint (minv maxv : Z) (base : Z) (t : bytes) : cres Z :=
  match t with
  | [] => CZero
  | _ =>
    match numeral base t with
    | None => if all_space t then CZero else CErr BadType
    | Some (neg, v, _) =>
      let z := if neg then - v else v in
      if (z <? -9223372036854775808) || (9223372036854775807 <? z) then CErr BadValue
      else if (z <? minv) || (maxv <? z) then CErr BadValue
      else CVal z
    end
  end.

(* ---- libc oracle for float text ---- *)
Record forc := mkforc { fo_end : Z; fo_ovf : bool; fo_bits : N }.
(* strtof on the text, strtod on the text, strtof on the text behind the first float + 1 separator *)
Record torc := mktorc { or_f1 : forc; or_d1 : forc; or_f2 : forc }.
Definition no_forc := mkforc 0 false 0.
Definition no_torc := mktorc no_forc no_forc no_forc.

(* mpt_cfloat / mpt_cdouble on text t with the libc answer o *)
Definition conv_flt (o : forc) (t : bytes) : cres N :=
  match t with
  | [] => CZero
  | _ =>
    if fo_ovf o then CErr BadValue
    else if fo_end o =? 0 then (if all_space t then CZero else CErr BadType)
    else CVal (fo_bits o)
  end.

(* numeric request types of the property files *)
Inductive ntype := NU8 | NI16 | NU32 | NI32 | NF32 | NF64 | NChr.

(* values handed back by numeric conversion *)
Inductive nval := NvInt (z : Z) | NvBits (b : N).

(* mpt_convert_number(txt, type) after mpt_convert_string skipped leading white space;
   which float oracle applies is chosen by the caller *)
Definition convert_number (ty : ntype) (o : forc) (t : bytes) : cres nval :=
  let lift (r : cres Z) := match r with CErr e => CErr e | CZero => CZero | CKeep => CKeep | CVal z => CVal (NvInt z) end in
  match ty with
  | NChr =>
    match skip_space t with
    | [] => CZero
    | c :: _ => if is_graph c then CVal (NvInt (Z.of_N c)) else CErr BadType
    end
  | NU8 => lift (conv_uint 255 0 t)
  | NU32 => lift (conv_uint 4294967295 0 t)
  | NI16 => lift (conv_sint (-32768) 32767 0 t)
  | NI32 => lift (conv_sint (-2147483648) 2147483647 0 t)
  | NF32 | NF64 =>
    match conv_flt o t with CErr e => CErr e | CZero => CZero | CKeep => CKeep | CVal b => CVal (NvBits b) end
  end.

(* mpt_convert_string(from, numeric type): result as the text convertable (iterConv) reports it:
   an error, 0 for the empty or white-space-only text, or 's' with the destination written (CVal) *)
Definition text_number (ty : ntype) (o : forc) (t : bytes) : cres nval :=
  match t with
  | [] => CZero
  | _ =>
    match convert_number ty o (skip_space t) with
    | CErr e => CErr e
    (* AS PATCHED by docs/C07_convert_string_space.diff: white space only = nothing converted, like the empty text
       (before: the count of blanks was reported as a conversion that assigned nothing, CKeep) *)
    | CZero | CKeep => CZero
    | CVal v => CVal v
    end
  end.

(* mpt_convert_key(&txt, NULL, &len): first white-space delimited word *)
Fixpoint take_word (t : bytes) : bytes :=
  match t with c :: r => if is_space c then [] else c :: take_word r | [] => [] end.

(* ---- typed values (mpt_object_set_value) ---- *)
Inductive tval :=
| VI (ty : N) (z : Z) (f32 f64 : N)      (* integer of type code ty: b y n q i u x t, with its float images *)
| VC (z : Z)                              (* 'c' (signed char value) *)
| VF (b32 b64 : N)                        (* float, with its double image *)
| VD (b64 : N) (n32 : option N)           (* double, with its float image (None: finite -> infinity) *)
| VS (s : option bytes)                   (* 's' char pointer *)
| VCol (a r g b : N)
| VLat (s w y z : N)
| VPt (x y : N).

Definition int_range (ty : ntype) : Z * Z :=
  match ty with
  | NU8 => (0, 255) | NI16 => (-32768, 32767) | NU32 => (0, 4294967295)
  | NI32 => (-2147483648, 2147483647) | _ => (0, 0)
  end.
(* mpt_value_convert for the numeric requests; every refusal ends as BadType (the converter's own code is
   dropped when mpt_value_convert falls through to its generic cases) *)
Definition value_number (ty : ntype) (v : tval) : cres nval :=
  match v with
  | VI sty z f32 f64 =>
    match ty with
    | NChr => if (0 <=? z) && (z <=? 127) && is_graph (Z.to_N z) then CVal (NvInt z) else CErr BadType
    | NF32 => CVal (NvBits f32)
    | NF64 => CVal (NvBits f64)
    | NI16 => if N.eqb sty 113 (* uint16 has no 'n' case *) then CErr BadType
              else let '(lo, hi) := int_range ty in if (lo <=? z) && (z <=? hi) then CVal (NvInt z) else CErr BadType
    | _ => let '(lo, hi) := int_range ty in if (lo <=? z) && (z <=? hi) then CVal (NvInt z) else CErr BadType
    end
  | VC z =>
    match ty with
    | NChr => CVal (NvInt (z mod 256))   (* same type: copied verbatim after the converter's isgraph refusal *)
    | NF32 | NF64 => CErr BadType   (* not generated: float image of a char is not part of the case *)
    | NU8 | NU32 => if 0 <=? z then CVal (NvInt z) else CErr BadType
    | NI16 | NI32 => CVal (NvInt z)
    end
  | VF b32 b64 =>
    match ty with NF32 => CVal (NvBits b32) | NF64 => CVal (NvBits b64) | _ => CErr BadType end
  | VD b64 n32 =>
    match ty with
    | NF64 => CVal (NvBits b64)
    | NF32 => match n32 with Some b => CVal (NvBits b) | None => CErr BadType end
    | _ => CErr BadType
    end
  | _ => CErr BadType
  end.
