(* C20/LayoutHistory.v — histories over ALL operations of the case language (set, lookup, mpt_object_set_property):
   the listed properties of both objects after every step are the specification's. *)
Require Import List String Ascii NArith ZArith Bool Lia.
Import ListNotations.
From MptV Require Import C20.LayoutTypes C20.LayoutConv C20.Gen_Layout C20.LayoutModel C20.LayoutSpec
  C20.LayoutLemmas C20.LayoutAbs C20.LayoutFields C20.LayoutRefineAxis C20.LayoutRefineGraph C20.LayoutRefine
  C20.LayoutSetProp C20.LayoutCxx.
Local Open Scope Z_scope.

Definition op_ok (p : op) : Prop :=
  match p with
  | OpSet _ _ s => wf_osrc s
  | OpGet _ _ => True
  | OpSp _ _ _ s => wf_osrc s /\ not_value s
  end.

Fixpoint mstates (st : anyobj * anyobj) (ops : list op) : list (aobj * aobj) :=
  match ops with
  | [] => []
  | p :: r => let st' := fst (step st p) in (abs (fst st'), abs (snd st')) :: mstates st' r
  end.
Fixpoint sstates (k : kind) (st : aobj * aobj) (ops : list op) : list (aobj * aobj) :=
  match ops with
  | [] => []
  | p :: r => let st' := fst (sstep k st p) in st' :: sstates k st' r
  end.

Lemma sp_obj o other flags name s :
  snd (set_property_op o other flags name s) = o \/
  exists src, snd (set_property_op o other flags name s) = snd (obj_set o name src) /\
              (src = resolve s other).
Proof.
  unfold set_property_op.
  destruct (match name with None => negb (has flags TraverseEmpty) | Some _ => false end); [left; reflexivity|].
  destruct s as [|t orc|v|]; cbn [resolve].
  - destruct (has flags TraverseDefault); [|left; reflexivity]. right. exists None. split; [|reflexivity].
    destruct (obj_set o name None) as [[|e] o']; cbn [snd]; [reflexivity|]. destruct ((e =? BadArgument) && _); reflexivity.
  - destruct (has flags TraverseChange); [|left; reflexivity]. right. exists (Some (SText t orc)). split; [|reflexivity].
    destruct (obj_set o name (Some (SText t orc))) as [[|e] o']; cbn [snd]; [reflexivity|]. destruct ((e =? BadArgument) && _); reflexivity.
  - left. reflexivity.
  - destruct (has flags TraverseChange); [|left; reflexivity]. right. exists (Some (SObj other)). split; [|reflexivity].
    destruct (obj_set o name (Some (SObj other))) as [[|e] o']; cbn [snd]; [reflexivity|]. destruct ((e =? BadArgument) && _); reflexivity.
Qed.

Lemma sp_keeps o other flags name s : same_kind o other -> inv o -> inv other ->
  kind_of (snd (set_property_op o other flags name s)) = kind_of o /\ inv (snd (set_property_op o other flags name s)).
Proof.
  intros K I IO. destruct (sp_obj o other flags name s) as [E|(src & E & ->)]; rewrite E.
  - auto.
  - split; [apply set_keeps_kind | apply set_keeps_inv; assumption].
Qed.

Theorem history_states ops : forall a b,
  same_kind a b -> inv a -> inv b -> Forall op_ok ops ->
  mstates (a, b) ops = sstates (kind_of a) (abs a, abs b) ops.
Proof.
  induction ops as [|p ops IH]; intros a b K Ia Ib F; [reflexivity|].
  inversion F as [|? ? Hp F']; subst.
  assert (same_kind b a) as K' by (unfold same_kind in *; congruence).
  assert (kind_of b = kind_of a) as KB by (unfold same_kind in *; congruence).
  cbn [mstates sstates]. destruct p as [tb n s|tb n|tb fl n s]; cbn [step sstep op_ok] in *.
  - destruct tb.
    + pose proof (set_refines b a n s K' Hp Ib) as R. rewrite KB in R. rewrite R.
      destruct (obj_set b n (resolve s a)) as [r b'] eqn:E. cbn [fst snd].
      pose proof (set_keeps_kind b n (resolve s a)) as Q. rewrite E in Q. cbn [snd] in Q.
      pose proof (set_keeps_inv b a n s K' Ib Ia) as QI. rewrite E in QI. cbn [snd] in QI.
      f_equal. apply IH; auto. unfold same_kind in *; congruence.
    + pose proof (set_refines a b n s K Hp Ia) as R. rewrite R.
      destruct (obj_set a n (resolve s b)) as [r a'] eqn:E. cbn [fst snd].
      pose proof (set_keeps_kind a n (resolve s b)) as Q. rewrite E in Q. cbn [snd] in Q.
      pose proof (set_keeps_inv a b n s K Ia Ib) as QI. rewrite E in QI. cbn [snd] in QI.
      f_equal. rewrite <- Q. apply IH; auto. unfold same_kind in *; congruence.
  - cbn [fst snd]. f_equal. apply IH; auto.
  - destruct Hp as [W NV]. destruct tb.
    + pose proof (set_property_refines b a fl n s K' W Ib NV) as R. rewrite KB in R. rewrite R.
      destruct (sp_keeps b a fl n s K' Ib Ia) as [Q QI].
      destruct (set_property_op b a fl n s) as [t b'] eqn:E. cbn [fst snd] in *.
      f_equal. apply IH; auto. unfold same_kind in *; congruence.
    + pose proof (set_property_refines a b fl n s K W Ia NV) as R. rewrite R.
      destruct (sp_keeps a b fl n s K Ia Ib) as [Q QI].
      destruct (set_property_op a b fl n s) as [t a'] eqn:E. cbn [fst snd] in *.
      f_equal. rewrite <- Q. apply IH; auto. unfold same_kind in *; congruence.
Qed.

Theorem history_states_from_init n ops : Forall op_ok ops ->
  mstates (default_of n, default_of n) ops = sstates (kind_no n) (defaults (kind_no n), defaults (kind_no n)) ops.
Proof.
  intros F. rewrite (history_states ops (default_of n) (default_of n) eq_refl (inv_default n) (inv_default n) F).
  rewrite !defaults_match.
  replace (kind_of (default_of n)) with (kind_no n); [reflexivity|].
  destruct n as [|p]; [reflexivity|]. destruct p as [p|p|]; try reflexivity; destruct p as [p|p|]; reflexivity.
Qed.
