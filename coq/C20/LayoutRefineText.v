(* C20/LayoutRefineText.v — mpt_text_set refines the specification's set on the abstraction. *)
Require Import List String Ascii NArith ZArith Bool Lia.
Import ListNotations.
From MptV Require Import C20.LayoutTypes C20.LayoutConv C20.Gen_Layout C20.LayoutModel C20.LayoutSpec
  C20.LayoutLemmas C20.LayoutAbs C20.LayoutFields C20.LayoutColour C20.LayoutFields2 C20.LayoutRefineAxis
  C20.LayoutRefineLine C20.LayoutRefineWorld.
Local Open Scope Z_scope.

Definition text_how (f : text_field) : bytes * how :=
  match f with
  | TxValue => (bs "value", HStr) | TxFont => (bs "font", HStr)
  | TxX => (bs "pos", HPtX) | TxY => (bs "pos", HPtY) | TxPos => (bs "pos", HPt F32_ONE)
  | TxColor => (bs "color", HCol) | TxSize => (bs "size", HNum NU8)
  | TxAlign => (bs "align", HNum NChr) | TxAngle => (bs "angle", HNum NF64)
  end.

Ltac pt_case abs_lemma :=
  unfold apply_named;
  match goal with
  | s : option source |- _ =>
    destruct s as [src|]; cbn [asrc_of];
    [ let e := fresh "e" in let E := fresh "E" in
      match goal with
      | |- context [pt_field (Some src) ?o ?rm ?dx ?dy ?wr] => destruct (pt_field_spec src o rm dx dy wr) as [e E]; rewrite E
      end;
      unfold denote;
      match goal with |- context [den_pt ?rm src] =>
        destruct (den_pt_cases rm src) as [D|[D|(x & y & D)]]; rewrite D end;
      cbn [fst snd sok]; rewrite ?abs_lemma; reflexivity
    | cbn [pt_field fst snd sok]; rewrite !abs_lemma; reflexivity ]
  end.

Lemma text_named f (s : option source) o :
  (forall x, s = Some x -> wf_source x) ->
  apply_named KText (abs (OText o)) (fst (text_how f)) (snd (text_how f)) (asrc_of s) =
  (sok (fst (text_set_field f s o)), abs (OText (snd (text_set_field f s o)))).
Proof.
  intros W. destruct f; cbn [text_how fst snd text_set_field].
  - str_case abs_text W.
  - str_case abs_text W.
  - (* x *)
    unfold apply_named, num_field. destruct s as [src|]; cbn [asrc_of].
    + unfold denote, den_num. change (aget (abs (OText o)) (bs "pos")) with (Some (PPt (tx_px o) (tx_py o))).
      destruct (src_number NF32 src); cbn [fst snd sok]; rewrite ?abs_text; reflexivity.
    + cbn [fst snd sok]. rewrite !abs_text. reflexivity.
  - (* y *)
    unfold apply_named, num_field. destruct s as [src|]; cbn [asrc_of].
    + unfold denote, den_num. change (aget (abs (OText o)) (bs "pos")) with (Some (PPt (tx_px o) (tx_py o))).
      destruct (src_number NF32 src); cbn [fst snd sok]; rewrite ?abs_text; reflexivity.
    + cbn [fst snd sok]. rewrite !abs_text. reflexivity.
  - pt_case abs_text.
  - col_case abs_text.
  - num_case abs_text.
  - num_case abs_text.
  - num_case abs_text.
Qed.

Lemma text_resolve n : resolve_name KText n = option_map text_how (text_field_of n).
Proof.
  unfold resolve_name, text_field_of. norm_names.
  repeat match goal with
  | |- (if ?b then _ else _) = _ =>
    match b with
    | context [beq ?X ?c] => destruct (beq X c) eqn:?; cbn [orb option_map]; [reflexivity|]
    end
  end.
  reflexivity.
Qed.

Lemma text_auto src o : wf_source src -> no_value src = false ->
  (match src with SObj _ => False | _ => True end) ->
  (match auto_select KText src with
   | Some (p, h) => apply_named KText (abs (OText o)) p h (ASrc src)
   | None => (false, abs (OText o))
   end) =
  (match ok_or (string_pset (tx_value o) src) with
   | Some t => (true, abs (OText (set_tx_value t o)))
   | None =>
     match src with
     | SValue (VCol a r g b) => (true, abs (OText (set_tx_color (mkcol a r g b) o)))
     | _ => (false, abs (OText o))
     end
   end).
Proof.
  intros W NV NO. rewrite (string_pset_spec _ _ W).
  destruct src as [t orc|v|x]; [| |contradiction].
  - cbn [auto_select]. unfold apply_named, denote. cbn [den_str ok_or]. rewrite !abs_text. reflexivity.
  - destruct v; cbn [auto_select den_str ok_or]; try reflexivity;
      unfold apply_named, denote; cbn [den_str den_col]; rewrite !abs_text; reflexivity.
Qed.

Theorem text_set_refines o (other : text) name (s : osrc) :
  wf_osrc s ->
  sset KText (abs (OText o)) (abs (OText other)) name (of_osrc s) =
  pairb (text_set o name (resolve s (OText other))) (fun x => abs (OText x)).
Proof.
  intros W. unfold pairb. destruct name as [[|c n]|].
  - cbn [sset text_set]. destruct s as [|t orc|v|]; cbn [of_osrc resolve fst snd sok]; try reflexivity;
      try (destruct (no_value _); reflexivity).
  - cbn [sset text_set]. rewrite text_resolve.
    destruct (text_field_of (c :: n)) as [f|]; cbn [option_map]; [|reflexivity].
    destruct (text_how f) as [p h] eqn:H.
    replace p with (fst (text_how f)) by (rewrite H; reflexivity).
    replace h with (snd (text_how f)) by (rewrite H; reflexivity).
    destruct s as [|t orc|v|]; cbn [of_osrc resolve].
    + apply (text_named f None o); discriminate.
    + apply (text_named f (Some (SText t orc)) o); intros x E; inversion E; subst; exact W.
    + apply (text_named f (Some (SValue v)) o); intros x E; inversion E; subst; apply wf_value; exact W.
    + replace (apply_named KText (abs (OText o)) (fst (text_how f)) (snd (text_how f)) AOther)
        with (apply_named KText (abs (OText o)) (fst (text_how f)) (snd (text_how f)) (ASrc (SObj (OText other))))
        by (rewrite apply_named_obj; reflexivity).
      apply (text_named f (Some (SObj (OText other))) o); intros x E; inversion E; subst; exact Logic.I.
  - cbn [sset text_set]. destruct s as [|t orc|v|]; cbn [of_osrc resolve fst snd sok]; try reflexivity.
    + destruct (no_value (SText t orc)) eqn:NV; [reflexivity|].
      pose proof (text_auto (SText t orc) o W NV Logic.I) as A. rewrite A.
      destruct (ok_or (string_pset (tx_value o) (SText t orc))); reflexivity.
    + destruct (no_value (SValue v)) eqn:NV; [reflexivity|].
      pose proof (text_auto (SValue v) o (wf_value v W) NV Logic.I) as A.
      destruct v; cbn match in *; try rewrite A;
      destruct (ok_or (string_pset (tx_value o) _)); reflexivity.
Qed.
