(* C20/LayoutRefineGraph.v — mpt_graph_set refines the specification's set on the abstraction. *)
Require Import List String Ascii NArith ZArith Bool Lia.
Import ListNotations.
From MptV Require Import C20.LayoutTypes C20.LayoutConv C20.Gen_Layout C20.LayoutModel C20.LayoutSpec
  C20.LayoutLemmas C20.LayoutAbs C20.LayoutFields C20.LayoutColour C20.LayoutFields2 C20.LayoutRefineAxis
  C20.LayoutRefineLine C20.LayoutRefineWorld C20.LayoutRefineText.
Local Open Scope Z_scope.

Definition graph_how (f : graph_field) : bytes * how :=
  match f with
  | GrFg => (bs "foreground", HCol) | GrBg => (bs "background", HCol)
  | GrPos => (bs "pos", HPt F32_ONE) | GrScale => (bs "scale", HPt F32_MAX)
  | GrGrid => (bs "grid", HNum NChr) | GrAlign => (bs "align", HAlign) | GrClip => (bs "clip", HClip)
  | GrLpos => (bs "lpos", HNum NChr) | GrAxes => (bs "axes", HStr) | GrWorlds => (bs "worlds", HStr)
  end.

(* ---- the clip text: the folded bit mask is the set of axes named ---- *)
Definition enc (a b c d : bool) : Z :=
  (if a then 1 else 0) + (if b then 2 else 0) + (if c then 4 else 0) + (if d then 8 else 0).
Lemma lor_enc a b c d a' b' c' d' :
  Z.lor (enc a b c d) (enc a' b' c' d') = enc (a || a') (b || b') (c || c') (d || d').
Proof. destruct a, b, c, d, a', b', c', d'; reflexivity. Qed.
Definition other_chr (c : N) : bool := negb (N.eqb c 120 || N.eqb c 121 || N.eqb c 122)%N.
Lemma flag_enc c :
  (if N.eqb c 120 then 1 else if N.eqb c 121 then 2 else if N.eqb c 122 then 4 else 8) =
  enc (N.eqb c 120) (N.eqb c 121) (N.eqb c 122) (other_chr c).
Proof.
  unfold other_chr. destruct (N.eqb c 120) eqn:A.
  - apply N.eqb_eq in A; subst. reflexivity.
  - destruct (N.eqb c 121) eqn:B.
    + apply N.eqb_eq in B; subst. reflexivity.
    + destruct (N.eqb c 122) eqn:C; reflexivity.
Qed.
Lemma clip_bits_enc t a b c d :
  clip_bits t (enc a b c d) =
  enc (a || has_chr 120 t) (b || has_chr 121 t) (c || has_chr 122 t) (d || existsb other_chr t).
Proof.
  revert a b c d. induction t as [|x t]; intros; cbn [clip_bits has_chr existsb].
  - rewrite !orb_false_r. reflexivity.
  - rewrite flag_enc, lor_enc, IHt. unfold has_chr. cbn [existsb].
    rewrite !orb_assoc. rewrite (N.eqb_sym 120 x), (N.eqb_sym 121 x), (N.eqb_sym 122 x). reflexivity.
Qed.
Lemma clip_bits_spec t :
  clip_bits t 0 = (if has_chr 120 t then 1 else 0) + (if has_chr 121 t then 2 else 0)
                  + (if has_chr 122 t then 4 else 0) + (if existsb other_chr t then 8 else 0).
Proof. change 0 with (enc false false false false) at 1. rewrite clip_bits_enc. reflexivity. Qed.

Lemma abs_set_clip o v : abs (OGraph (set_gr_clip v o)) = aput (abs (OGraph o)) (bs "clip") (spec_clip_val v).
Proof. rewrite !abs_graph. reflexivity. Qed.

Lemma graph_clip_refines (s : option source) o :
  apply_named KGraph (abs (OGraph o)) (bs "clip") HClip (asrc_of s) =
  (sok (fst (graph_set_field GrClip s o)), abs (OGraph (snd (graph_set_field GrClip s o)))).
Proof.
  unfold apply_named. change (ok_default KGraph (bs "clip")) with (spec_clip_val 0).
  assert (forall v, coerce (spec_clip_val 0) (spec_clip_val v) = spec_clip_val v) as CO
    by (intros v; unfold spec_clip_val; destruct (v <? 8); reflexivity).
  destruct s as [src|]; cbn [asrc_of graph_set_field].
  - unfold denote, den_clip.
    destruct (src_number NU8 src) as [e| | |v] eqn:E; cbn [fst snd sok].
    + destruct src as [t orc|v|x]; cbn [src_str]; try reflexivity.
      * destruct t as [t|]; cbn [fst snd sok].
        -- rewrite abs_set_clip, CO. rewrite clip_bits_spec. reflexivity.
        -- cbn in E. discriminate.
      * destruct v; try reflexivity. destruct s as [t|]; cbn [fst snd sok].
        -- rewrite abs_set_clip, CO. rewrite clip_bits_spec. reflexivity.
        -- rewrite abs_set_clip. reflexivity.
    + rewrite abs_set_clip. reflexivity.
    + reflexivity.
    + rewrite abs_set_clip, CO. reflexivity.
  - cbn [fst snd sok]. rewrite abs_set_clip. reflexivity.
Qed.

Lemma abs_set_align o v : abs (OGraph (set_gr_align v o)) = aput (abs (OGraph o)) (bs "align") (PInt v).
Proof. rewrite !abs_graph. reflexivity. Qed.

Lemma graph_align_refines (s : option source) o :
  apply_named KGraph (abs (OGraph o)) (bs "align") HAlign (asrc_of s) =
  (sok (fst (graph_set_field GrAlign s o)), abs (OGraph (snd (graph_set_field GrAlign s o)))).
Proof.
  unfold apply_named. change (ok_default KGraph (bs "align")) with (PInt 0).
  destruct s as [src|]; cbn [asrc_of graph_set_field].
  - unfold denote, den_align.
    destruct (src_number NU8 src) as [e| | |v] eqn:E; cbn [fst snd sok].
    + destruct src as [t orc|v|x]; cbn [src_str]; try reflexivity.
      * destruct t as [t|]; cbn [fst snd sok].
        -- rewrite abs_set_align. reflexivity.
        -- cbn in E. discriminate.
      * destruct v; try reflexivity. destruct s as [t|]; cbn [fst snd sok]; rewrite abs_set_align; reflexivity.
    + rewrite abs_set_align. reflexivity.
    + reflexivity.
    + rewrite abs_set_align. reflexivity.
  - cbn [fst snd sok]. rewrite abs_set_align. reflexivity.
Qed.

Lemma graph_named f (s : option source) o :
  (forall x, s = Some x -> wf_source x) ->
  apply_named KGraph (abs (OGraph o)) (fst (graph_how f)) (snd (graph_how f)) (asrc_of s) =
  (sok (fst (graph_set_field f s o)), abs (OGraph (snd (graph_set_field f s o)))).
Proof.
  intros W. destruct f; cbn [graph_how fst snd]; try apply graph_clip_refines; try apply graph_align_refines;
    cbn [graph_set_field].
  - col_case abs_graph.
  - col_case abs_graph.
  - pt_case abs_graph.
  - pt_case abs_graph.
  - num_case abs_graph.
  - num_case abs_graph.
  - str_case abs_graph W.
  - str_case abs_graph W.
Qed.

Lemma graph_resolve n : resolve_name KGraph n = option_map graph_how (graph_field_of n).
Proof.
  unfold resolve_name, graph_field_of. norm_names.
  repeat match goal with
  | |- (if ?b then _ else _) = _ =>
    match b with
    | context [beq ?X ?c] => destruct (beq X c) eqn:?; cbn [orb option_map]; [reflexivity|]
    end
  end.
  reflexivity.
Qed.

Theorem graph_set_refines o (other : graph) name (s : osrc) :
  wf_osrc s ->
  sset KGraph (abs (OGraph o)) (abs (OGraph other)) name (of_osrc s) =
  pairb (graph_set o name (resolve s (OGraph other))) (fun x => abs (OGraph x)).
Proof.
  intros W. unfold pairb. destruct name as [[|c n]|].
  - cbn [sset graph_set]. destruct s as [|t orc|v|]; cbn [of_osrc resolve fst snd sok]; try reflexivity;
      try (destruct (no_value _); reflexivity).
  - cbn [sset graph_set]. rewrite graph_resolve.
    destruct (graph_field_of (c :: n)) as [f|]; cbn [option_map]; [|reflexivity].
    destruct (graph_how f) as [p h] eqn:H.
    replace p with (fst (graph_how f)) by (rewrite H; reflexivity).
    replace h with (snd (graph_how f)) by (rewrite H; reflexivity).
    destruct s as [|t orc|v|]; cbn [of_osrc resolve].
    + apply (graph_named f None o); discriminate.
    + apply (graph_named f (Some (SText t orc)) o); intros x E; inversion E; subst; exact W.
    + apply (graph_named f (Some (SValue v)) o); intros x E; inversion E; subst; apply wf_value; exact W.
    + replace (apply_named KGraph (abs (OGraph o)) (fst (graph_how f)) (snd (graph_how f)) AOther)
        with (apply_named KGraph (abs (OGraph o)) (fst (graph_how f)) (snd (graph_how f)) (ASrc (SObj (OGraph other))))
        by (rewrite apply_named_obj; reflexivity).
      apply (graph_named f (Some (SObj (OGraph other))) o); intros x E; inversion E; subst; exact Logic.I.
  - cbn [sset graph_set]. destruct s as [|t orc|v|]; cbn [of_osrc resolve fst snd sok]; try reflexivity.
    + destruct t as [[|c t]|]; reflexivity.
    + destruct v; reflexivity.
Qed.
