(* C20/LayoutRefineGraph.v — mpt_graph_set refines the specification's set on the abstraction. *)
Require Import List String Ascii NArith ZArith Bool Lia.
Import ListNotations.
From MptV Require Import C20.LayoutTypes C20.LayoutConv C20.Gen_Layout C20.LayoutModel C20.LayoutSpec
  C20.LayoutLemmas C20.LayoutAbs C20.LayoutFields C20.LayoutColour C20.LayoutFields2 C20.LayoutRefineAxis
  C20.LayoutRefineLine C20.LayoutRefineWorld C20.LayoutRefineText.
Local Open Scope Z_scope.

Definition graph_how (f : graph_field) : bytes * how :=
  match f with
  | GrFg => (bs "foreground", HCol) | GrBg => (bs "background", HCol)
  | GrPos => (bs "pos", HPt F32_ONE) | GrScale => (bs "scale", HPt F32_MAX)
  | GrGrid => (bs "grid", HGrid) | GrAlign => (bs "align", HAlign) | GrClip => (bs "clip", HClip)
  | GrLpos => (bs "lpos", HNum NChr) | GrAxes => (bs "axes", HStr) | GrWorlds => (bs "worlds", HStr)
  end.

(* ---- the clip text: the folded bit mask is the set of axes named ---- *)
Definition enc (a b c d : bool) : Z :=
  (if a then 1 else 0) + (if b then 2 else 0) + (if c then 4 else 0) + (if d then 8 else 0).
Lemma lor_enc a b c d a' b' c' d' :
  Z.lor (enc a b c d) (enc a' b' c' d') = enc (a || a') (b || b') (c || c') (d || d').
Proof. destruct a, b, c, d, a', b', c', d'; reflexivity. Qed.
Definition other_chr (c : N) : bool := negb (N.eqb c 120 || N.eqb c 121 || N.eqb c 122)%N.
Lemma flag_enc c :
  (if N.eqb c 120 then 1 else if N.eqb c 121 then 2 else if N.eqb c 122 then 4 else 8) =
  enc (N.eqb c 120) (N.eqb c 121) (N.eqb c 122) (other_chr c).
Proof.
  unfold other_chr. destruct (N.eqb c 120) eqn:A.
  - apply N.eqb_eq in A; subst. reflexivity.
  - destruct (N.eqb c 121) eqn:B.
    + apply N.eqb_eq in B; subst. reflexivity.
    + destruct (N.eqb c 122) eqn:C; reflexivity.
Qed.
Lemma clip_bits_enc t a b c d :
  clip_bits t (enc a b c d) =
  enc (a || has_chr 120 t) (b || has_chr 121 t) (c || has_chr 122 t) (d || existsb other_chr t).
Proof.
  revert a b c d. induction t as [|x t]; intros; cbn [clip_bits has_chr existsb].
  - rewrite !orb_false_r. reflexivity.
  - rewrite flag_enc, lor_enc, IHt. unfold has_chr. cbn [existsb].
    rewrite !orb_assoc. rewrite (N.eqb_sym 120 x), (N.eqb_sym 121 x), (N.eqb_sym 122 x). reflexivity.
Qed.
Lemma clip_bits_spec t :
  clip_bits t 0 = (if has_chr 120 t then 1 else 0) + (if has_chr 121 t then 2 else 0)
                  + (if has_chr 122 t then 4 else 0) + (if existsb other_chr t then 8 else 0).
Proof. change 0 with (enc false false false false) at 1. rewrite clip_bits_enc. reflexivity. Qed.

Lemma abs_set_clip o v : abs (OGraph (set_gr_clip v o)) = aput (abs (OGraph o)) (bs "clip") (spec_clip_val v).
Proof. rewrite !abs_graph. reflexivity. Qed.

Lemma graph_clip_refines (s : option source) o :
  apply_named KGraph (abs (OGraph o)) (bs "clip") HClip (asrc_of s) =
  (sok (fst (graph_set_field GrClip s o)), abs (OGraph (snd (graph_set_field GrClip s o)))).
Proof.
  unfold apply_named. change (ok_default KGraph (bs "clip")) with (spec_clip_val 0).
  assert (forall v, coerce (spec_clip_val 0) (spec_clip_val v) = spec_clip_val v) as CO
    by (intros v; unfold spec_clip_val; destruct (v <? 8); reflexivity).
  destruct s as [src|]; cbn [asrc_of graph_set_field].
  - unfold denote, den_clip.
    destruct (src_number NU8 src) as [e| | |v] eqn:E; cbn [fst snd sok].
    + destruct src as [t orc|v|x]; cbn [src_str]; try reflexivity.
      * destruct t as [t|]; cbn [fst snd sok].
        -- rewrite abs_set_clip, CO. rewrite clip_bits_spec. reflexivity.
        -- cbn in E. discriminate.
      * destruct v; try reflexivity. destruct s as [t|]; cbn [fst snd sok].
        -- rewrite abs_set_clip, CO. rewrite clip_bits_spec. reflexivity.
        -- rewrite abs_set_clip. reflexivity.
    + rewrite abs_set_clip. reflexivity.
    + reflexivity.
    + rewrite abs_set_clip, CO. reflexivity.
  - cbn [fst snd sok]. rewrite abs_set_clip. reflexivity.
Qed.

Lemma abs_set_align o v : abs (OGraph (set_gr_align v o)) = aput (abs (OGraph o)) (bs "align") (PInt v).
Proof. rewrite !abs_graph. reflexivity. Qed.

Lemma graph_align_refines (s : option source) o :
  apply_named KGraph (abs (OGraph o)) (bs "align") HAlign (asrc_of s) =
  (sok (fst (graph_set_field GrAlign s o)), abs (OGraph (snd (graph_set_field GrAlign s o)))).
Proof.
  unfold apply_named. change (ok_default KGraph (bs "align")) with (PInt 0).
  destruct s as [src|]; cbn [asrc_of graph_set_field].
  - unfold denote, den_align.
    destruct (src_number NU8 src) as [e| | |v] eqn:E; cbn [fst snd sok].
    + destruct src as [t orc|v|x]; cbn [src_str]; try reflexivity.
      * destruct t as [t|]; cbn [fst snd sok].
        -- rewrite abs_set_align. reflexivity.
        -- cbn in E. discriminate.
      * destruct v; try reflexivity. destruct s as [t|]; cbn [fst snd sok]; rewrite abs_set_align; reflexivity.
    + rewrite abs_set_align. reflexivity.
    + reflexivity.
    + rewrite abs_set_align. reflexivity.
  - cbn [fst snd sok]. rewrite abs_set_align. reflexivity.
Qed.

Lemma abs_set_grid o v : abs (OGraph (set_gr_grid v o)) = aput (abs (OGraph o)) (bs "grid") (PInt v).
Proof. rewrite !abs_graph. reflexivity. Qed.

(* grid type (as patched): a character, else the number 0..255 *)
Lemma graph_grid_refines (s : option source) o :
  apply_named KGraph (abs (OGraph o)) (bs "grid") HGrid (asrc_of s) =
  (sok (fst (graph_set_field GrGrid s o)), abs (OGraph (snd (graph_set_field GrGrid s o)))).
Proof.
  unfold apply_named. change (ok_default KGraph (bs "grid")) with (PInt 0).
  destruct s as [src|]; cbn [asrc_of graph_set_field grid_type].
  - unfold denote, den_grid, den_num, num_field.
    destruct (src_number NChr src) as [e| | |v] eqn:E; cbn [fst snd sok]; rewrite ?E; cbn [fst snd sok].
    + destruct (src_number NU8 src) as [e2| | |v2] eqn:E2; cbn [fst snd sok coerce]; rewrite ?abs_set_grid; reflexivity.
    + rewrite abs_set_grid. reflexivity.
    + reflexivity.
    + rewrite abs_set_grid. reflexivity.
  - unfold num_field. cbn [fst snd sok]. rewrite abs_set_grid. reflexivity.
Qed.

Lemma graph_named f (s : option source) o :
  (forall x, s = Some x -> wf_source x) ->
  apply_named KGraph (abs (OGraph o)) (fst (graph_how f)) (snd (graph_how f)) (asrc_of s) =
  (sok (fst (graph_set_field f s o)), abs (OGraph (snd (graph_set_field f s o)))).
Proof.
  intros W. destruct f; cbn [graph_how fst snd]; try apply graph_clip_refines; try apply graph_align_refines;
    try apply graph_grid_refines; cbn [graph_set_field].
  - col_case abs_graph.
  - col_case abs_graph.
  - pt_case abs_graph.
  - pt_case abs_graph.
  - num_case abs_graph.
  - str_case abs_graph W.
  - str_case abs_graph W.
Qed.

Lemma graph_resolve n : resolve_name KGraph n = option_map graph_how (graph_field_of n).
Proof.
  unfold resolve_name, graph_field_of. norm_names.
  repeat match goal with
  | |- (if ?b then _ else _) = _ =>
    match b with
    | context [beq ?X ?c] => destruct (beq X c) eqn:?; cbn [orb option_map]; [reflexivity|]
    end
  end.
  reflexivity.
Qed.

Theorem graph_set_refines o (other : graph) name (s : osrc) :
  wf_osrc s ->
  sset KGraph (abs (OGraph o)) (abs (OGraph other)) name (of_osrc s) =
  pairb (graph_set o name (resolve s (OGraph other))) (fun x => abs (OGraph x)).
Proof.
  intros W. unfold pairb. destruct name as [[|c n]|].
  - cbn [sset graph_set]. destruct s as [|t orc|v|]; cbn [of_osrc resolve fst snd sok]; try reflexivity;
      try (destruct (no_value _); reflexivity).
  - cbn [sset graph_set]. rewrite graph_resolve.
    destruct (graph_field_of (c :: n)) as [f|]; cbn [option_map]; [|reflexivity].
    destruct (graph_how f) as [p h] eqn:H.
    replace p with (fst (graph_how f)) by (rewrite H; reflexivity).
    replace h with (snd (graph_how f)) by (rewrite H; reflexivity).
    destruct s as [|t orc|v|]; cbn [of_osrc resolve].
    + apply (graph_named f None o); discriminate.
    + apply (graph_named f (Some (SText t orc)) o); intros x E; inversion E; subst; exact W.
    + apply (graph_named f (Some (SValue v)) o); intros x E; inversion E; subst; apply wf_value; exact W.
    + replace (apply_named KGraph (abs (OGraph o)) (fst (graph_how f)) (snd (graph_how f)) AOther)
        with (apply_named KGraph (abs (OGraph o)) (fst (graph_how f)) (snd (graph_how f)) (ASrc (SObj (OGraph other))))
        by (rewrite apply_named_obj; reflexivity).
      apply (graph_named f (Some (SObj (OGraph other))) o); intros x E; inversion E; subst; exact Logic.I.
  - cbn [sset graph_set]. destruct s as [|t orc|v|]; cbn [of_osrc resolve fst snd sok]; try reflexivity.
    + destruct t as [[|c t]|]; reflexivity.
    + destruct v; reflexivity.
Qed.

(* ---- invariant: the clip mask is a byte value, never negative ---- *)
Definition graph_inv (o : graph) : Prop := 0 <= gr_clip o.

Lemma digits_nonneg base t : forall acc n, 0 < base -> 0 <= acc -> 0 <= fst (digits base t acc n).
Proof.
  induction t as [|c r IH]; intros acc n B A; cbn [digits]; [exact A|].
  destruct (digit_val c) as [d|] eqn:D; [|exact A].
  destruct (d <? base); [|exact A]. apply IH; [exact B|].
  assert (0 <= d).
  { unfold digit_val in D.
    destruct ((48 <=? c)%N && (c <=? 57)%N) eqn:E1.
    - apply andb_true_iff in E1 as [E1 _]. apply N.leb_le in E1. inversion D. lia.
    - destruct ((97 <=? c)%N && (c <=? 122)%N) eqn:E2.
      + apply andb_true_iff in E2 as [E2 _]. apply N.leb_le in E2. inversion D. lia.
      + destruct ((65 <=? c)%N && (c <=? 90)%N) eqn:E3; [|discriminate].
        apply andb_true_iff in E3 as [E3 _]. apply N.leb_le in E3. inversion D. lia. }
  nia.
Qed.

Lemma numeral_nonneg base t neg v k : numeral base t = Some (neg, v, k) -> 0 <= v.
Proof.
  unfold numeral.
  set (t1 := skip_space t).
  destruct (match t1 with 45%N :: r => (true, r, 1) | 43%N :: r => (false, r, 1) | _ => (false, t1, 0) end) as [[ng t2] sg].
  match goal with |- context [if ?c then _ else _] => idtac end.
  destruct (if (base =? 0) || (base =? 16)
            then if match t2 with 48%N :: x :: d :: _ => ((x =? 120)%N || (x =? 88)%N) && is_digit 16 d | _ => false end
                 then (16, skipn 2 t2, 2)
                 else if base =? 16 then (16, t2, 0) else match t2 with 48%N :: _ => (8, t2, 0) | _ => (10, t2, 0) end
            else (base, t2, 0)) as [[b t3] pf] eqn:E.
  destruct (digits b t3 0 0) as [v0 n0] eqn:D.
  destruct (n0 =? 0); [discriminate|]. intros H; inversion H; subst.
  destruct (0 <? b) eqn:B.
  - pose proof (digits_nonneg b t3 0 0 ltac:(apply Z.ltb_lt; exact B) ltac:(lia)) as P. rewrite D in P. exact P.
  - (* base <= 0: no digit is below the base, nothing is accumulated *)
    assert (forall t acc n, fst (digits b t acc n) = acc) as Q.
    { induction t0 as [|c r IH]; intros acc n; cbn [digits]; [reflexivity|].
      destruct (digit_val c) as [d|] eqn:DV; [|reflexivity].
      destruct (d <? b) eqn:L; [|reflexivity].
      exfalso. apply Z.ltb_lt in L. apply Z.ltb_ge in B.
      unfold digit_val in DV.
      destruct ((48 <=? c)%N && (c <=? 57)%N) eqn:E1.
      + apply andb_true_iff in E1 as [E1 _]. apply N.leb_le in E1. inversion DV. lia.
      + destruct ((97 <=? c)%N && (c <=? 122)%N) eqn:E2.
        * apply andb_true_iff in E2 as [E2 _]. apply N.leb_le in E2. inversion DV. lia.
        * destruct ((65 <=? c)%N && (c <=? 90)%N) eqn:E3; [|discriminate].
          apply andb_true_iff in E3 as [E3 _]. apply N.leb_le in E3. inversion DV. lia. }
    specialize (Q t3 0 0). rewrite D in Q. cbn in Q. lia.
Qed.

Lemma conv_uint_nonneg maxv base t v : conv_uint maxv base t = CVal v -> 0 <= v.
Proof.
  unfold conv_uint. destruct t; [discriminate|].
  destruct (numeral base (n :: t)) as [[[neg m] k]|] eqn:N; [|destruct (all_space (n :: t)); discriminate].
  destruct (18446744073709551615 <? m); [discriminate|].
  destruct (neg && negb (m =? 0)); [discriminate|].
  destruct (maxv <? m); [discriminate|]. intros H; inversion H; subst. eapply numeral_nonneg; eauto.
Qed.

Lemma src_u8_nonneg s v : src_number NU8 s = CVal v -> 0 <= nv_int v.
Proof.
  destruct s as [t o|x|x]; cbn [src_number].
  - destruct t as [t|]; [|discriminate]. unfold text_number. destruct t as [|c t]; [discriminate|].
    unfold convert_number. destruct (conv_uint 255 0 (skip_space (c :: t))) eqn:E; try discriminate.
    intros H; inversion H; subst. cbn [nv_int]. eapply conv_uint_nonneg; eauto.
  - destruct x; cbn [value_number]; try discriminate.
    + cbn [int_range]. destruct ((0 <=? z) && (z <=? 255)) eqn:E; [|discriminate].
      intros H; inversion H; subst. cbn [nv_int]. apply andb_true_iff in E as [E _]. apply Z.leb_le in E. exact E.
    + destruct (0 <=? z) eqn:E; [|discriminate]. intros H; inversion H; subst. cbn [nv_int]. apply Z.leb_le. exact E.
  - discriminate.
Qed.

Lemma clip_bits_nonneg t : forall n, 0 <= n -> 0 <= clip_bits t n.
Proof.
  induction t as [|c r IH]; intros n H; cbn [clip_bits]; [exact H|].
  apply IH. apply Z.lor_nonneg. split; [exact H|].
  destruct (N.eqb c 120); [lia|]. destruct (N.eqb c 121); [lia|]. destruct (N.eqb c 122); lia.
Qed.

Lemma graph_inv_def : graph_inv def_graph.
Proof. unfold graph_inv. cbn. lia. Qed.

Lemma graph_field_inv f s o : graph_inv o -> graph_inv (snd (graph_set_field f s o)).
Proof.
  intros IV. destruct f; cbn [graph_set_field];
    unfold col_field, pt_field, num_field, str_field;
    try (break_match; cbn [snd]; try exact IV; unfold graph_inv in *;
         cbn [gr_clip set_gr_fg set_gr_bg set_gr_px set_gr_py set_gr_sx set_gr_sy set_gr_grid set_gr_align set_gr_lpos
              set_gr_axes set_gr_worlds set_gr_clip]; try exact IV; fail).
  (* clip *)
  destruct s as [src|]; [|unfold graph_inv; cbn; lia].
  destruct (src_number NU8 src) as [e| | |v] eqn:E; cbn [snd]; try exact IV.
  - destruct (src_str src) as [e2| | |[t|]]; cbn [snd]; try exact IV; unfold graph_inv; cbn [gr_clip set_gr_clip];
      try (cbn; lia). apply clip_bits_nonneg. lia.
  - unfold graph_inv. cbn. lia.
  - unfold graph_inv. cbn [gr_clip set_gr_clip]. eapply src_u8_nonneg; eauto.
Qed.

Lemma graph_set_inv o other name s : graph_inv o -> graph_inv other ->
  graph_inv (snd (graph_set o name (resolve s (OGraph other)))).
Proof.
  intros IV IO. unfold graph_set. destruct name as [[|c n]|].
  - destruct s; cbn [resolve snd]; try exact IO; try apply graph_inv_def; break_match; cbn [snd]; auto using graph_inv_def.
  - destruct (graph_field_of (c :: n)); [apply graph_field_inv; auto|exact IV].
  - destruct s; cbn [resolve snd]; try exact IO; try exact IV; break_match; cbn [snd]; auto using graph_inv_def.
Qed.
