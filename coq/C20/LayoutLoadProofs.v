(* C20/LayoutLoadProofs.v — reading a layout file (LayoutLoad.v) refines its specification (LayoutLoadSpec.v):
   the walk over the entries is one function of the object operations; when the abstraction commutes with every
   operation (create, copy, property entries) it commutes with the whole load, the bind and the views. *)
Require Import List String Ascii NArith ZArith Bool Lia.
Import ListNotations.
From MptV Require Import C20.LayoutTypes C20.LayoutConv C20.Gen_Layout C20.LayoutModel C20.LayoutSpec
  C20.LayoutLemmas C20.LayoutAbs C20.LayoutFields C20.LayoutRefineAxis C20.LayoutRefineGraph C20.LayoutRefine
  C20.LayoutSetProp C20.LayoutHistory C20.LayoutCxx C20.LayoutCxxModel C20.LayoutCxxSpec C20.LayoutCopy C20.LayoutCxxProofs
  C20.LayoutLoad C20.LayoutLoadSpec.
Local Open Scope Z_scope.

Lemma forallb_ext' {A} (p q : A -> bool) l : (forall x, p x = q x) -> forallb p l = forallb q l.
Proof. intros H. induction l as [|x r IH]; cbn; [reflexivity|]. rewrite H, IH. reflexivity. Qed.
Lemma forallb_map' {A B} (h : A -> B) (p : B -> bool) l : forallb p (map h l) = forallb (fun x => p (h x)) l.
Proof. induction l as [|x r IH]; cbn; [reflexivity|]. rewrite IH. reflexivity. Qed.

Section Hom.
  Variables (O1 L1 O2 L2 : Type) (P1 : lops O1 L1) (P2 : lops O2 L2) (f : O1 -> O2) (g : L1 -> L2).
  Variables (Q : O1 -> Prop) (W : fprop -> Prop).
  Hypothesis Hcreate : forall ty, lo_create _ _ P2 ty = option_map f (lo_create _ _ P1 ty).
  Hypothesis Qcreate : forall ty o, lo_create _ _ P1 ty = Some o -> Q o.
  Hypothesis Hclass : forall o, lo_class _ _ P2 (f o) = lo_class _ _ P1 o.
  Hypothesis Hcopy : forall tg src, Q tg -> Q src ->
    f (lo_copy _ _ P1 tg src) = lo_copy _ _ P2 (f tg) (f src) /\ Q (lo_copy _ _ P1 tg src) /\
    lo_class _ _ P1 (lo_copy _ _ P1 tg src) = lo_class _ _ P1 tg.
  Hypothesis Hleaf : forall o p, Q o -> W p ->
    f (lo_leaf _ _ P1 o p) = lo_leaf _ _ P2 (f o) p /\ Q (lo_leaf _ _ P1 o p) /\
    lo_class _ _ P1 (lo_leaf _ _ P1 o p) = lo_class _ _ P1 o.
  Hypothesis Hgroup : forall o p, Q o -> W p ->
    f (lo_group _ _ P1 o p) = lo_group _ _ P2 (f o) p /\ Q (lo_group _ _ P1 o p) /\
    lo_class _ _ P1 (lo_group _ _ P1 o p) = lo_class _ _ P1 o.
  Hypothesis Hnames : forall o, lo_names _ _ P2 (f o) = lo_names _ _ P1 o.
  Hypothesis Hscale : forall o, lo_scale _ _ P2 (f o) = lo_scale _ _ P1 o.
  Hypothesis Htop : forall l p, W p -> g (lo_top _ _ P1 l p) = lo_top _ _ P2 (g l) p.

  Definition ml (l : level O1) : level O2 := map (fun it => (fst it, f (snd it))) l.
  Definition Ql (l : level O1) : Prop := Forall (fun it => Q (snd it)) l.

  Lemma ml_app a b : ml (app a b) = app (ml a) (ml b).
  Proof. apply map_app. Qed.
  Lemma Ql_app a b : Ql a -> Ql b -> Ql (app a b).
  Proof. intros; apply Forall_app; split; assumption. Qed.

  Lemma find_cls_hom cls l w : Ql l ->
    find_cls _ _ P2 cls (ml l) w = option_map f (find_cls _ _ P1 cls l w) /\
    (forall o, find_cls _ _ P1 cls l w = Some o -> Q o).
  Proof.
    induction l as [|[n o] l IH]; intros H; cbn [ml map find_cls fst snd]; [split; [reflexivity|discriminate]|].
    inversion H as [|? ? Ho Hl]; subst. rewrite Hclass.
    destruct (name_is n w && N.eqb (lo_class _ _ P1 o) cls).
    - split; [reflexivity|]. intros o' E; inversion E; subst; exact Ho.
    - exact (IH Hl).
  Qed.
  Lemma find_levels_hom cls chain w : Forall Ql chain ->
    find_levels _ _ P2 cls (map ml chain) w = option_map f (find_levels _ _ P1 cls chain w) /\
    (forall o, find_levels _ _ P1 cls chain w = Some o -> Q o).
  Proof.
    induction chain as [|l r IH]; intros H; cbn [map find_levels]; [split; [reflexivity|discriminate]|].
    inversion H as [|? ? Hl Hr]; subst. destruct (find_cls_hom cls l w Hl) as (A & B). rewrite A.
    destruct (find_cls _ _ P1 cls l w) as [x|] eqn:E; cbn [option_map].
    - split; [reflexivity|]. intros o' E'; inversion E'; subst. exact (B o' eq_refl).
    - exact (IH Hr).
  Qed.
  Lemma find_in_hom cls chain w : Forall Ql chain ->
    find_in _ _ P2 cls (map ml chain) w = option_map f (find_in _ _ P1 cls chain w) /\
    (forall o, find_in _ _ P1 cls chain w = Some o -> Q o).
  Proof.
    intros H. unfold find_in. destruct (find_key w); [exact (find_levels_hom cls chain _ H)|split; [reflexivity|discriminate]].
  Qed.

  Lemma inherit_hom ps : forall o chain, Q o -> Forall Ql chain ->
    inherit _ _ P2 (f o) (map ml chain) ps = option_map f (inherit _ _ P1 o chain ps) /\
    (forall o', inherit _ _ P1 o chain ps = Some o' -> Q o' /\ lo_class _ _ P1 o' = lo_class _ _ P1 o).
  Proof.
    induction ps as [|w r IH]; intros o chain Ho Hc; cbn [inherit].
    - split; [reflexivity|]. intros o' E; inversion E; subst; auto.
    - rewrite Hclass. destruct (find_in_hom (lo_class _ _ P1 o) chain w Hc) as (A & B). rewrite A.
      destruct (find_in _ _ P1 (lo_class _ _ P1 o) chain w) as [src|] eqn:E; cbn [option_map]; [|split; [reflexivity|discriminate]].
      destruct (Hcopy o src Ho (B src eq_refl)) as (C1 & C2 & C3). rewrite <- C1.
      destruct (IH (lo_copy _ _ P1 o src) chain C2 Hc) as (D1 & D2). split; [exact D1|].
      intros o' E'. destruct (D2 o' E') as (X & Y). split; [exact X|congruence].
  Qed.

  Definition mmade (m : made O1) : made O2 :=
    match m with MSkip _ => MSkip _ | MFail _ => MFail _ | MItem _ n o => MItem _ n (f o) end.
  Lemma make_item_hom key own chain : Ql own -> Forall Ql chain ->
    make_item _ _ P2 key (ml own) (map ml chain) = mmade (make_item _ _ P1 key own chain) /\
    (forall n o, make_item _ _ P1 key own chain = MItem _ n o -> Q o).
  Proof.
    intros Ho Hc. unfold make_item. destruct (key_type key) as [[ty rest]|]; [|split; [reflexivity|discriminate]].
    rewrite Hcreate. destruct (lo_create _ _ P1 ty) as [o|] eqn:C; cbn [option_map]; [|split; [reflexivity|discriminate]].
    destruct (key_name rest) as [[name parents]|]; [|split; [reflexivity|discriminate]].
    rewrite Hclass.
    assert (Forall Ql [own]) as H1 by (constructor; [assumption|constructor]).
    destruct (find_in_hom (lo_class _ _ P1 o) [own] name H1) as (A & _). cbn [map] in A. rewrite A.
    destruct (find_in _ _ P1 (lo_class _ _ P1 o) [own] name); cbn [option_map]; [split; [reflexivity|discriminate]|].
    destruct (inherit_hom (words parents) o chain (Qcreate ty o C) Hc) as (B1 & B2). rewrite B1.
    destruct (inherit _ _ P1 o chain (words parents)) as [o'|] eqn:I; cbn [option_map mmade]; [|split; [reflexivity|discriminate]].
    split; [reflexivity|]. intros n x E; inversion E; subst. exact (proj1 (B2 x eq_refl)).
  Qed.

  Lemma assign_all_hom (f1 : O1 -> fprop -> O1) (f2 : O2 -> fprop -> O2) :
    (forall o p, Q o -> W p -> f (f1 o p) = f2 (f o) p /\ Q (f1 o p) /\ lo_class _ _ P1 (f1 o p) = lo_class _ _ P1 o) ->
    forall ps o, Q o -> Forall W ps ->
    f (assign_all _ f1 o ps) = assign_all _ f2 (f o) ps /\ Q (assign_all _ f1 o ps) /\
    lo_class _ _ P1 (assign_all _ f1 o ps) = lo_class _ _ P1 o.
  Proof.
    intros H ps. unfold assign_all. induction ps as [|p r IH]; intros o Ho Hw; cbn [fold_left]; [auto|].
    inversion Hw as [|? ? Hp Hr]; subst. destruct (H o p Ho Hp) as (A & B & C). rewrite <- A.
    destruct (IH (f1 o p) B Hr) as (D & E & F). repeat split; [exact D|exact E|congruence].
  Qed.
  Lemma is_graph_hom o : is_graph _ _ P2 (f o) = is_graph _ _ P1 o.
  Proof. unfold is_graph. rewrite Hclass. reflexivity. Qed.
  Lemma item_props_hom o ps : Q o -> Forall W ps ->
    f (item_props _ _ P1 o ps) = item_props _ _ P2 (f o) ps /\ Q (item_props _ _ P1 o ps).
  Proof.
    intros Ho Hw. unfold item_props. rewrite is_graph_hom. destruct (is_graph _ _ P1 o).
    - destruct (assign_all_hom _ _ Hgroup ps o Ho Hw) as (A & B & _); auto.
    - destruct (assign_all_hom _ _ Hleaf ps o Ho Hw) as (A & B & _); auto.
  Qed.

  (* well formed entries: every property entry is *)
  Definition Wleaf (l : fleaf) : Prop := Forall W (fl_props l).
  Definition Wgent (e : gent) : Prop := match e with GEProp p => W p | GEItem l => Wleaf l end.
  Definition Wtent (e : tent) : Prop :=
    match e with TEProp p => W p | TESect s => Forall Wgent (fs_ents s) | TERaw => True end.

  Lemma graph_entries_hom ents : forall gname go subs outer, Forall Wgent ents -> Q go -> Ql subs -> Ql outer ->
    let R := graph_entries _ _ P1 ents gname go subs outer in
    graph_entries _ _ P2 ents gname (f go) (ml subs) (ml outer) = (f (fst (fst R)), ml (snd (fst R)), snd R) /\
    Q (fst (fst R)) /\ Ql (snd (fst R)) /\ lo_class _ _ P1 (fst (fst R)) = lo_class _ _ P1 go.
  Proof.
    induction ents as [|e r IH]; intros gname go subs outer Hw Hg Hs Ho; cbn [graph_entries].
    - cbn. auto.
    - inversion Hw as [|? ? He Hr]; subst. destruct e as [p|l]; cbn [Wgent] in He.
      + destruct (Hgroup go p Hg He) as (A & B & C). rewrite <- A.
        destruct (IH gname (lo_group _ _ P1 go p) subs outer Hr B Hs Ho) as (D & E & F & G).
        repeat split; [exact D|exact E|exact F|congruence].
      + assert (Forall Ql [subs; app outer [(Some gname, go)]]) as HC.
        { constructor; [assumption|]. constructor; [|constructor]. apply Ql_app; [assumption|]. constructor; [exact Hg|constructor]. }
        destruct (make_item_hom (fl_key l) subs [subs; app outer [(Some gname, go)]] Hs HC) as (A & B).
        change (map ml [subs; app outer [(Some gname, go)]]) with [ml subs; ml (app outer [(Some gname, go)])] in A.
        rewrite ml_app in A. change (ml [(Some gname, go)]) with [(Some gname, f go)] in A. unfold level in *. rewrite A.
        match goal with |- context [mmade ?m] => destruct m as [| |name o] eqn:M end; cbn [mmade].
        * exact (IH gname go subs outer Hr Hg Hs Ho).
        * cbn. auto.
        * destruct (item_props_hom o (fl_props l) (B name o eq_refl) He) as (X & Y). rewrite <- X.
          assert (Ql (app subs [(Some name, item_props _ _ P1 o (fl_props l))])) as HS'
            by (apply Ql_app; [assumption|constructor; [exact Y|constructor]]).
          pose proof (IH gname go (app subs [(Some name, item_props _ _ P1 o (fl_props l))]) outer Hr Hg HS' Ho) as Z.
          rewrite ml_app in Z. change (ml [(Some name, item_props _ _ P1 o (fl_props l))]) with [(Some name, f (item_props _ _ P1 o (fl_props l)))] in Z. exact Z.
  Qed.

  Definition mt (t : tnode O1) : tnode O2 := mktn (tn_name t) (f (tn_obj t)) (ml (tn_items t)) (ml (tn_axes t)) (ml (tn_worlds t)).
  Definition Qt (t : tnode O1) : Prop := Q (tn_obj t) /\ Ql (tn_items t) /\ Ql (tn_axes t) /\ Ql (tn_worlds t).
  Lemma tops_level_hom tops : tops_level (map mt tops) = ml (tops_level tops).
  Proof. unfold tops_level, ml. rewrite !map_map. reflexivity. Qed.
  Lemma tops_level_Q tops : Forall Qt tops -> Ql (tops_level tops).
  Proof. intros H. unfold tops_level, Ql. rewrite Forall_map. eapply Forall_impl; [|exact H]. intros t (A & _). exact A. Qed.
  Lemma Wprops ents : Forall Wgent ents -> Forall W (props_of ents).
  Proof.
    induction 1 as [|e r He Hr IH]; [constructor|]. unfold props_of. cbn [flat_map].
    destruct e; cbn [Wgent] in He; [constructor; [exact He|exact IH]|exact IH].
  Qed.

  Lemma top_entries_hom ents : forall lay tops, Forall Wtent ents -> Forall Qt tops ->
    let R := top_entries P1 ents lay tops in
    top_entries P2 ents (g lay) (map mt tops) = (g (fst (fst R)), map mt (snd (fst R)), snd R) /\ Forall Qt (snd (fst R)).
  Proof.
    induction ents as [|e r IH]; intros lay tops Hw Ht; cbn [top_entries].
    - cbn. auto.
    - inversion Hw as [|? ? He Hr]; subst. destruct e as [p|s|]; cbn [Wtent] in He.
      + rewrite <- (Htop lay p He). exact (IH (lo_top _ _ P1 lay p) tops Hr Ht).
      + pose proof (tops_level_Q tops Ht) as HL.
        assert (Forall Ql [tops_level tops]) as HC by (constructor; [assumption|constructor]).
        destruct (make_item_hom (fs_key s) (tops_level tops) [tops_level tops] HL HC) as (A & B).
        change (map ml [tops_level tops]) with [ml (tops_level tops)] in A. rewrite tops_level_hom. unfold level in *. rewrite A.
        match goal with |- context [mmade ?m] => destruct m as [| |name o] eqn:M end; cbn [mmade].
        * exact (IH lay tops Hr Ht).
        * cbn. auto.
        * rewrite is_graph_hom. destruct (is_graph _ _ P1 o).
          -- assert (Ql []) as HN by constructor.
             destruct (graph_entries_hom (fs_ents s) name o [] (tops_level tops) He (B name o eq_refl) HN HL) as (X & Y & Z & _).
             cbn [ml map] in X. rewrite X.
             destruct (graph_entries _ _ P1 (fs_ents s) name o [] (tops_level tops)) as [[go subs] ok]. cbn [fst snd] in *.
             assert (Forall Qt (app tops [mktn (Some name) go subs [] []])) as HT'.
             { apply Forall_app; split; [assumption|]. constructor; [|constructor]. repeat split; try assumption; constructor. }
             destruct ok.
             ++ pose proof (IH lay (app tops [mktn (Some name) go subs [] []]) Hr HT') as Z'.
                rewrite map_app in Z'. exact Z'.
             ++ cbn [fst snd]. rewrite map_app. split; [reflexivity|exact HT'].
          -- destruct (assign_all_hom _ _ Hleaf (props_of (fs_ents s)) o (B name o eq_refl) (Wprops _ He)) as (X & Y & _).
             rewrite <- X.
             assert (Forall Qt (app tops [mktn (Some name) (assign_all _ (lo_leaf _ _ P1) o (props_of (fs_ents s))) [] [] []])) as HT'.
             { apply Forall_app; split; [assumption|]. constructor; [|constructor]. repeat split; try assumption; constructor. }
             pose proof (IH lay _ Hr HT') as Z'. rewrite map_app in Z'. exact Z'.
      + exact (IH lay tops Hr Ht).
  Qed.

  (* ---- bind ---- *)
  Lemma bind_list_hom cls chain ws : Forall Ql chain ->
    bind_list _ _ P2 cls (map ml chain) ws = option_map ml (bind_list _ _ P1 cls chain ws) /\
    (forall l, bind_list _ _ P1 cls chain ws = Some l -> Ql l).
  Proof.
    intros Hc. induction ws as [|w r (IH1 & IH2)]; cbn [bind_list]; [split; [reflexivity|intros l E; inversion E; constructor]|].
    destruct (find_in_hom cls chain w Hc) as (A & B). rewrite A, IH1.
    destruct (find_in _ _ P1 cls chain w) as [x|] eqn:E; cbn [option_map]; [|split; [reflexivity|discriminate]].
    destruct (bind_list _ _ P1 cls chain r) as [l|]; cbn [option_map]; [|split; [reflexivity|discriminate]].
    split; [reflexivity|]. intros l' E'; inversion E'; subst. constructor; [exact (B x eq_refl)|exact (IH2 l eq_refl)].
  Qed.
  Lemma all_of_hom cls l : Ql l -> all_of _ _ P2 cls (ml l) = ml (all_of _ _ P1 cls l) /\ Ql (all_of _ _ P1 cls l).
  Proof.
    intros H. unfold all_of. induction l as [|[n o] l IH]; cbn [ml map filter fst snd]; [split; [reflexivity|constructor]|].
    inversion H as [|? ? Ho Hl]; subst. destruct (IH Hl) as (A & B). rewrite Hclass.
    destruct (N.eqb (lo_class _ _ P1 o) cls); cbn [map fst snd]; [|auto].
    unfold ml in A. rewrite A. split; [reflexivity|constructor; assumption].
  Qed.
  Lemma found_all_hom cls names chain : Forall Ql chain ->
    found_all _ _ P2 cls names (map ml chain) = found_all _ _ P1 cls names chain.
  Proof.
    intros Hc. unfold found_all. destruct names as [t|]; [|reflexivity].
    apply forallb_ext'. intros w. destruct (find_in_hom cls chain w Hc) as (A & _). rewrite A.
    destruct (find_in _ _ P1 cls chain w); reflexivity.
  Qed.
  Lemma bind_graph_hom t tops : Qt t -> Ql tops ->
    bind_graph _ _ P2 (mt t) (ml tops) = option_map mt (bind_graph _ _ P1 t tops) /\
    (forall t', bind_graph _ _ P1 t tops = Some t' -> Qt t').
  Proof.
    intros (Ho & Hi & Ha & Hw) Ht. unfold bind_graph. cbn [mt tn_obj tn_items tn_name].
    assert (Forall Ql [tn_items t; tops]) as HC by (constructor; [assumption|constructor; [assumption|constructor]]).
    rewrite Hnames. destruct (lo_names _ _ P1 (tn_obj t)) as [an wn].
    change [ml (tn_items t); ml tops] with (map ml [tn_items t; tops]).
    assert (match an with
            | Some names => bind_list _ _ P2 0 (map ml [tn_items t; tops]) (words names)
            | None => Some (all_of _ _ P2 0 (ml (tn_items t)))
            end = option_map ml (match an with Some names => bind_list _ _ P1 0 [tn_items t; tops] (words names) | None => Some (all_of _ _ P1 0 (tn_items t)) end)
            /\ forall l, match an with Some names => bind_list _ _ P1 0 [tn_items t; tops] (words names) | None => Some (all_of _ _ P1 0 (tn_items t)) end = Some l -> Ql l) as (A1 & A2).
    { destruct an as [names|].
      - exact (bind_list_hom 0 [tn_items t; tops] (words names) HC).
      - destruct (all_of_hom 0 (tn_items t) Hi) as (X & Y). rewrite X. split; [reflexivity|]. intros l E; inversion E; subst; exact Y. }
    assert (match wn with
            | Some names => bind_list _ _ P2 4 (map ml [tn_items t; tops]) (words names)
            | None => Some (all_of _ _ P2 4 (ml (tn_items t)))
            end = option_map ml (match wn with Some names => bind_list _ _ P1 4 [tn_items t; tops] (words names) | None => Some (all_of _ _ P1 4 (tn_items t)) end)
            /\ forall l, match wn with Some names => bind_list _ _ P1 4 [tn_items t; tops] (words names) | None => Some (all_of _ _ P1 4 (tn_items t)) end = Some l -> Ql l) as (B1 & B2).
    { destruct wn as [names|].
      - exact (bind_list_hom 4 [tn_items t; tops] (words names) HC).
      - destruct (all_of_hom 4 (tn_items t) Hi) as (X & Y). rewrite X. split; [reflexivity|]. intros l E; inversion E; subst; exact Y. }
    rewrite A1.
    destruct (match an with Some names => bind_list _ _ P1 0 [tn_items t; tops] (words names) | None => Some (all_of _ _ P1 0 (tn_items t)) end) as [al|] eqn:EA;
      cbn [option_map]; [|split; [reflexivity|discriminate]].
    rewrite B1.
    destruct (match wn with Some names => bind_list _ _ P1 4 [tn_items t; tops] (words names) | None => Some (all_of _ _ P1 4 (tn_items t)) end) as [wl|] eqn:EW;
      cbn [option_map]; [|split; [reflexivity|discriminate]].
    assert (forallb (fun it => if is_graph _ _ P2 (snd it)
                               then (let '(a2, w2) := lo_names _ _ P2 (snd it) in
                                     found_all _ _ P2 0 a2 (map ml [tn_items t; tops]) && found_all _ _ P2 4 w2 (map ml [tn_items t; tops]))
                               else true) (ml (tn_items t)) =
            forallb (fun it => if is_graph _ _ P1 (snd it)
                               then (let '(a2, w2) := lo_names _ _ P1 (snd it) in
                                     found_all _ _ P1 0 a2 [tn_items t; tops] && found_all _ _ P1 4 w2 [tn_items t; tops])
                               else true) (tn_items t)) as FB.
    { unfold ml. rewrite forallb_map'. apply forallb_ext'. intros [n o]. cbn [fst snd].
      rewrite is_graph_hom, Hnames. destruct (lo_names _ _ P1 o) as [a2 w2].
      rewrite !found_all_hom by exact HC. reflexivity. }
    rewrite FB.
    destruct (forallb _ (tn_items t)); cbn [option_map mt tn_name tn_obj tn_items tn_axes tn_worlds]; [|split; [reflexivity|discriminate]].
    split; [reflexivity|]. intros t' E; inversion E; subst. repeat split; cbn; try assumption; [exact (A2 al eq_refl)|exact (B2 wl eq_refl)].
  Qed.
  Lemma bind_tops_hom todo : forall done all, Forall Qt todo -> Forall Qt done -> Ql all ->
    let R := bind_tops P1 todo done all in
    bind_tops P2 (map mt todo) (map mt done) (ml all) = (map mt (fst R), snd R) /\ Forall Qt (fst R).
  Proof.
    induction todo as [|t r IH]; intros done all Ht Hd Ha; cbn [bind_tops map].
    - cbn. auto.
    - inversion Ht as [|? ? H1 Hr]; subst. cbn [mt tn_obj]. rewrite is_graph_hom.
      destruct (is_graph _ _ P1 (tn_obj t)).
      + destruct (bind_graph_hom t all H1 Ha) as (A & B). rewrite A.
        destruct (bind_graph _ _ P1 t all) as [t'|] eqn:E; cbn [option_map].
        * assert (Forall Qt (app done [t'])) as HD' by (apply Forall_app; split; [assumption|constructor; [exact (B t' eq_refl)|constructor]]).
          pose proof (IH (app done [t']) all Hr HD' Ha) as Z. rewrite map_app in Z. exact Z.
        * cbn [fst snd]. rewrite map_app. cbn [map mt]. split; [reflexivity|].
          apply Forall_app; split; [assumption|constructor; assumption].
      + assert (Forall Qt (app done [t])) as HD' by (apply Forall_app; split; [assumption|constructor; [exact H1|constructor]]).
        pose proof (IH (app done [t]) all Hr HD' Ha) as Z. rewrite map_app in Z. exact Z.
  Qed.
  Definition mgs (gs : list (option bytes * O1 * option nat)) : list (option bytes * O2 * option nat) :=
    map (fun x => (fst (fst x), f (snd (fst x)), snd x)) gs.
  Lemma graphs_of_hom tops : forall i, graphs_of P2 (map mt tops) i = mgs (graphs_of P1 tops i).
  Proof.
    induction tops as [|t r IH]; intros i; cbn [graphs_of map mgs]; [reflexivity|].
    cbn [mt tn_obj tn_name]. rewrite is_graph_hom. destruct (is_graph _ _ P1 (tn_obj t)); cbn [map fst snd]; rewrite IH; reflexivity.
  Qed.
  Lemma stale_hom gs : stale (mgs gs) = mgs (stale gs).
  Proof. unfold stale, mgs. rewrite !map_map. reflexivity. Qed.
  Lemma min_scale_hom gs : min_scale P2 (mgs gs) = min_scale P1 gs.
  Proof.
    unfold min_scale, mgs. generalize (F32_ONE, F32_ONE).
    induction gs as [|x r IH]; intros m; cbn [map fold_left]; [reflexivity|].
    cbn [fst snd]. rewrite Hscale. apply IH.
  Qed.

  (* the whole load *)
  Theorem load_entries_hom ents lay gs : Forall Wtent ents ->
    let R := load_entries P1 ents lay gs in
    load_entries P2 ents (g lay) (mgs gs) =
      (fst (fst (fst R)), g (snd (fst (fst R))), map mt (snd (fst R)), mgs (snd R)) /\ Forall Qt (snd (fst R)).
  Proof.
    intros Hw. unfold load_entries.
    destruct (top_entries_hom ents lay [] Hw (Forall_nil _)) as (A & B). cbn [map] in A. rewrite A.
    destruct (top_entries P1 ents lay []) as [[lay' tops] ok]. cbn [fst snd] in *.
    destruct ok; [|cbn [fst snd]; rewrite stale_hom; auto].
    destruct (bind_tops_hom tops [] (tops_level tops) B (Forall_nil _) (tops_level_Q tops B)) as (C & D).
    cbn [map] in C. rewrite tops_level_hom, C.
    destruct (bind_tops P1 tops [] (tops_level tops)) as [tops' ok2]. cbn [fst snd] in *.
    destruct ok2; cbn [fst snd]; [rewrite graphs_of_hom|rewrite stale_hom]; auto.
  Qed.
End Hom.

(* ================= the instance: records of the model against property lists ================= *)
Definition fobj (o : anyobj) : sobj := (kind_of o, abs o).
Definition wf_fprop (p : fprop) : Prop := no_nul (fp_text p) = true.

Lemma inst_create ty : lo_create _ _ sops ty = option_map fobj (lo_create _ _ mops ty).
Proof.
  cbn [lo_create sops mops]. unfold s_create, create_item.
  destruct (eqs ty "line"); [reflexivity|]. destruct (eqs ty "text"); [reflexivity|].
  destruct (eqs ty "graph"); [reflexivity|]. destruct (eqs ty "world"); [reflexivity|].
  destruct (eqs ty "axis"); [reflexivity|]. destruct (eqs ty "xaxis"); [reflexivity|].
  destruct (eqs ty "yaxis"); [reflexivity|]. destruct (eqs ty "zaxis"); reflexivity.
Qed.
Lemma good_items : good (OLine def_line) /\ good (OText def_text) /\ good (OGraph def_graph) /\ good (OWorld def_world) /\
  good (OAxis def_axis) /\ good (OAxis (typed_axis 1)) /\ good (OAxis (typed_axis 2)) /\ good (OAxis (typed_axis 3)).
Proof.
  repeat split; try exact Logic.I; try exact axis_inv_def; try exact graph_inv_def;
    try (unfold strs_ok; repeat constructor); try (cbn; discriminate).
Qed.
Lemma inst_qcreate ty o : lo_create _ _ mops ty = Some o -> good o.
Proof.
  cbn [lo_create mops]. unfold create_item. destruct good_items as (A & B & C & D & E & F & G & H).
  destruct (eqs ty "line"); [intros X; inversion X; subst; exact A|]. destruct (eqs ty "text"); [intros X; inversion X; subst; exact B|].
  destruct (eqs ty "graph"); [intros X; inversion X; subst; exact C|]. destruct (eqs ty "world"); [intros X; inversion X; subst; exact D|].
  destruct (eqs ty "axis"); [intros X; inversion X; subst; exact E|]. destruct (eqs ty "xaxis"); [intros X; inversion X; subst; exact F|].
  destruct (eqs ty "yaxis"); [intros X; inversion X; subst; exact G|]. destruct (eqs ty "zaxis"); [intros X; inversion X; subst; exact H|discriminate].
Qed.
Lemma inst_class o : lo_class _ _ sops (fobj o) = lo_class _ _ mops o.
Proof. destruct o; reflexivity. Qed.
Lemma inst_copy tg src : good tg -> good src ->
  fobj (lo_copy _ _ mops tg src) = lo_copy _ _ sops (fobj tg) (fobj src) /\ good (lo_copy _ _ mops tg src) /\
  lo_class _ _ mops (lo_copy _ _ mops tg src) = lo_class _ _ mops tg.
Proof.
  intros (I & S) (_ & SS). cbn [lo_copy mops sops lo_class fobj fst snd].
  destruct (object_set_refines true tg src I S SS) as (A & B & C & D).
  unfold fobj. rewrite A, D. repeat split; try assumption.
  destruct (snd (object_set_from true tg src)), tg; try discriminate D; reflexivity.
Qed.

(* the text metatype of a node as source of a named property = the plain string value it answers with *)
Lemma string_pset_vs cur t : no_nul t = true -> t <> [] ->
  string_pset cur (SValue (VS (Some t))) = (SOk, Some t).
Proof.
  intros N T. unfold string_pset. cbn [src_vec src_str]. rewrite (string_set_strlen t N).
  destruct t; [contradiction|reflexivity].
Qed.
Lemma meta_set_is_value o n t : no_nul t = true -> t <> [] ->
  meta_set o n t = obj_set o (Some n) (Some (SValue (VS (Some t)))).
Proof.
  intros N T. unfold meta_set.
  destruct (is_str_field o n) eqn:F.
  - rewrite (meta_string_text t N).
    destruct n as [|c n]; [destruct o; discriminate F|].
    destruct o as [x|x|x|x|x]; cbn [is_str_field] in F; cbn [obj_set put_str_field].
    + cbn [axis_set]. destruct (axis_field_of (c :: n)) as [[]|]; try discriminate F.
      cbn [axis_set_field]. unfold str_field. rewrite (string_pset_vs _ t N T). reflexivity.
    + discriminate F.
    + cbn [text_set]. destruct (text_field_of (c :: n)) as [[]|]; try discriminate F;
        cbn [text_set_field]; unfold str_field; rewrite (string_pset_vs _ t N T); reflexivity.
    + cbn [graph_set]. destruct (graph_field_of (c :: n)) as [[]|]; try discriminate F;
        cbn [graph_set_field]; unfold str_field; rewrite (string_pset_vs _ t N T); reflexivity.
    + cbn [world_set]. destruct (world_field_of (c :: n)) as [[]|]; try discriminate F.
      cbn [world_set_field]. unfold str_field. rewrite (string_pset_vs _ t N T). reflexivity.
  - rewrite cxx_set_is_c. unfold meta_value. destruct t; [contradiction|reflexivity].
Qed.

Lemma class_kind (x y : anyobj) : kind_of x = kind_of y -> class_of x = class_of y.
Proof. destruct x, y; cbn; congruence. Qed.
Lemma leaf_nonempty o n (t : bytes) orc : no_nul t = true -> t <> [] -> good o ->
  let r := match meta_set o n t with
           | (SOk, o') => o'
           | (SFail _, _) => snd (cxx_set_property o (Some n) (Some (SText (Some t) orc)))
           end in
  fobj r = match sset (kind_of o) (abs o) (abs o) (Some n) (ASrc (SValue (VS (Some t)))) with
           | (true, a') => (kind_of o, a')
           | (false, _) => (kind_of o, snd (sset (kind_of o) (abs o) (abs o) (Some n) (ASrc (SText (Some t) orc))))
           end /\ good r /\ class_of r = class_of o.
Proof.
  intros N NE G r. subst r.
  assert (forall s, wf_osrc s ->
            sset (kind_of o) (abs o) (abs o) (Some n) (of_osrc s) =
              (sok (fst (obj_set o (Some n) (resolve s o))), abs (snd (obj_set o (Some n) (resolve s o)))) /\
            good (snd (obj_set o (Some n) (resolve s o))) /\
            kind_of (snd (obj_set o (Some n) (resolve s o))) = kind_of o) as ST.
  { intros s Ws. split; [apply set_refines; [reflexivity|assumption|apply G]|].
    apply good_set; [reflexivity|assumption|assumption|assumption]. }
  rewrite (meta_set_is_value o n t N NE).
  destruct (ST (XValue (VS (Some t))) N) as (A & B & C). cbn [of_osrc resolve] in *. rewrite A.
  destruct (obj_set o (Some n) (Some (SValue (VS (Some t))))) as [[|e] o'] eqn:E; cbn [fst snd sok] in *.
  - unfold fobj. rewrite C. repeat split; [exact (proj1 B)|exact (proj2 B)|apply class_kind; exact C].
  - destruct (ST (XText (Some t) orc) N) as (A2 & B2 & C2). cbn [of_osrc resolve] in *.
    rewrite cxx_set_is_c. rewrite A2. cbn [snd]. unfold fobj. rewrite C2.
    repeat split; [exact (proj1 B2)|exact (proj2 B2)|apply class_kind; exact C2].
Qed.
Lemma inst_leaf o p : good o -> wf_fprop p ->
  fobj (lo_leaf _ _ mops o p) = lo_leaf _ _ sops (fobj o) p /\ good (lo_leaf _ _ mops o p) /\
  lo_class _ _ mops (lo_leaf _ _ mops o p) = lo_class _ _ mops o.
Proof.
  intros G Wp. cbn [lo_leaf mops sops lo_class]. unfold leaf_assign, s_leaf, fobj. unfold wf_fprop in Wp.
  cbn [fst snd].
  destruct (fp_text p) as [|c t] eqn:T.
  - rewrite cxx_set_is_c.
    pose proof (set_refines o o (Some (fp_name p)) XReset eq_refl Logic.I (proj1 G)) as A.
    destruct (good_set o o (Some (fp_name p)) XReset eq_refl Logic.I G G) as (B & C).
    cbn [of_osrc resolve] in *. rewrite A. cbn [snd]. rewrite C.
    repeat split; [exact (proj1 B)|exact (proj2 B)|apply class_kind; exact C].
  - assert (c :: t <> []) as NE by discriminate.
    exact (leaf_nonempty o (fp_name p) (c :: t) (fp_orc p) Wp NE G).
Qed.
Lemma group_nonempty o n (t : bytes) orc : no_nul t = true -> good o ->
  let r := snd (cxx_set_property o (Some n) (Some (SText (Some t) orc))) in
  fobj r = (kind_of o, snd (sset (kind_of o) (abs o) (abs o) (Some n) (ASrc (SText (Some t) orc)))) /\ good r /\
  class_of r = class_of o.
Proof.
  intros N G r. subst r. rewrite cxx_set_is_c.
  pose proof (set_refines o o (Some n) (XText (Some t) orc) eq_refl N (proj1 G)) as A.
  destruct (good_set o o (Some n) (XText (Some t) orc) eq_refl N G G) as (B & C).
  cbn [of_osrc resolve] in *. rewrite A. cbn [snd]. unfold fobj. rewrite C.
  repeat split; [exact (proj1 B)|exact (proj2 B)|apply class_kind; exact C].
Qed.
Lemma inst_group o p : good o -> wf_fprop p ->
  fobj (lo_group _ _ mops o p) = lo_group _ _ sops (fobj o) p /\ good (lo_group _ _ mops o p) /\
  lo_class _ _ mops (lo_group _ _ mops o p) = lo_class _ _ mops o.
Proof.
  intros G Wp. cbn [lo_group mops sops lo_class]. unfold group_assign, s_group, fobj. unfold wf_fprop in Wp.
  destruct (fp_text p) as [|c t] eqn:T; [auto|].
  exact (group_nonempty o (fp_name p) (c :: t) (fp_orc p) Wp G).
Qed.
Lemma inst_names o : lo_names _ _ sops (fobj o) = lo_names _ _ mops o.
Proof. destruct o; reflexivity. Qed.
Lemma inst_scale o : lo_scale _ _ sops (fobj o) = lo_scale _ _ mops o.
Proof. destruct o; reflexivity. Qed.
Lemma inst_top l p : wf_fprop p -> labs (lo_top _ _ mops l p) = lo_top _ _ sops (labs l) p.
Proof.
  intros Wp. cbn [lo_top mops sops]. unfold layout_assign, s_top. unfold wf_fprop in Wp.
  destruct (fp_text p) as [|c t] eqn:T; [reflexivity|].
  rewrite lay_name_model. unfold layout_set.
  assert (forall cur, string_pset cur (SText (Some (c :: t)) (fp_orc p)) = (SOk, Some (c :: t))) as SP.
  { intros cur. rewrite (string_pset_spec cur (SText (Some (c :: t)) (fp_orc p)) Wp). reflexivity. }
  destruct (fp_name p) as [|c0 n0] eqn:N; [reflexivity|].
  destruct (ceqs (c0 :: n0) "alias" || ceqs (c0 :: n0) "name").
  - rewrite SP. reflexivity.
  - destruct (ceqs (c0 :: n0) "font"); [rewrite SP; reflexivity|reflexivity].
Qed.

(* ================= reading a layout file refines the specification ================= *)
Definition wf_tent : tent -> Prop := Wtent wf_fprop.
Definition fnode : tnode anyobj -> tnode sobj := mt anyobj sobj fobj.
Definition fgraphs : list (option bytes * anyobj * option nat) -> list (option bytes * sobj * option nat) := mgs anyobj sobj fobj.
Definition good_node : tnode anyobj -> Prop := Qt anyobj good.

Theorem load_entries_refines ents lay gs : Forall wf_tent ents ->
  let R := load_entries mops ents lay gs in
  load_entries sops ents (labs lay) (fgraphs gs) =
    (fst (fst (fst R)), labs (snd (fst (fst R))), map fnode (snd (fst R)), fgraphs (snd R)) /\ Forall good_node (snd (fst R)).
Proof.
  exact (load_entries_hom anyobj layoutobj sobj aobj mops sops fobj labs good wf_fprop
           inst_create inst_qcreate inst_class inst_copy inst_leaf inst_group inst_names inst_top ents lay gs).
Qed.
Theorem min_scale_refines gs : min_scale sops (fgraphs gs) = min_scale mops gs.
Proof. exact (min_scale_hom anyobj layoutobj sobj aobj mops sops fobj inst_scale gs). Qed.
