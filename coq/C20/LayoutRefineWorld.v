(* C20/LayoutRefineWorld.v — mpt_world_set refines the specification's set on the abstraction. *)
Require Import List String Ascii NArith ZArith Bool Lia.
Import ListNotations.
From MptV Require Import C20.LayoutTypes C20.LayoutConv C20.Gen_Layout C20.LayoutModel C20.LayoutSpec
  C20.LayoutLemmas C20.LayoutAbs C20.LayoutFields C20.LayoutColour C20.LayoutFields2 C20.LayoutRefineAxis C20.LayoutRefineLine.
Local Open Scope Z_scope.

Definition world_how (f : world_field) : bytes * how :=
  match f with
  | WlCyc => (bs "cycles", HNum NU32) | WlColor => (bs "color", HCol) | WlAlias => (bs "alias", HStr)
  | WlWidth => (bs "width", HAttr 1 10) | WlStyle => (bs "style", HAttr 1 5)
  | WlSymbol => (bs "symbol", HAttr 0 8) | WlSize => (bs "size", HAttr 10 20)
  end.

Ltac str_case abs_lemma W :=
  unfold apply_named, str_field;
  match goal with
  | s : option source |- _ =>
    destruct s as [src|]; cbn [asrc_of];
    [ rewrite (string_pset_spec _ _ (W _ eq_refl)); unfold denote;
      destruct (den_str_cases src) as [E|[v E]]; rewrite E; cbn [fst snd sok]; rewrite ?abs_lemma; reflexivity
    | cbn [fst snd sok]; rewrite !abs_lemma; reflexivity ]
  end.

Lemma world_named f (s : option source) o :
  (forall x, s = Some x -> wf_source x) ->
  apply_named KWorld (abs (OWorld o)) (fst (world_how f)) (snd (world_how f)) (asrc_of s) =
  (sok (fst (world_set_field f s o)), abs (OWorld (snd (world_set_field f s o)))).
Proof.
  intros W. destruct f; cbn [world_how fst snd world_set_field].
  - num_case abs_world.
  - col_case abs_world.
  - str_case abs_world W.
  - attr_case abs_world (la_width (wl_attr o)).
  - attr_case abs_world (la_style (wl_attr o)).
  - attr_case abs_world (la_symbol (wl_attr o)).
  - attr_case abs_world (la_size (wl_attr o)).
Qed.

Lemma world_resolve n : resolve_name KWorld n = option_map world_how (world_field_of n).
Proof.
  unfold resolve_name, world_field_of. norm_names.
  repeat match goal with
  | |- (if ?b then _ else _) = _ =>
    match b with
    | context [beq ?X ?c] => destruct (beq X c) eqn:?; cbn [orb option_map]; [reflexivity|]
    end
  end.
  reflexivity.
Qed.

Lemma world_auto src o : wf_source src -> no_value src = false ->
  (match src with SObj _ => False | _ => True end) ->
  (match src with
   | SValue (VLat st w sy sz) => (true, lattr_props st w sy sz (abs (OWorld o)))
   | _ => match auto_select KWorld src with
          | Some (p, h) => apply_named KWorld (abs (OWorld o)) p h (ASrc src)
          | None => (false, abs (OWorld o))
          end
   end) =
  (match ok_or (string_pset (wl_alias o) src) with
   | Some t => (true, abs (OWorld (set_wl_alias t o)))
   | None =>
     match src with
     | SValue (VCol a r g b) => (true, abs (OWorld (set_wl_color (mkcol a r g b) o)))
     | SValue (VLat st w sy sz) => (true, abs (OWorld (set_wl_attr (mklattr (Z.of_N st) (Z.of_N w) (Z.of_N sy) (Z.of_N sz)) o)))
     | _ => (false, abs (OWorld o))
     end
   end).
Proof.
  intros W NV NO. rewrite (string_pset_spec _ _ W).
  destruct src as [t orc|v|x]; [| |contradiction].
  - cbn [auto_select]. unfold apply_named, denote. cbn [den_str ok_or]. rewrite !abs_world. reflexivity.
  - destruct v; cbn [auto_select den_str ok_or]; try reflexivity;
      unfold apply_named, denote; cbn [den_str den_col]; rewrite !abs_world; reflexivity.
Qed.

Theorem world_set_refines o (other : world) name (s : osrc) :
  wf_osrc s ->
  sset KWorld (abs (OWorld o)) (abs (OWorld other)) name (of_osrc s) =
  pairb (world_set o name (resolve s (OWorld other))) (fun x => abs (OWorld x)).
Proof.
  intros W. unfold pairb. destruct name as [[|c n]|].
  - cbn [sset world_set]. destruct s as [|t orc|v|]; cbn [of_osrc resolve fst snd sok]; try reflexivity;
      try (destruct (no_value _); reflexivity).
  - cbn [sset world_set]. rewrite world_resolve.
    destruct (world_field_of (c :: n)) as [f|]; cbn [option_map]; [|reflexivity].
    destruct (world_how f) as [p h] eqn:H.
    replace p with (fst (world_how f)) by (rewrite H; reflexivity).
    replace h with (snd (world_how f)) by (rewrite H; reflexivity).
    destruct s as [|t orc|v|]; cbn [of_osrc resolve].
    + apply (world_named f None o); discriminate.
    + apply (world_named f (Some (SText t orc)) o); intros x E; inversion E; subst; exact W.
    + apply (world_named f (Some (SValue v)) o); intros x E; inversion E; subst; apply wf_value; exact W.
    + replace (apply_named KWorld (abs (OWorld o)) (fst (world_how f)) (snd (world_how f)) AOther)
        with (apply_named KWorld (abs (OWorld o)) (fst (world_how f)) (snd (world_how f)) (ASrc (SObj (OWorld other))))
        by (rewrite apply_named_obj; reflexivity).
      apply (world_named f (Some (SObj (OWorld other))) o); intros x E; inversion E; subst; exact Logic.I.
  - cbn [sset world_set]. destruct s as [|t orc|v|]; cbn [of_osrc resolve fst snd sok]; try reflexivity.
    + destruct (no_value (SText t orc)) eqn:NV; [reflexivity|].
      pose proof (world_auto (SText t orc) o W NV Logic.I) as A. cbn match in A. rewrite A.
      destruct (ok_or (string_pset (wl_alias o) (SText t orc))); reflexivity.
    + destruct (no_value (SValue v)) eqn:NV; [reflexivity|].
      pose proof (world_auto (SValue v) o (wf_value v W) NV Logic.I) as A.
      destruct v; cbn match in A; rewrite A;
      destruct (ok_or (string_pset (wl_alias o) _)); reflexivity.
Qed.
