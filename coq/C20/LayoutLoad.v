(* C20/LayoutLoad.v — executable model (NO proofs) of reading a layout file into a layout object:
   mpt++/layout.cpp (layout::open / load / bind / reset / minimal_scale), add_items of mpt++/collection.cpp (the entries
   of the parsed file become items and property assignments), layout::graph::bind through the relation of the layout.

   The file itself is the parser's business (property C19); the case hands over the entries the parser delivers:
   `name = value` lines and sections `type name : parent ... { ... }`, two levels deep (items of the layout, items of a
   graph).  What is done with the entries is written ONCE, over an abstract object type with the operations an entry
   needs (create, copy every property, assign a property from the text of a node): the mechanism model instantiates
   it with the records of LayoutModel, the specification with property lists (LayoutLoadSpec.v). *)
Require Import List String Ascii NArith ZArith Bool.
Import ListNotations.
From MptV Require Import C20.LayoutTypes C20.LayoutConv C20.Gen_Layout C20.LayoutModel C20.LayoutCxxModel.
Local Open Scope Z_scope.

(* ---- entries ---- *)
(* name = value; an empty text stands for "no value" (the node has no metatype); orc: what libc answers for the text *)
Record fprop := mkfp { fp_name : bytes; fp_text : bytes; fp_orc : torc }.
Record fleaf := mkfl { fl_key : bytes; fl_props : list fprop }.
Inductive gent := GEProp (p : fprop) | GEItem (l : fleaf).
Record fsect := mkfs { fs_key : bytes; fs_ents : list gent }.
(* TERaw: text the parser refuses *)
Inductive tent := TEProp (p : fprop) | TESect (s : fsect) | TERaw.

(* ---- the section key `type name : parent parent` (add_items) ---- *)
(* first word = item type; it has to start the key *)
Definition key_type (k : bytes) : option (bytes * bytes) :=
  match k with
  | [] => None
  | c :: _ => if is_space c then None else let w := take_word k in Some (w, skipn (List.length w) k)
  end.
(* mpt_convert_key(&pos, ":", &len): everything up to the next ':' (white space inside is kept, behind the last visible
   character it is dropped); the ':' is consumed *)
Fixpoint scan_name (t : bytes) (pos len : nat) : nat * nat :=
  match t with
  | [] => (len, pos)
  | c :: r => if is_space c then scan_name r (S pos) len
              else if N.eqb c 58 then (len, S pos)
              else scan_name r (S pos) (S pos)
  end.
Definition key_name (rest : bytes) : option (bytes * bytes) :=
  match skip_space rest with
  | [] => None
  | r => let '(len, used) := scan_name r 0 0 in
         match len with O => None | _ => Some (firstn len r, skipn used r) end
  end.

Section Load.
  (* O: an item (axis, line, text, graph, world); L: the layout's own properties *)
  Variables O L : Type.
  Record lops := mklops {
    lo_create : bytes -> option O;              (* item_group::create(type) *)
    lo_class : O -> N;                          (* the class of an item: 0 axis 1 line 2 text 3 graph 4 world *)
    lo_copy : O -> O -> O;                      (* target.set(source, logger): every property of the source by value *)
    lo_leaf : O -> fprop -> O;                  (* entry `name = value` of an item that is no group *)
    lo_group : O -> fprop -> O;                 (* entry `name = value` of a graph *)
    lo_names : O -> option bytes * option bytes; (* the "axes" and "worlds" name lists of a graph *)
    lo_scale : O -> N * N;                      (* scale of a graph *)
    lo_top : L -> fprop -> L                    (* entry `name = value` of the layout *)
  }.
  Variable P : lops.

  Definition level := list (option bytes * O).
  (* first item of the class under the name *)
  Fixpoint find_cls (cls : N) (items : level) (w : bytes) : option O :=
    match items with
    | [] => None
    | (n, o) :: r => if name_is n w && N.eqb (lo_class P o) cls then Some o else find_cls cls r w
    end.
  Fixpoint find_levels (cls : N) (chain : list level) (w : bytes) : option O :=
    match chain with
    | [] => None
    | l :: r => match find_cls cls l w with Some x => Some x | None => find_levels cls r w end
    end.
  (* relation::find: see LayoutCxxModel.find_key *)
  Definition find_in (cls : N) (chain : list level) (w : bytes) : option O :=
    match find_key w with Some p => find_levels cls chain p | None => None end.

  (* the properties of a new item: every parent's properties in turn (None: a parent is missing) *)
  Fixpoint inherit (o : O) (chain : list level) (parents : list bytes) : option O :=
    match parents with
    | [] => Some o
    | w :: r => match find_in (lo_class P o) chain w with
                | Some src => inherit (lo_copy P o src) chain r
                | None => None
                end
    end.
  Definition assign_all (f : O -> fprop -> O) (o : O) (ps : list fprop) : O := fold_left f ps o.

  Inductive made := MSkip | MFail | MItem (name : bytes) (o : O).
  (* one section: the item it creates (before its own entries are applied) *)
  Definition make_item (key : bytes) (own : level) (chain : list level) : made :=
    match key_type key with
    | None => MSkip
    | Some (ty, rest) =>
      match lo_create P ty with
      | None => MSkip
      | Some o =>
        match key_name rest with
        | None => MSkip
        | Some (name, parents) =>
          match find_in (lo_class P o) [own] name with
          | Some _ => MSkip                               (* name taken by an item of the class on this level *)
          | None => match inherit o chain (words parents) with
                    | Some o' => MItem name o'
                    | None => MFail
                    end
          end
        end
      end
    end.
  Definition is_graph (o : O) : bool := N.eqb (lo_class P o) 3.
  Definition item_props (o : O) (ps : list fprop) : O :=
    if is_graph o then assign_all (lo_group P) o ps else assign_all (lo_leaf P) o ps.

  (* the entries of a graph section: (graph, its items, ok).  outer: the items of the layout before the graph; the graph
     itself (as far as its entries have been read) follows them *)
  Fixpoint graph_entries (ents : list gent) (gname : bytes) (g : O) (subs : level) (outer : level) : O * level * bool :=
    match ents with
    | [] => (g, subs, true)
    | GEProp p :: r => graph_entries r gname (lo_group P g p) subs outer
    | GEItem l :: r =>
      match make_item (fl_key l) subs [subs; app outer [(Some gname, g)]] with
      | MSkip => graph_entries r gname g subs outer
      | MFail => (g, subs, false)
      | MItem name o => graph_entries r gname g (app subs [(Some name, item_props o (fl_props l))]) outer
      end
    end.

  (* an item of the layout: the object, for a graph its items and the axes / worlds bound to it *)
  Record tnode := mktn { tn_name : option bytes; tn_obj : O; tn_items : level; tn_axes : level; tn_worlds : level }.
  Definition tops_level (tops : list tnode) : level := map (fun t => (tn_name t, tn_obj t)) tops.
  Definition props_of (ents : list gent) : list fprop :=
    flat_map (fun e => match e with GEProp p => [p] | GEItem _ => [] end) ents.

  Fixpoint top_entries (ents : list tent) (lay : L) (tops : list tnode) : L * list tnode * bool :=
    match ents with
    | [] => (lay, tops, true)
    | TERaw :: r => top_entries r lay tops
    | TEProp p :: r => top_entries r (lo_top P lay p) tops
    | TESect s :: r =>
      match make_item (fs_key s) (tops_level tops) [tops_level tops] with
      | MSkip => top_entries r lay tops
      | MFail => (lay, tops, false)
      | MItem name o =>
        if is_graph o then
          (* the graph is appended before its entries are read *)
          let '(g, subs, ok) := graph_entries (fs_ents s) name o [] (tops_level tops) in
          let tops' := app tops [mktn (Some name) g subs [] []] in
          if ok then top_entries r lay tops' else (lay, tops', false)
        else top_entries r lay (app tops [mktn (Some name) (assign_all (lo_leaf P) o (props_of (fs_ents s))) [] [] []])
      end
    end.

  (* ---- bind ---- *)
  Fixpoint bind_list (cls : N) (chain : list level) (ws : list bytes) : option level :=
    match ws with
    | [] => Some []
    | w :: r => match find_in cls chain w, bind_list cls chain r with
                | Some x, Some l => Some ((Some (last_seg w), x) :: l)
                | _, _ => None
                end
    end.
  Definition all_of (cls : N) (items : level) : level := filter (fun it => N.eqb (lo_class P (snd it)) cls) items.
  Definition found_all (cls : N) (names : option bytes) (chain : list level) : bool :=
    match names with
    | None => true
    | Some t => forallb (fun w => match find_in cls chain w with Some _ => true | None => false end) (words t)
    end.
  (* layout::graph::bind for a graph of the layout: None = refused (an item named is missing), bindings unchanged *)
  Definition bind_graph (t : tnode) (tops : level) : option tnode :=
    let chain := [tn_items t; tops] in
    let '(an, wn) := lo_names P (tn_obj t) in
    match (match an with None => Some (all_of 0 (tn_items t)) | Some names => bind_list 0 chain (words names) end) with
    | None => None
    | Some al =>
      match (match wn with None => Some (all_of 4 (tn_items t)) | Some names => bind_list 4 chain (words names) end) with
      | None => None
      | Some wl =>
        if forallb (fun it => if is_graph (snd it)
                              then (let '(a2, w2) := lo_names P (snd it) in found_all 0 a2 chain && found_all 4 w2 chain)
                              else true) (tn_items t)
        then Some (mktn (tn_name t) (tn_obj t) (tn_items t) al wl) else None
      end
    end.
  (* item_group::bind over the items of the layout: stops at the first graph that refuses *)
  Fixpoint bind_tops (todo done : list tnode) (all : level) : list tnode * bool :=
    match todo with
    | [] => (done, true)
    | t :: r =>
      if is_graph (tn_obj t) then
        match bind_graph t all with
        | Some t' => bind_tops r (app done [t']) all
        | None => (app done (t :: r), false)
        end
      else bind_tops r (app done [t]) all
    end.
  (* the graphs of the layout after a successful bind: name, object, position among the items *)
  Fixpoint graphs_of (tops : list tnode) (i : nat) : list (option bytes * O * option nat) :=
    match tops with
    | [] => []
    | t :: r => if is_graph (tn_obj t) then (tn_name t, tn_obj t, Some i) :: graphs_of r (S i) else graphs_of r (S i)
    end.

  (* layout::load on parsed entries: the old items are dropped, the graph list is replaced only when everything went
     well (an old graph then is no item any more) *)
  Definition stale (gs : list (option bytes * O * option nat)) := map (fun g => (fst (fst g), snd (fst g), @None nat)) gs.
  Definition load_entries (ents : list tent) (lay : L) (graphs : list (option bytes * O * option nat))
    : bool * L * list tnode * list (option bytes * O * option nat) :=
    let '(lay', tops, ok) := top_entries ents lay [] in
    if ok then
      let '(tops', ok2) := bind_tops tops [] (tops_level tops) in
      if ok2 then (true, lay', tops', graphs_of tops' 0) else (false, lay', tops', stale graphs)
    else (false, lay', tops, stale graphs).

  (* layout::minimal_scale *)
  Definition min_scale (graphs : list (option bytes * O * option nat)) : N * N :=
    fold_left (fun m g => let '(sx, sy) := lo_scale P (snd (fst g)) in
                          ((if f32_lt sx (fst m) then sx else fst m), (if f32_lt sy (snd m) then sy else snd m)))
              graphs (F32_ONE, F32_ONE).
End Load.
Arguments mklops {O L}.
Arguments mktn {O}.
Arguments tn_name {O}. Arguments tn_obj {O}. Arguments tn_items {O}. Arguments tn_axes {O}. Arguments tn_worlds {O}.
Arguments load_entries {O L}.
Arguments min_scale {O L}.
Arguments top_entries {O L}.
Arguments bind_tops {O L}.
Arguments graphs_of {O L}.
Arguments stale {O}.
Arguments tops_level {O}.

(* ================= mechanism instance ================= *)
Definition class_of (o : anyobj) : N :=
  match o with OAxis _ => 0 | OLine _ => 1 | OText _ => 2 | OGraph _ => 3 | OWorld _ => 4 end%N.
(* entry of an item that is no group: without value the property is reset; with a value the node's text metatype is
   handed to set_property, and when that refuses the text goes through mpt_object_set_string *)
Definition leaf_assign (o : anyobj) (p : fprop) : anyobj :=
  match fp_text p with
  | [] => snd (cxx_set_property o (Some (fp_name p)) None)
  | t =>
    match meta_set o (fp_name p) t with
    | (SOk, o') => o'
    | (SFail _, _) => snd (cxx_set_property o (Some (fp_name p)) (Some (SText (Some t) (fp_orc p))))
    end
  end.
(* entry of a graph (group and object): an entry without value names no property; with a value the text goes
   through mpt_object_set_string *)
Definition group_assign (o : anyobj) (p : fprop) : anyobj :=
  match fp_text p with
  | [] => o
  | t => snd (cxx_set_property o (Some (fp_name p)) (Some (SText (Some t) (fp_orc p))))
  end.
Definition layout_assign (l : layoutobj) (p : fprop) : layoutobj :=
  match fp_text p with
  | [] => l
  | t => snd (layout_set l (Some (fp_name p)) (Some (SText (Some t) (fp_orc p))))
  end.
Definition graph_names (o : anyobj) : option bytes * option bytes :=
  match o with OGraph g => (gr_axes g, gr_worlds g) | _ => (None, None) end.
Definition graph_scale (o : anyobj) : N * N :=
  match o with OGraph g => (gr_sx g, gr_sy g) | _ => (F32_ONE, F32_ONE) end.
Definition mops : lops anyobj layoutobj :=
  mklops (fun ty => option_map gi_obj (create_item ty)) class_of
         (fun tg src => snd (object_set_from true tg src)) leaf_assign group_assign graph_names graph_scale layout_assign.

(* ================= class layout with its items, graphs and parser ================= *)
(* ls_input: what the parser would read next time (None: no file); ls_eof: the file has been read to its end *)
Record lstate := mkls { ls_obj : layoutobj; ls_tops : list (tnode anyobj); ls_graphs : list (option bytes * anyobj * option nat);
                        ls_parser : bool; ls_input : option (list tent); ls_eof : bool }.
Definition ls_init := mkls def_layout [] [] false None false.
Definition has_raw (ents : list tent) : bool := existsb (fun e => match e with TERaw => true | _ => false end) ents.

(* layout::load(): no parser / no input: refused; text the parser refuses: refused, nothing changes *)
Definition layout_load (st : lstate) : bool * lstate :=
  if negb (ls_parser st) then (false, st)
  else match ls_input st with
       | None => (false, st)
       | Some ents =>
         let ents' := if ls_eof st then [] else ents in
         if has_raw ents' then (false, mkls (ls_obj st) (ls_tops st) (ls_graphs st) true (ls_input st) true)
         else let '(ok, lay, tops, gs) := load_entries mops ents' (ls_obj st) (ls_graphs st) in
              (ok, mkls lay tops gs true (ls_input st) true)
       end.

Inductive lop := LLoad (ents : list tent) | LAgain | LOpenNull | LOpenMissing | LReset.
Record lview := mklv { lv_tops : list (tnode anyobj); lv_graphs : list (option bytes * anyobj * option nat); lv_scale : N * N }.
Definition view_of (st : lstate) : lview := mklv (ls_tops st) (ls_graphs st) (min_scale mops (ls_graphs st)).
Inductive lres := LBool (b : bool) | LLoaded (b : bool) (v : lview).
Definition lfile_step (st : lstate) (p : lop) : lstate * lres :=
  match p with
  | LLoad ents =>
    (* open(path) then load() *)
    let '(ok, st') := layout_load (mkls (ls_obj st) (ls_tops st) (ls_graphs st) true (Some ents) false) in
    (st', LLoaded ok (view_of st'))
  | LAgain => let '(ok, st') := layout_load st in (st', LLoaded ok (view_of st'))
  | LOpenNull => (st, LBool true)
  | LOpenMissing => (mkls (ls_obj st) (ls_tops st) (ls_graphs st) true (ls_input st) (ls_eof st), LBool false)
  | LReset =>
    (* the parser is rewound; graphs, alias and font are dropped, the items stay *)
    (mkls def_layout (ls_tops st) [] (ls_parser st) (ls_input st) false, LBool true)
  end.

(* ---- histories on two layouts ---- *)
Inductive lxop := LX (p : xop) | LF (tb : bool) (f : lop).
Inductive lxres := LXR (r : xres) | LFR (r : lres).
Definition with_obj (st : lstate) (o : layoutobj) : lstate :=
  mkls o (ls_tops st) (ls_graphs st) (ls_parser st) (ls_input st) (ls_eof st).
Definition llstep (st : lstate * lstate) (p : lxop) : (lstate * lstate) * lxres :=
  let '(a, b) := st in
  match p with
  | LX q => let '((a', b'), r) := lstep (ls_obj a, ls_obj b) q in ((with_obj a a', with_obj b b'), LXR r)
  | LF false f => let '(a', r) := lfile_step a f in ((a', b), LFR r)
  | LF true f => let '(b', r) := lfile_step b f in ((a, b'), LFR r)
  end.
Definition llout := (lxres * list pent * list pent)%type.
Fixpoint llrun (st : lstate * lstate) (ops : list lxop) : list llout :=
  match ops with
  | [] => []
  | p :: r => let '(st', t) := llstep st p in (t, layout_props (ls_obj (fst st')), layout_props (ls_obj (snd st'))) :: llrun st' r
  end.
