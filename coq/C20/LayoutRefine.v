(* C20/LayoutRefine.v — the five kinds together: every set / reset / assignment step of the model is the
   specification's step on the abstraction, for every object, name and source; histories; and the
   consequences the property names (set_get, set_frame, reset_default, refused_unchanged, copy_equal). *)
Require Import List String Ascii NArith ZArith Bool Lia.
Import ListNotations.
From MptV Require Import C20.LayoutTypes C20.LayoutConv C20.Gen_Layout C20.LayoutModel C20.LayoutSpec
  C20.LayoutLemmas C20.LayoutAbs C20.LayoutFields C20.LayoutColour C20.LayoutFields2 C20.LayoutRefineAxis
  C20.LayoutRefineLine C20.LayoutRefineWorld C20.LayoutRefineText C20.LayoutRefineGraph.
Local Open Scope Z_scope.

Definition inv (o : anyobj) : Prop := match o with OAxis x => axis_inv x | OGraph x => graph_inv x | _ => True end.
Definition same_kind (a b : anyobj) : Prop := kind_of a = kind_of b.

Theorem set_refines o other name (s : osrc) :
  same_kind o other -> wf_osrc s -> inv o ->
  sset (kind_of o) (abs o) (abs other) name (of_osrc s) =
  (sok (fst (obj_set o name (resolve s other))), abs (snd (obj_set o name (resolve s other)))).
Proof.
  intros K W I. destruct o as [x|x|x|x|x], other as [y|y|y|y|y]; try discriminate K; cbn [kind_of obj_set].
  - rewrite (axis_set_refines x y name s W I). unfold pairb. destruct (axis_set x name (resolve s (OAxis y))); reflexivity.
  - rewrite (line_set_refines x y name s). unfold pairb. destruct (line_set x name (resolve s (OLine y))); reflexivity.
  - rewrite (text_set_refines x y name s W). unfold pairb. destruct (text_set x name (resolve s (OText y))); reflexivity.
  - rewrite (graph_set_refines x y name s W). unfold pairb. destruct (graph_set x name (resolve s (OGraph y))); reflexivity.
  - rewrite (world_set_refines x y name s W). unfold pairb. destruct (world_set x name (resolve s (OWorld y))); reflexivity.
Qed.

Lemma set_keeps_kind o name src : kind_of (snd (obj_set o name src)) = kind_of o.
Proof.
  destruct o; cbn [obj_set];
  match goal with |- context [let '(_, _) := ?e in _] => destruct e end; reflexivity.
Qed.

Lemma set_keeps_inv o other name s : same_kind o other -> inv o -> inv other -> inv (snd (obj_set o name (resolve s other))).
Proof.
  intros K I IO. destruct o as [x|x|x|x|x], other as [y|y|y|y|y]; try discriminate K; cbn [obj_set].
  - pose proof (axis_set_inv x y name s I IO) as H. destruct (axis_set x name (resolve s (OAxis y))); exact H.
  - destruct (line_set x name (resolve s (OLine y))); exact Logic.I.
  - destruct (text_set x name (resolve s (OText y))); exact Logic.I.
  - pose proof (graph_set_inv x y name s I IO) as H. destruct (graph_set x name (resolve s (OGraph y))); exact H.
  - destruct (world_set x name (resolve s (OWorld y))); exact Logic.I.
Qed.

(* ---- histories of set operations (on either object) ---- *)
Definition set_only (p : op) : Prop := match p with OpSet _ _ s => wf_osrc s | _ => False end.

Fixpoint mrun_abs (st : anyobj * anyobj) (ops : list op) : list (bool * aobj * aobj) :=
  match ops with
  | [] => []
  | p :: r => let '(st', t) := step st p in
              (match t with RK => true | _ => false end, abs (fst st'), abs (snd st')) :: mrun_abs st' r
  end.
Fixpoint srun_abs (k : kind) (st : aobj * aobj) (ops : list op) : list (bool * aobj * aobj) :=
  match ops with
  | [] => []
  | p :: r => let '(st', t) := sstep k st p in
              (match t with TK => true | _ => false end, fst st', snd st') :: srun_abs k st' r
  end.

Theorem history_refines ops : forall a b,
  same_kind a b -> inv a -> inv b -> Forall set_only ops ->
  mrun_abs (a, b) ops = srun_abs (kind_of a) (abs a, abs b) ops.
Proof.
  induction ops as [|p ops IH]; intros a b K Ia Ib F; [reflexivity|].
  inversion F as [|? ? Hp F']; subst.
  destruct p as [tb n s|tb n|tb fl n s]; try contradiction. cbn in Hp.
  cbn [mrun_abs srun_abs step sstep]. destruct tb.
  - (* target b *)
    assert (same_kind b a) as K' by (unfold same_kind in *; congruence).
    pose proof (set_refines b a n s K' Hp Ib) as R.
    replace (kind_of a) with (kind_of b) by (unfold same_kind in *; congruence).
    rewrite R. destruct (obj_set b n (resolve s a)) as [r b'] eqn:E. cbn [fst snd].
    replace (kind_of b) with (kind_of a) by (unfold same_kind in *; congruence).
    assert (kind_of b' = kind_of b) as KB by (pose proof (set_keeps_kind b n (resolve s a)) as Q; rewrite E in Q; exact Q).
    rewrite <- (IH a b').
    + destruct r; reflexivity.
    + unfold same_kind in *; congruence.
    + assumption.
    + pose proof (set_keeps_inv b a n s K' Ib Ia) as Q. rewrite E in Q. exact Q.
    + assumption.
  - pose proof (set_refines a b n s K Hp Ia) as R. rewrite R.
    destruct (obj_set a n (resolve s b)) as [r a'] eqn:E. cbn [fst snd].
    assert (kind_of a' = kind_of a) as KA by (pose proof (set_keeps_kind a n (resolve s b)) as Q; rewrite E in Q; exact Q).
    rewrite <- KA. rewrite <- (IH a' b).
    + destruct r; reflexivity.
    + unfold same_kind in *; congruence.
    + pose proof (set_keeps_inv a b n s K Ia Ib) as Q. rewrite E in Q. exact Q.
    + assumption.
    + assumption.
Qed.

(* ================= consequences on the specification ================= *)
Lemma apply_named_frame k o p h s q : beq p q = false -> aget (snd (apply_named k o p h s)) q = aget o q.
Proof.
  intros H. unfold apply_named. destruct s as [|src|].
  - destruct h; cbn [snd]; try (apply aget_aput_other; assumption);
      destruct (aget o p) as [[]|]; cbn [snd]; try reflexivity; apply aget_aput_other; assumption.
  - destruct (denote h (aget o p) (ok_default k p) src); cbn [snd]; try reflexivity; apply aget_aput_other; assumption.
  - reflexivity.
Qed.
Lemma apply_named_refused k o p h s : fst (apply_named k o p h s) = false -> snd (apply_named k o p h s) = o.
Proof.
  unfold apply_named. destruct s as [|src|].
  - destruct h; cbn [fst snd]; try discriminate; destruct (aget o p) as [[]|]; cbn [fst snd]; discriminate.
  - destruct (denote h (aget o p) (ok_default k p) src); cbn [fst snd]; try discriminate; reflexivity.
  - reflexivity.
Qed.
Lemma apply_named_value k o p h src v :
  denote h (aget o p) (ok_default k p) src = DVal v -> aget o p <> None ->
  apply_named k o p h (ASrc src) = (true, aput o p (coerce (ok_default k p) v))
  /\ aget (aput o p (coerce (ok_default k p) v)) p = Some (coerce (ok_default k p) v).
Proof.
  intros D N. unfold apply_named. rewrite D. split; [reflexivity|]. apply aget_aput_same; assumption.
Qed.

Lemma sset_refused k o other name s : fst (sset k o other name s) = false -> snd (sset k o other name s) = o.
Proof.
  unfold sset. destruct name as [[|c n]|].
  - destruct s as [|src|]; cbn [fst snd]; try discriminate. destruct (no_value src); cbn [fst snd]; [discriminate|reflexivity].
  - destruct (resolve_name k (c :: n)) as [[p h]|]; [apply apply_named_refused|reflexivity].
  - destruct s as [|src|]; cbn [fst snd]; try discriminate; try reflexivity.
    destruct (no_value src); cbn [fst snd]; [discriminate|].
    destruct k, src as [t orc|v|x]; try destruct v; cbn [auto_select fst snd]; try reflexivity; try discriminate;
      try apply apply_named_refused.
Qed.

(* ================= the property, on the model ================= *)
Section Consequences.
  Variables (o other : anyobj) (s : osrc).
  Hypothesis K : same_kind o other.
  Hypothesis W : wf_osrc s.
  Hypothesis I : inv o.

  (* set_frame: a set / reset by name changes no other listed property *)
  Theorem set_frame c n p h q :
    resolve_name (kind_of o) (c :: n) = Some (p, h) -> beq p q = false ->
    aget (abs (snd (obj_set o (Some (c :: n)) (resolve s other)))) q = aget (abs o) q.
  Proof.
    intros R H. pose proof (set_refines o other (Some (c :: n)) s K W I) as E.
    assert (abs (snd (obj_set o (Some (c :: n)) (resolve s other))) =
            snd (sset (kind_of o) (abs o) (abs other) (Some (c :: n)) (of_osrc s))) as -> by (rewrite E; reflexivity).
    cbn [sset]. rewrite R. apply apply_named_frame. assumption.
  Qed.

  (* an unknown name is refused *)
  Theorem unknown_refused c n :
    resolve_name (kind_of o) (c :: n) = None -> sok (fst (obj_set o (Some (c :: n)) (resolve s other))) = false.
  Proof.
    intros R. pose proof (set_refines o other (Some (c :: n)) s K W I) as E.
    cbn [sset] in E. rewrite R in E. inversion E. reflexivity.
  Qed.

  (* refused_unchanged, on the listed properties (the record level statement is obj_set_refused below) *)
  Theorem refused_unchanged_abs name :
    sok (fst (obj_set o name (resolve s other))) = false -> abs (snd (obj_set o name (resolve s other))) = abs o.
  Proof.
    intros F. pose proof (set_refines o other name s K W I) as E.
    assert (fst (sset (kind_of o) (abs o) (abs other) name (of_osrc s)) = false) as F' by (rewrite E; exact F).
    apply sset_refused in F'. rewrite E in F'. exact F'.
  Qed.
End Consequences.

(* set_get: a value the property accepts reads back *)
Theorem set_get o c n p h src v :
  wf_source src -> inv o ->
  resolve_name (kind_of o) (c :: n) = Some (p, h) ->
  denote h (aget (abs o) p) (ok_default (kind_of o) p) src = DVal v -> aget (abs o) p <> None ->
  sok (fst (obj_set o (Some (c :: n)) (Some src))) = true /\
  aget (abs (snd (obj_set o (Some (c :: n)) (Some src)))) p = Some (coerce (ok_default (kind_of o) p) v).
Proof.
  intros W I R D N.
  assert (exists s, resolve s o = Some src /\ wf_osrc s /\ of_osrc s = ASrc src) as (s & RS & WS & OS).
  { destruct src as [t orc|v0|x].
    - exists (XText t orc). auto.
    - exists (XValue v0). repeat split; auto.
    - (* another object as a value for a named property: never denotes a value *)
      exfalso. destruct h; cbn in D; try discriminate; destruct (aget (abs o) p) as [[]|]; discriminate. }
  pose proof (set_refines o o (Some (c :: n)) s eq_refl WS I) as E. rewrite RS in E.
  cbn [sset] in E. rewrite R, OS in E.
  destruct (apply_named_value (kind_of o) (abs o) p h src v D N) as [A G]. rewrite A in E.
  injection E as E1 E2. split; [congruence|]. rewrite <- E2. exact G.
Qed.

(* reset_default: a reset by name restores the documented default (regenerated: Gen_Layout.*_defaults) *)
Theorem reset_default o c n p h :
  inv o -> resolve_name (kind_of o) (c :: n) = Some (p, h) -> aget (abs o) p <> None ->
  sok (fst (obj_set o (Some (c :: n)) None)) = true /\
  match h with
  | HPtX => exists y, aget (abs o) p = Some (PPt (pt_x (ok_default (kind_of o) p)) y) \/
                      exists x0, aget (abs o) p = Some (PPt x0 y) /\
                                 aget (abs (snd (obj_set o (Some (c :: n)) None))) p = Some (PPt (pt_x (ok_default (kind_of o) p)) y)
  | HPtY => exists x, aget (abs o) p = Some (PPt x (pt_y (ok_default (kind_of o) p))) \/
                      exists y0, aget (abs o) p = Some (PPt x y0) /\
                                 aget (abs (snd (obj_set o (Some (c :: n)) None))) p = Some (PPt x (pt_y (ok_default (kind_of o) p)))
  | _ => aget (abs (snd (obj_set o (Some (c :: n)) None))) p = aget (defaults (kind_of o)) p
  end.
Proof.
Abort.

(* reset_default: a reset by name restores the documented default (the regenerated Gen_Layout.*_defaults);
   the single coordinates x / y of a text restore their half of the default position *)
Theorem reset_default o c n p h :
  inv o -> resolve_name (kind_of o) (c :: n) = Some (p, h) -> aget (abs o) p <> None ->
  sok (fst (obj_set o (Some (c :: n)) None)) = true /\
  let o' := snd (obj_set o (Some (c :: n)) None) in
  let d := ok_default (kind_of o) p in
  match h with
  | HPtX => forall x y, aget (abs o) p = Some (PPt x y) -> aget (abs o') p = Some (PPt (pt_x d) y)
  | HPtY => forall x y, aget (abs o) p = Some (PPt x y) -> aget (abs o') p = Some (PPt x (pt_y d))
  | _ => aget (abs o') p = Some d
  end.
Proof.
  intros I R N.
  pose proof (set_refines o o (Some (c :: n)) XReset eq_refl Logic.I I) as E.
  cbn [resolve of_osrc sset] in E. rewrite R in E.
  assert (fst (apply_named (kind_of o) (abs o) p h AReset) = true) as A.
  { unfold apply_named. destruct h; try reflexivity; destruct (aget (abs o) p) as [[]|]; reflexivity. }
  split; [rewrite E in A; exact A|].
  cbv zeta.
  assert (abs (snd (obj_set o (Some (c :: n)) None)) = snd (apply_named (kind_of o) (abs o) p h AReset)) as ->
    by (rewrite E; reflexivity).
  unfold apply_named.
  destruct h; cbn [snd]; try (apply aget_aput_same; assumption);
    intros x y H; rewrite H; cbn [snd]; apply aget_aput_same; assumption.
Qed.

(* copy_equal: generic assignment (NULL or empty name) from an object of the same kind gives an equal object *)
Theorem copy_equal o other name :
  same_kind o other -> (name = None \/ name = Some []) ->
  obj_set o name (Some (SObj other)) = (SOk, other).
Proof.
  intros K [-> | ->]; destruct o, other; try discriminate K; reflexivity.
Qed.

(* ================= refused_unchanged at record level ================= *)
Lemma num_field_refused {O} ty s (o : O) def wr e o' : num_field ty s o def wr = (SFail e, o') -> o' = o.
Proof. unfold num_field. destruct s as [src|]; [destruct (src_number ty src)|]; intros H; inversion H; reflexivity. Qed.
Lemma str_field_refused {O} s (o : O) cur wr e o' : str_field s o cur wr = (SFail e, o') -> o' = o.
Proof.
  unfold str_field. destruct s as [src|]; [|intros H; inversion H].
  destruct (string_pset cur src) as [[|e'] v]; intros H; inversion H; reflexivity.
Qed.
Lemma col_field_refused {O} s (o : O) cur def wr e o' : col_field s o cur def wr = (SFail e, o') -> o' = o.
Proof.
  unfold col_field. destruct s as [src|]; [|intros H; inversion H].
  destruct (color_pset cur src) as [[|e'] v]; intros H; inversion H; reflexivity.
Qed.
Lemma lat_field_refused {O} s (o : O) cur def lo hi wr e o' : lat_field s o cur def lo hi wr = (SFail e, o') -> o' = o.
Proof.
  unfold lat_field. destruct s as [src|]; [|intros H; inversion H].
  destruct (lattr_pset cur src def lo hi) as [[|e'] v]; intros H; inversion H; reflexivity.
Qed.
Lemma attr_field_refused {O} w s (o : O) a wr e o' : attr_field w s o a wr = (SFail e, o') -> o' = o.
Proof. unfold attr_field. destruct w as [|[|[|w]]]; apply lat_field_refused. Qed.
Lemma pt_field_refused {O} s (o : O) rmax dx dy wr e o' : pt_field s o rmax dx dy wr = (SFail e, o') -> o' = o.
Proof.
  unfold pt_field. destruct s as [src|]; [destruct (fpoint_set src 0%N rmax)|]; intros H; inversion H; reflexivity.
Qed.
Lemma chr_or_key_refused {O} s (o : O) def wr e o' : chr_or_key s o def wr = (SFail e, o') -> o' = o.
Proof.
  unfold chr_or_key. destruct s as [src|]; [|intros H; inversion H].
  destruct (src_number NChr src); try (intros H; inversion H; reflexivity).
  destruct (src_key src) as [| | |[|]]; intros H; inversion H; reflexivity.
Qed.
Lemma line_pos_refused s o wr e o' : line_pos s o wr = (SFail e, o') -> o' = o.
Proof.
  unfold line_pos. destruct s as [src|]; [|intros H; inversion H].
  destruct (src_number NF32 src); try (intros H; inversion H; reflexivity).
  destruct (src_number NF64 src); intros H; inversion H; reflexivity.
Qed.

Ltac refused_tac :=
  first [ eapply num_field_refused; eassumption | eapply str_field_refused; eassumption
        | eapply col_field_refused; eassumption | eapply attr_field_refused; eassumption
        | eapply pt_field_refused; eassumption | eapply chr_or_key_refused; eassumption
        | eapply line_pos_refused; eassumption ].

Lemma axis_field_refused f s o e o' : axis_set_field f s o = (SFail e, o') -> o' = o.
Proof.
  destruct f; cbn [axis_set_field]; intros H; try refused_tac.
  destruct s as [src|]; [|inversion H].
  destruct (src_number NU8 src); try (inversion H; fail).
  destruct (src_str src) as [| | |[l|]]; try (inversion H; reflexivity).
  destruct (ncaseeq 3 l (bs "log")); inversion H; reflexivity.
Qed.
Lemma line_field_refused f s o e o' : line_set_field f s o = (SFail e, o') -> o' = o.
Proof. destruct f; cbn [line_set_field]; intros H; refused_tac. Qed.
Lemma text_field_refused f s o e o' : text_set_field f s o = (SFail e, o') -> o' = o.
Proof. destruct f; cbn [text_set_field]; intros H; refused_tac. Qed.
Lemma world_field_refused f s o e o' : world_set_field f s o = (SFail e, o') -> o' = o.
Proof. destruct f; cbn [world_set_field]; intros H; refused_tac. Qed.
Lemma graph_field_refused f s o e o' : graph_set_field f s o = (SFail e, o') -> o' = o.
Proof.
  destruct f; cbn [graph_set_field]; intros H; try refused_tac.
  - destruct s as [src|]; [|inversion H].
    destruct (src_number NU8 src); try (inversion H; fail).
    destruct (src_str src) as [| | |[l|]]; inversion H; reflexivity.
  - destruct s as [src|]; [|inversion H].
    destruct (src_number NU8 src); try (inversion H; fail).
    destruct (src_str src) as [| | |[l|]]; inversion H; reflexivity.
Qed.

Ltac whole_refused H :=
  repeat match type of H with
  | context [match ?x with _ => _ end] => destruct x
  end; try (inversion H; reflexivity); try discriminate H.

(* refused_unchanged: a refused set / reset / assignment leaves the whole object (all struct members) as it was *)
Theorem obj_set_refused o name src e o' : obj_set o name src = (SFail e, o') -> o' = o.
Proof.
  destruct o as [x|x|x|x|x]; cbn [obj_set].
  - destruct (axis_set x name src) as [r x'] eqn:E. intros H; inversion H; subst. f_equal.
    unfold axis_set in E. destruct name as [[|c n]|].
    + whole_refused E.
    + destruct (axis_field_of (c :: n)); [eapply axis_field_refused; eassumption|inversion E; reflexivity].
    + whole_refused E.
  - destruct (line_set x name src) as [r x'] eqn:E. intros H; inversion H; subst. f_equal.
    unfold line_set in E. destruct name as [[|c n]|].
    + whole_refused E.
    + destruct (line_field_of (c :: n)); [eapply line_field_refused; eassumption|inversion E; reflexivity].
    + whole_refused E.
  - destruct (text_set x name src) as [r x'] eqn:E. intros H; inversion H; subst. f_equal.
    unfold text_set in E. destruct name as [[|c n]|].
    + whole_refused E.
    + destruct (text_field_of (c :: n)); [eapply text_field_refused; eassumption|inversion E; reflexivity].
    + whole_refused E.
  - destruct (graph_set x name src) as [r x'] eqn:E. intros H; inversion H; subst. f_equal.
    unfold graph_set in E. destruct name as [[|c n]|].
    + whole_refused E.
    + destruct (graph_field_of (c :: n)); [eapply graph_field_refused; eassumption|inversion E; reflexivity].
    + whole_refused E.
  - destruct (world_set x name src) as [r x'] eqn:E. intros H; inversion H; subst. f_equal.
    unfold world_set in E. destruct name as [[|c n]|].
    + whole_refused E.
    + destruct (world_field_of (c :: n)); [eapply world_field_refused; eassumption|inversion E; reflexivity].
    + whole_refused E.
Qed.
