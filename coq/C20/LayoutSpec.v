(* C20/LayoutSpec.v — the abstract specification (short, no mechanism): an object is the list of its
   LISTED properties with their values as the public get interface shows them.
     set p v   : p takes the value v denotes, nothing else changes;  refused values change nothing
     reset p   : p takes its documented default (the regenerated defaults of Gen_Layout.v)
     assign    : all properties become equal to the other object's
   What a text / typed value DENOTES for a scalar target (number, character, point) is the business of the
   conversion layer (C07; LayoutConv.v / fpoint_set) and is consulted, not re-specified, here.  Colours,
   line attributes, strings, the axis interval keyword and the graph clip/align texts are specified here. *)
Require Import List String Ascii NArith ZArith Bool.
Import ListNotations.
From MptV Require Import C20.LayoutTypes C20.LayoutConv C20.Gen_Layout C20.LayoutModel.
Local Open Scope Z_scope.

Definition aobj := list (bytes * pval).

Fixpoint aget (o : aobj) (p : bytes) : option pval :=
  match o with [] => None | (n, v) :: r => if beq n p then Some v else aget r p end.
Fixpoint aput (o : aobj) (p : bytes) (v : pval) : aobj :=
  match o with [] => [] | (n, w) :: r => if beq n p then (n, v) :: r else (n, w) :: aput r p v end.

Inductive kind := KAxis | KLine | KText | KGraph | KWorld.
Definition defaults (k : kind) : aobj :=
  match k with
  | KAxis => axis_defaults | KLine => line_defaults | KText => text_defaults
  | KGraph => graph_defaults | KWorld => world_defaults
  end.

(* how a settable name is to be understood *)
Inductive how :=
| HStr                       (* string: the text itself, empty = none *)
| HNum (ty : ntype)          (* scalar through the conversion layer *)
| HPos                       (* line coordinate: float, else a double that fits a float *)
| HChrKey                    (* first visible character of the text *)
| HCol
| HAttr (def hi : Z)         (* line attribute 0..hi *)
| HPt (rmax : N)             (* point within [0, rmax]^2 *)
| HPtX | HPtY                (* one coordinate of the point property *)
| HIntv                      (* interval count or the keyword "log" *)
| HAlign | HClip
| HGrid.                     (* grid type of a graph: a character, else the number the property shows *)

Definition lowers (n : bytes) : bytes := map lower n.
Definition in_names (n : bytes) (l : list string) : bool := existsb (fun s => beq (lowers n) (bs s)) l.
Definition exact_names (n : bytes) (l : list string) : bool := existsb (fun s => beq n (bs s)) l.

(* settable names (aliases; lower case = any case accepted, "exact" = only as written) -> listed property *)
Definition resolve_name (k : kind) (n : bytes) : option (bytes * how) :=
  let ci := in_names n in let ex := exact_names n in
  match k with
  | KAxis =>
    if ci ["title"] then Some (bs "title", HStr) else if ci ["begin"] then Some (bs "begin", HNum NF64)
    else if ci ["end"] then Some (bs "end", HNum NF64) else if ci ["tlen"] then Some (bs "tlen", HNum NF32)
    else if ci ["int"; "intv"; "intervals"] then Some (bs "intervals", HIntv)
    else if ci ["exp"; "exponent"] then Some (bs "exponent", HNum NI16)
    else if ci ["sub"; "subtick"] then Some (bs "subtick", HNum NU8)
    else if ci ["dec"; "decimals"] then Some (bs "decimals", HNum NU8)
    else if ci ["lpos"; "labelpos"; "label position"] then Some (bs "lpos", HChrKey)
    else if ci ["tpos"; "titlepos"; "title position"] then Some (bs "tpos", HChrKey)
    else None
  | KLine =>
    if ex ["x1"] then Some (bs "x1", HPos) else if ex ["x2"] then Some (bs "x2", HPos)
    else if ex ["y1"] then Some (bs "y1", HPos) else if ex ["y2"] then Some (bs "y2", HPos)
    else if ci ["color"] then Some (bs "color", HCol)
    else if ci ["width"] then Some (bs "width", HAttr 1 10) else if ci ["style"] then Some (bs "style", HAttr 1 5)
    else if ci ["symbol"] then Some (bs "symbol", HAttr 0 8) else if ci ["size"] then Some (bs "size", HAttr 10 20)
    else None
  | KText =>
    if ci ["value"] then Some (bs "value", HStr) else if ci ["font"] then Some (bs "font", HStr)
    else if ci ["x"] then Some (bs "pos", HPtX) else if ci ["y"] then Some (bs "pos", HPtY)
    else if ci ["pos"] then Some (bs "pos", HPt F32_ONE)
    else if ci ["color"] then Some (bs "color", HCol)
    else if ci ["size"] then Some (bs "size", HNum NU8)
    else if ci ["align"] then Some (bs "align", HNum NChr)
    else if ci ["angle"] then Some (bs "angle", HNum NF64)
    else None
  | KGraph =>
    if ex ["fg"] || ci ["foreground"] then Some (bs "foreground", HCol)
    else if ex ["bg"] || ci ["background"] then Some (bs "background", HCol)
    else if ex ["pos"] || ci ["position"] then Some (bs "pos", HPt F32_ONE)
    else if ci ["scale"] then Some (bs "scale", HPt F32_MAX)
    else if ex ["type"] || ci ["grid"; "gridtype"] then Some (bs "grid", HGrid)
    else if ex ["align"] || ci ["alignment"] then Some (bs "align", HAlign)
    else if ex ["clip"] || ci ["clipping"] then Some (bs "clip", HClip)
    else if ex ["lpos"] then Some (bs "lpos", HNum NChr)
    else if ex ["axes"] then Some (bs "axes", HStr) else if ex ["worlds"] then Some (bs "worlds", HStr)
    else None
  | KWorld =>
    if ci ["cyc"; "cycles"] then Some (bs "cycles", HNum NU32)
    else if ci ["color"; "colour"] then Some (bs "color", HCol)
    else if ci ["alias"] then Some (bs "alias", HStr)
    else if ci ["width"] then Some (bs "width", HAttr 1 10) else if ci ["style"] then Some (bs "style", HAttr 1 5)
    else if ci ["sym"; "symbol"] then Some (bs "symbol", HAttr 0 8) else if ci ["size"] then Some (bs "size", HAttr 10 20)
    else None
  end.

(* ---- what a source denotes ---- *)
Inductive den := DRefuse | DDefault | DKeep | DVal (v : pval).

(* strings *)
Definition nonempty (t : option bytes) : option bytes := match t with Some [] => None | x => x end.
Definition den_str (s : source) : den :=
  match s with
  | SText t _ => DVal (PStr (nonempty t))
  | SValue (VS t) => DVal (PStr (nonempty t))
  | SValue (VC z) => DVal (PStr (Some (if z mod 256 =? 0 then [] else [Z.to_N (z mod 256)])))
  | _ => DRefuse
  end.

(* colours: 8 names (any case, may be followed by white space) or '#' and 1..4 two-digit hex groups r g b a *)
Definition hexval (c : N) : option N :=
  if (N.leb 48 c && N.leb c 57)%N then Some (c - 48)%N
  else if (N.leb 97 c && N.leb c 102)%N then Some (c - 87)%N
  else if (N.leb 65 c && N.leb c 70)%N then Some (c - 55)%N else None.
Definition hexpair (x y : N) : option N :=
  match hexval x, hexval y with Some a, Some b => Some (16 * a + b)%N | _, _ => None end.
(* (a, r, g, b) of 1..4 two-digit groups r g b a *)
Definition strict_hex (r : bytes) : option (N * N * N * N) :=
  match r with
  | [r1; r2] => match hexpair r1 r2 with Some rr => Some (255, rr, 0, 0)%N | None => None end
  | [r1; r2; g1; g2] => match hexpair r1 r2, hexpair g1 g2 with Some rr, Some gg => Some (255, rr, gg, 0)%N | _, _ => None end
  | [r1; r2; g1; g2; b1; b2] =>
    match hexpair r1 r2, hexpair g1 g2, hexpair b1 b2 with Some rr, Some gg, Some bb => Some (255, rr, gg, bb)%N | _, _, _ => None end
  | [r1; r2; g1; g2; b1; b2; a1; a2] =>
    match hexpair r1 r2, hexpair g1 g2, hexpair b1 b2, hexpair a1 a2 with
    | Some rr, Some gg, Some bb, Some aa => Some (aa, rr, gg, bb) | _, _, _, _ => None end
  | _ => None
  end.
Definition strict_names : list (bytes * (N * N * N * N)) :=
  [ (bs "black", (255, 0, 0, 0)); (bs "red", (255, 255, 0, 0)); (bs "green", (255, 0, 255, 0)); (bs "blue", (255, 0, 0, 255));
    (bs "cyan", (255, 0, 255, 255)); (bs "magenta", (255, 255, 0, 255)); (bs "yellow", (255, 255, 255, 0));
    (bs "white", (255, 255, 255, 255)) ]%N.
Fixpoint strict_name (tab : list (bytes * (N * N * N * N))) (l : bytes) : option (N * N * N * N) :=
  match tab with [] => None | (n, c) :: r => if beq l n then Some c else strict_name r l end.
Definition spec_colour_strict (t : bytes) : option (N * N * N * N) :=      (* (a, r, g, b) for well formed text *)
  match t with
  | [] => None
  | c :: r => if N.eqb c 35 then strict_hex r else strict_name strict_names (lowers t)
  end.
(* text outside the strict grammar (sloppy hex groups, trailing characters) is accepted or refused as the
   parser decides; the strict grammar is binding *)
Definition den_col (s : source) : den :=
  match s with
  | SValue (VCol a r g b) => DVal (PCol a r g b)
  | SText None _ | SText (Some []) _ => DKeep
  | SValue (VS None) | SValue (VS (Some [])) => DVal (PCol 255 0 0 0)
  | SText (Some t) _ | SValue (VS (Some t)) =>
    match spec_colour_strict t with
    | Some (a, r, g, b) => DVal (PCol a r g b)
    | None => match color_parse (Some t) with Some c => DVal (pcol c) | None => DRefuse end
    end
  | _ => DRefuse
  end.

Definition den_num (ty : ntype) (s : source) : den :=
  match src_number ty s with
  | CErr _ => DRefuse | CZero => DDefault | CKeep => DKeep
  | CVal v =>
    DVal (match ty with
          | NF64 => PF64 (nv_bits v) | NF32 => PF32 (nv_bits v)
          | NChr => PChr (nv_int v) | _ => PInt (nv_int v) end)
  end.
(* line coordinate: the float the source denotes; a source that only denotes a double is refused when the
   double has no float image (finite beyond the float range) *)
Definition den_pos (s : source) : den :=
  match src_number NF32 s with
  | CErr _ => match src_number NF64 s with CZero => DDefault | CKeep => DKeep | _ => DRefuse end
  | CZero => DDefault | CKeep => DKeep
  | CVal v => DVal (PF32 (nv_bits v))
  end.
(* integer a source denotes for a line attribute *)
Definition den_attr (cur : option pval) (hi : Z) (s : source) : den :=
  let r := match src_number NU8 s with CErr _ => src_number NI32 s | x => x end in
  match r with
  | CErr _ => DRefuse
  | CZero => DDefault
  | CKeep => match cur with Some (PInt c) => if (c <? 0) || (hi <? c) then DRefuse else DKeep | _ => DKeep end
  | CVal v => let z := nv_int v in if (z <? 0) || (hi <? z) then DRefuse else DVal (PInt z)
  end.
Definition den_pt (rmax : N) (s : source) : den :=
  match fpoint_set s 0%N rmax with FErr _ => DRefuse | FZero => DDefault | FVal x y => DVal (PPt x y) end.
Definition den_chrkey (s : source) : den :=
  match s with
  | SText None _ | SText (Some []) _ => DDefault
  | SText (Some t) _ => match skip_space t with [] => DDefault | c :: _ => DVal (PChr (Z.of_N c)) end
  | _ => den_num NChr s
  end.
(* white-space-only text is nothing converted, like the empty text (mpt_convert_string as patched by
   docs/C07_convert_string_space.diff): the interval count goes back to its default; the CKeep branch is no longer
   reached from text *)
Definition den_intv (cur : option pval) (s : source) : den :=
  match src_number NU8 s with
  | CZero => DDefault
  | CKeep => match cur with Some (PStr _) => DVal (PInt 0) | _ => DKeep end
  | CVal v => DVal (PInt (nv_int v))
  | CErr _ =>
    match s with
    | SText (Some t) _ | SValue (VS (Some t)) => if beq (lowers (firstn 3 t)) (bs "log") then DVal (PStr (Some (bs "log"))) else DRefuse
    | _ => DRefuse
    end
  end.
(* clip text: the set of axes named; shown as text when only x, y, z occur *)
Definition has_chr (c : N) (t : bytes) : bool := existsb (N.eqb c) t.
Definition spec_clip_val (n : Z) : pval :=
  if n <? 8 then PStr (Some (bs (nth (Z.to_nat n) axes_clip ""%string))) else PInt n.
Definition den_clip (s : source) : den :=
  match src_number NU8 s with
  | CZero => DDefault | CKeep => DKeep | CVal v => DVal (spec_clip_val (nv_int v))
  | CErr _ =>
    match s with
    | SText (Some t) _ | SValue (VS (Some t)) =>
      let other := existsb (fun c => negb (N.eqb c 120 || N.eqb c 121 || N.eqb c 122)%N) t in
      DVal (spec_clip_val ((if has_chr 120 t then 1 else 0) + (if has_chr 121 t then 2 else 0)
                           + (if has_chr 122 t then 4 else 0) + (if other then 8 else 0)))
    | SValue (VS None) => DDefault
    | _ => DRefuse
    end
  end.
(* align text: per character b/e/z (any case) codes 1/2/3 for up to 4 axes; the encoding into the property's
   number is the implementation's (LayoutModel.align_bits) *)
Definition den_align (s : source) : den :=
  match src_number NU8 s with
  | CZero => DDefault | CKeep => DKeep | CVal v => DVal (PInt (nv_int v))
  | CErr _ =>
    match s with
    | SText (Some t) _ | SValue (VS (Some t)) => DVal (PInt (align_bits t 0 0))
    | SValue (VS None) => DVal (PInt 0)
    | _ => DRefuse
    end
  end.

(* grid type: the character a source denotes, else the number 0..255 it denotes (the property is shown as a number,
   so that every value read can be assigned again) *)
Definition den_grid (s : source) : den :=
  match den_num NChr s with
  | DRefuse => den_num NU8 s
  | d => d
  end.

Definition pt_x (v : pval) : N := match v with PPt x _ => x | _ => 0%N end.
Definition pt_y (v : pval) : N := match v with PPt _ y => y | _ => 0%N end.

(* dflt: the property's documented default *)
Definition denote (h : how) (cur : option pval) (dflt : pval) (s : source) : den :=
  match h with
  | HStr => den_str s
  | HNum ty => den_num ty s
  | HPos => den_pos s
  | HChrKey => den_chrkey s
  | HCol => den_col s
  | HAttr _ hi => den_attr cur hi s
  | HPt rmax => den_pt rmax s
  | HPtX => match den_num NF32 s, cur with
            | DVal (PF32 x), Some (PPt _ y) => DVal (PPt x y)
            | DDefault, Some (PPt _ y) => DVal (PPt (pt_x dflt) y)
            | DVal _, _ => DRefuse | d, _ => d end
  | HPtY => match den_num NF32 s, cur with
            | DVal (PF32 y), Some (PPt x _) => DVal (PPt x y)
            | DDefault, Some (PPt x _) => DVal (PPt x (pt_y dflt))
            | DVal _, _ => DRefuse | d, _ => d end
  | HIntv => den_intv cur s
  | HAlign => den_align s
  | HClip => den_clip s
  | HGrid => den_grid s
  end.

Definition kind_of (o : anyobj) : kind :=
  match o with OAxis _ => KAxis | OLine _ => KLine | OText _ => KText | OGraph _ => KGraph | OWorld _ => KWorld end.

(* sources resolved against abstract objects: the other object is only ever used for assignment *)
Inductive asrc := AReset | ASrc (s : source) | AOther.
Definition of_osrc (s : osrc) : asrc :=
  match s with XReset => AReset | XText t o => ASrc (SText t o) | XValue v => ASrc (SValue v) | XOther => AOther end.

Definition ok_default (k : kind) (p : bytes) : pval := match aget (defaults k) p with Some v => v | None => PNone end.

(* property selected by a source when no name is given (generic assignment from a plain value) *)
Definition auto_select (k : kind) (s : source) : option (bytes * how) :=
  match k, s with
  | KAxis, (SText _ _ | SValue (VS _) | SValue (VC _)) => Some (bs "title", HStr)
  | KText, (SText _ _ | SValue (VS _) | SValue (VC _)) => Some (bs "value", HStr)
  | KWorld, (SText _ _ | SValue (VS _) | SValue (VC _)) => Some (bs "alias", HStr)
  | (KLine | KText | KWorld), SValue (VCol _ _ _ _) => Some (bs "color", HCol)
  | KGraph, SValue (VCol _ _ _ _) => Some (bs "foreground", HCol)
  | _, _ => None
  end.

(* a character stored in a property that is listed as a number shows as that number (graph grid) *)
Definition coerce (shape v : pval) : pval :=
  match shape, v with
  | PInt _, PChr z => PInt z
  | PChr _, PInt z => PChr z
  | _, _ => v
  end.

Definition apply_named (k : kind) (o : aobj) (p : bytes) (h : how) (s : asrc) : bool * aobj :=
  let dflt := ok_default k p in
  match s with
  | AReset =>
    match h with
    | HPtX => match aget o p with Some (PPt _ y) => (true, aput o p (PPt (pt_x dflt) y)) | _ => (true, o) end
    | HPtY => match aget o p with Some (PPt x _) => (true, aput o p (PPt x (pt_y dflt))) | _ => (true, o) end
    | _ => (true, aput o p dflt)
    end
  | AOther => (false, o)
  | ASrc src =>
    match denote h (aget o p) dflt src with
    | DRefuse => (false, o)
    | DDefault => (true, aput o p dflt)
    | DKeep => (true, o)
    | DVal v => (true, aput o p (coerce dflt v))
    end
  end.

Definition lattr_props (st w sy sz : N) (o : aobj) : aobj :=
  aput (aput (aput (aput o (bs "style") (PInt (Z.of_N st))) (bs "width") (PInt (Z.of_N w)))
             (bs "symbol") (PInt (Z.of_N sy))) (bs "size") (PInt (Z.of_N sz)).

(* accepted?, new object *)
Definition sset (k : kind) (o other : aobj) (name : option bytes) (s : asrc) : bool * aobj :=
  match name with
  | Some (c :: n) =>
    match resolve_name k (c :: n) with
    | Some (p, h) => apply_named k o p h s
    | None => (false, o)
    end
  | Some [] =>
    match s with
    | AReset => (true, defaults k)
    | AOther => (true, other)
    | ASrc src => if no_value src then (true, defaults k) else (false, o)
    end
  | None =>
    match s with
    | AReset => (false, o)
    | AOther => (true, other)
    | ASrc src =>
      if no_value src then (true, defaults k)
      else match k, src with
           | (KLine | KWorld), SValue (VLat st w sy sz) => (true, lattr_props st w sy sz o)
           | _, _ =>
             match auto_select k src with
             | Some (p, h) => apply_named k o p h (ASrc src)
             | None => (false, o)
             end
           end
    end
  end.

(* ---- observations ---- *)
Record sent := mksent { se_name : bytes; se_val : pval; se_diff : bool }.
Definition sdump (k : kind) (o : aobj) : list sent :=
  app (map (fun nv => mksent (fst nv) (snd nv) (negb (pval_eqb (snd nv) (ok_default k (fst nv))))) o)
      (match k, aget o (bs "pos") with
       | KText, Some (PPt x y) => [mksent (bs "x") (PF32 x) false; mksent (bs "y") (PF32 y) false]
       | _, _ => []
       end).

Inductive stok := TK | TR | TG (e : sent) | TKn (n : Z).
Definition sout := (stok * list sent * list sent)%type.

(* ---- matching a name against the listed names: index of the entry selected, None = refused ----
   an entry is hit when the whole name (mlen < 0) or the first mlen characters agree without regard to case;
   the first hit is selected, unless it is at least mlen long and a later entry is hit as well (ambiguous) *)
Definition name_hit (m : bytes) (mlen : Z) (n : bytes) : bool :=
  if mlen <? 0 then beq (lowers m) (lowers n)
  else beq (lowers (firstn (Z.to_nat mlen) m)) (lowers (firstn (Z.to_nat mlen) n)).
Fixpoint first_hit (f : bytes -> bool) (l : list bytes) (i : nat) : option (nat * bytes * list bytes) :=
  match l with
  | [] => None
  | n :: r => if f n then Some (i, n, r) else first_hit f r (S i)
  end.
Definition spec_match (m : bytes) (mlen : Z) (names : list bytes) : option nat :=
  match first_hit (name_hit m mlen) names 0 with
  | None => None
  | Some (i, n, rest) =>
    if mlen <? 0 then Some i
    else if (mlen <=? Z.of_nat (List.length n)) && existsb (name_hit m mlen) rest then None else Some i
  end.

(* get by name: the listed property selected by the matching rule (spec_match; the rule is stated and proved
   about property_match in Properties.v); x / y of a text *)
Definition sget (k : kind) (o : aobj) (name : bytes) : stok :=
  let names := map fst o in
  let mlen := match k with KAxis | KWorld => 3 | KGraph => 2 | _ => -1 end in
  match k, name with
  | KText, [c] =>
    match aget o (bs "pos") with
    | Some (PPt x y) => if N.eqb c 120 then TG (mksent (bs "x") (PF32 x) false)
                        else if N.eqb c 121 then TG (mksent (bs "y") (PF32 y) false) else TR
    | _ => TR
    end
  | _, _ =>
    match spec_match name mlen names with
    | Some i => let n := nth i names [] in
                match aget o n with
                | Some v => TG (mksent n v (negb (pval_eqb v (ok_default k n))))
                | None => TR
                end
    | None => TR
    end
  end.

Definition sprop (k : kind) (o other : aobj) (flags : Z) (name : option bytes) (s : osrc) : stok * aobj :=
  if match name with None => negb (has flags TraverseEmpty) | Some _ => false end then (TKn TraverseEmpty, o)
  else
    let gate := match s with XReset => TraverseDefault | _ => TraverseChange end in
    if negb (has flags gate) then (TKn gate, o)
    else
      let known := match name with Some (c :: n) => match resolve_name k (c :: n) with Some _ => true | None => false end | _ => true end in
      if negb known then ((if has flags TraverseUnknown then TKn TraverseUnknown else TR), o)
      else let '(acc, o') := sset k o other name (of_osrc s) in ((if acc then TKn 0 else TR), o').

Definition sstep (k : kind) (st : aobj * aobj) (p : op) : (aobj * aobj) * stok :=
  let '(a, b) := st in
  match p with
  | OpSet false n s => let '(acc, a') := sset k a b n (of_osrc s) in ((a', b), if acc then TK else TR)
  | OpSet true n s => let '(acc, b') := sset k b a n (of_osrc s) in ((a, b'), if acc then TK else TR)
  | OpGet tb n => ((a, b), sget k (if tb then b else a) n)
  | OpSp false fl n s => let '(t, a') := sprop k a b fl n s in ((a', b), t)
  | OpSp true fl n s => let '(t, b') := sprop k b a fl n s in ((a, b'), t)
  end.
Fixpoint srun (k : kind) (st : aobj * aobj) (ops : list op) : list sout :=
  match ops with
  | [] => []
  | p :: r => let '(st', t) := sstep k st p in (t, sdump k (fst st'), sdump k (snd st')) :: srun k st' r
  end.

Definition kind_no (n : N) : kind :=
  match n with 0%N => KAxis | 1%N => KLine | 2%N => KText | 3%N => KGraph | _ => KWorld end.

