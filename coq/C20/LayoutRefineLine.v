(* C20/LayoutRefineLine.v — mpt_line_set refines the specification's set on the abstraction. *)
Require Import List String Ascii NArith ZArith Bool Lia.
Import ListNotations.
From MptV Require Import C20.LayoutTypes C20.LayoutConv C20.Gen_Layout C20.LayoutModel C20.LayoutSpec
  C20.LayoutLemmas C20.LayoutAbs C20.LayoutFields C20.LayoutColour C20.LayoutFields2 C20.LayoutRefineAxis.
Local Open Scope Z_scope.

Definition line_how (f : line_field) : bytes * how :=
  match f with
  | LiX1 => (bs "x1", HPos) | LiX2 => (bs "x2", HPos) | LiY1 => (bs "y1", HPos) | LiY2 => (bs "y2", HPos)
  | LiColor => (bs "color", HCol)
  | LiWidth => (bs "width", HAttr 1 10) | LiStyle => (bs "style", HAttr 1 5)
  | LiSymbol => (bs "symbol", HAttr 0 8) | LiSize => (bs "size", HAttr 10 20)
  end.

Ltac pos_case abs_lemma :=
  unfold apply_named;
  match goal with
  | s : option source |- _ =>
    destruct s as [src|]; cbn [asrc_of];
    [ let e := fresh "e" in let E := fresh "E" in
      match goal with |- context [line_pos (Some src) ?o ?wr] => destruct (line_pos_spec src o wr) as [e E]; rewrite E end; unfold denote;
      destruct (den_pos_cases src) as [D|[D|[D|[v D]]]]; rewrite D; cbn [fst snd sok]; rewrite ?abs_lemma; reflexivity
    | cbn [line_pos fst snd sok]; rewrite !abs_lemma; reflexivity ]
  end.

Ltac attr_case abs_lemma cur :=
  unfold apply_named, attr_field; unfold LineWidthMax, LineStyleMax, SymbolTypeMax, SymbolSizeMax;
  match goal with
  | s : option source |- _ =>
    destruct s as [src|]; cbn [asrc_of];
    [ let e := fresh "e" in let E := fresh "E" in
      match goal with
      | |- context [lat_field (Some src) ?o ?c ?d 0 ?hi ?wr] =>
        destruct (lat_field_spec src o c d hi wr ltac:(lia)) as [e E];
        rewrite E
      end;
      unfold denote;
      match goal with |- context [den_attr (aget ?a ?p) ?hi src] => change (aget a p) with (Some (PInt cur)) end;
      match goal with |- context [den_attr (Some (PInt ?c)) ?hi src] =>
        destruct (den_attr_cases c hi src) as [D|[D|[D|[v D]]]]; rewrite D
      end; cbn [fst snd sok]; rewrite ?abs_lemma; reflexivity
    | cbn [lat_field fst snd sok]; rewrite !abs_lemma; reflexivity ]
  end.

Ltac col_case abs_lemma :=
  unfold apply_named;
  match goal with
  | s : option source |- _ =>
    destruct s as [src|]; cbn [asrc_of];
    [ let e := fresh "e" in let E := fresh "E" in
      match goal with
      | |- context [col_field (Some src) ?o ?c ?d ?wr] => destruct (col_field_spec src o c d wr) as [e E]; rewrite E
      end;
      unfold denote;
      destruct (den_col_cases src) as [D|[D|(a & r & g & b & D)]]; rewrite D; cbn [fst snd sok]; rewrite ?abs_lemma; reflexivity
    | cbn [col_field fst snd sok]; rewrite !abs_lemma; reflexivity ]
  end.

Lemma line_named f (s : option source) o :
  apply_named KLine (abs (OLine o)) (fst (line_how f)) (snd (line_how f)) (asrc_of s) =
  (sok (fst (line_set_field f s o)), abs (OLine (snd (line_set_field f s o)))).
Proof.
  destruct f; cbn [line_how fst snd line_set_field].
  - pos_case abs_line.
  - pos_case abs_line.
  - pos_case abs_line.
  - pos_case abs_line.
  - col_case abs_line.
  - attr_case abs_line (la_width (li_attr o)).
  - attr_case abs_line (la_style (li_attr o)).
  - attr_case abs_line (la_symbol (li_attr o)).
  - attr_case abs_line (la_size (li_attr o)).
Qed.

Lemma line_resolve n : resolve_name KLine n = option_map line_how (line_field_of n).
Proof.
  unfold resolve_name, line_field_of. norm_names.
  set (L := lowers n).
  repeat match goal with
  | |- (if ?b then _ else _) = _ =>
    match b with
    | context [beq ?X ?c] => destruct (beq X c) eqn:?; cbn [orb option_map]; [reflexivity|]
    end
  end.
  reflexivity.
Qed.

Theorem line_set_refines o (other : line) name (s : osrc) :
  sset KLine (abs (OLine o)) (abs (OLine other)) name (of_osrc s) =
  pairb (line_set o name (resolve s (OLine other))) (fun x => abs (OLine x)).
Proof.
  unfold pairb. destruct name as [[|c n]|].
  - cbn [sset line_set]. destruct s as [|t orc|v|]; cbn [of_osrc resolve fst snd sok]; try reflexivity;
      try (destruct (no_value _); reflexivity).
  - cbn [sset line_set]. rewrite line_resolve.
    destruct (line_field_of (c :: n)) as [f|]; cbn [option_map]; [|reflexivity].
    destruct (line_how f) as [p h] eqn:H.
    replace p with (fst (line_how f)) by (rewrite H; reflexivity).
    replace h with (snd (line_how f)) by (rewrite H; reflexivity).
    destruct s as [|t orc|v|]; cbn [of_osrc resolve].
    + apply (line_named f None o).
    + apply (line_named f (Some (SText t orc)) o).
    + apply (line_named f (Some (SValue v)) o).
    + replace (apply_named KLine (abs (OLine o)) (fst (line_how f)) (snd (line_how f)) AOther)
        with (apply_named KLine (abs (OLine o)) (fst (line_how f)) (snd (line_how f)) (ASrc (SObj (OLine other))))
        by (rewrite apply_named_obj; reflexivity).
      apply (line_named f (Some (SObj (OLine other))) o).
  - cbn [sset line_set]. destruct s as [|t orc|v|]; cbn [of_osrc resolve fst snd sok]; try reflexivity.
    + destruct t as [[|c t]|]; reflexivity.
    + destruct v; reflexivity.
Qed.
