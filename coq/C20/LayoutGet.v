(* C20/LayoutGet.v — lookup by name through the REAL (regenerated) tables: mpt_*_get with a name selects, via
   mpt_property_match, exactly the listed property the specification's matching rule selects, hands out its value,
   and its return value says "differs from the default" exactly when the value is not the documented default. *)
Require Import List String Ascii NArith ZArith Bool Lia.
Import ListNotations.
From MptV Require Import C20.LayoutTypes C20.LayoutConv C20.Gen_Layout C20.LayoutModel C20.LayoutSpec
  C20.LayoutLemmas C20.LayoutAbs C20.LayoutFields C20.LayoutRefineAxis C20.LayoutRefineGraph C20.LayoutRefine C20.LayoutMatch.
Local Open Scope Z_scope.

(* ---- equality test of property values is equality ---- *)
Lemma opt_beq_eq a b : opt_beq a b = true -> a = b.
Proof. destruct a, b; cbn; try discriminate; auto. intros H. apply beq_eq in H. congruence. Qed.
Lemma pval_eqb_eq a b : pval_eqb a b = true -> a = b.
Proof.
  destruct a, b; cbn; try discriminate; intros H;
    repeat match goal with H : _ && _ = true |- _ => apply andb_true_iff in H as [H ?] end;
    repeat match goal with H : N.eqb _ _ = true |- _ => apply N.eqb_eq in H end;
    repeat match goal with H : Z.eqb _ _ = true |- _ => apply Z.eqb_eq in H end;
    try (apply opt_beq_eq in H); subst; reflexivity.
Qed.

(* the "differs from default" return value of one enumerated property *)
Definition flag_ok (k : kind) (e : pent) : Prop :=
  (0 <? pe_ret e) = negb (pval_eqb (pe_val e) (ok_default k (pe_name e))).

Lemma row_flag k members mv dv r :
  known_type (tr_type r) = true -> pval_eqb (read_row members dv r) (ok_default k (tr_name r)) = true ->
  flag_ok k (row_entry members mv dv r).
Proof.
  intros K D. apply pval_eqb_eq in D. unfold flag_ok, row_entry, cmp_ret. cbn [pe_ret pe_val pe_name].
  rewrite K, D. destruct (pval_eqb (read_row members mv r) (ok_default k (tr_name r))); reflexivity.
Qed.

(* finite sweeps over the regenerated tables: every row has a registered value type and the default object's
   field is the documented default *)
Definition row_default_ok (k : kind) members (dv : bytes -> pval) (r : trow) : bool :=
  known_type (tr_type r) && pval_eqb (read_row members dv r) (ok_default k (tr_name r)).
Lemma sweep_line : forallb (row_default_ok KLine line_members (line_member def_line)) line_table = true.
Proof. vm_compute. reflexivity. Qed.
Lemma sweep_text : forallb (row_default_ok KText text_members (text_member def_text)) text_table = true.
Proof. vm_compute. reflexivity. Qed.
Lemma sweep_world : forallb (row_default_ok KWorld world_members (world_member def_world)) world_table = true.
Proof. vm_compute. reflexivity. Qed.
Lemma sweep_axis : forallb (row_default_ok KAxis axis_members (axis_member def_axis)) axis_table = true.
Proof. vm_compute. reflexivity. Qed.
Lemma sweep_graph : forallb (fun r => eqs (tr_name r) "clip" || row_default_ok KGraph graph_members (graph_member def_graph) r)
                            graph_table = true.
Proof. vm_compute. reflexivity. Qed.
(* the clip row reads the mask byte; its documented default is shown in the text form *)
Lemma clip_row r : In r graph_table -> eqs (tr_name r) "clip" = true ->
  r = mkt (bs "clip") (bs "clip data display") TU8 (Some 43%N) 1%N.
Proof.
  cbn. intros H E. repeat (destruct H as [H|H]; [subst r; cbn in E; try discriminate E; try reflexivity|]). contradiction.
Qed.

Lemma rows_flags k members mv dv table :
  forallb (row_default_ok k members dv) table = true ->
  Forall (flag_ok k) (map (row_entry members mv dv) table).
Proof.
  intros S. rewrite forallb_forall in S. apply Forall_forall. intros e H. apply in_map_iff in H as (r & <- & I).
  specialize (S r I). unfold row_default_ok in S. apply andb_true_iff in S as [A B]. apply row_flag; assumption.
Qed.

Lemma Forall_mapi {A B} (P : B -> Prop) (f : nat -> A -> B) l : forall i,
  (forall j a, nth_error l j = Some a -> P (f (i + j)%nat a)) -> Forall P (mapi f i l).
Proof.
  induction l as [|x r IH]; intros i H; cbn [mapi]; constructor.
  - specialize (H 0%nat x eq_refl). rewrite Nat.add_0_r in H. exact H.
  - apply IH. intros j a E. specialize (H (S j) a E). rewrite Nat.add_succ_r in H. exact H.
Qed.

Lemma axis_flags x : Forall (flag_ok KAxis) (obj_listed (OAxis x)).
Proof.
  cbn [obj_listed]. apply Forall_mapi. intros j r E. cbn [Nat.add].
  pose proof sweep_axis as S. rewrite forallb_forall in S. specialize (S r (nth_error_In _ _ E)).
  unfold row_default_ok in S. apply andb_true_iff in S as [A B].
  pose proof (row_flag KAxis axis_members (axis_member x) (axis_member def_axis) r A B) as F.
  unfold axis_entry. destruct ((j =? 5)%nat && axis_lg x) eqn:L; [|exact F].
  apply andb_true_iff in L as [L _]. apply Nat.eqb_eq in L. subst j.
  cbn in E. inversion E; subst. reflexivity.
Qed.

Lemma graph_flags x : graph_inv x -> Forall (flag_ok KGraph) (obj_listed (OGraph x)).
Proof.
  intros IV. cbn [obj_listed]. apply Forall_forall. intros e H. apply in_map_iff in H as (r & <- & I).
  pose proof sweep_graph as S. rewrite forallb_forall in S. specialize (S r I).
  destruct (eqs (tr_name r) "clip") eqn:C.
  - (* the clip row *)
    pose proof (clip_row r I C) as R. subst r. unfold graph_entry. cbn [tr_name]. change (eqs (bs "clip") "clip") with true. cbn [andb].
    unfold flag_ok. cbn [pe_ret pe_val pe_name].
    change (ok_default KGraph (bs "clip")) with (PStr (Some (bs ""))).
    unfold graph_inv in IV.
    destruct (gr_clip x <? 8) eqn:L.
    + apply Z.ltb_lt in L.
      assert (gr_clip x = 0 \/ gr_clip x = 1 \/ gr_clip x = 2 \/ gr_clip x = 3 \/ gr_clip x = 4 \/ gr_clip x = 5
              \/ gr_clip x = 6 \/ gr_clip x = 7) as D by lia.
      destruct D as [D|[D|[D|[D|[D|[D|[D|D]]]]]]]; rewrite D; reflexivity.
    + apply Z.ltb_ge in L.
      change (pe_val (row_entry graph_members (graph_member x) (graph_member def_graph)
                        (mkt (bs "clip") (bs "clip data display") TU8 (Some 43%N) 1%N))) with (PInt (gr_clip x)).
      change (pe_ret (row_entry graph_members (graph_member x) (graph_member def_graph)
                        (mkt (bs "clip") (bs "clip data display") TU8 (Some 43%N) 1%N)))
        with (if pval_eqb (PInt (gr_clip x)) (PInt 0) then 0 else 1).
      cbn [pval_eqb]. replace (gr_clip x =? 0) with false by (symmetry; apply Z.eqb_neq; lia). reflexivity.
  - cbn [orb] in S. unfold row_default_ok in S. apply andb_true_iff in S as [A B].
    pose proof (row_flag KGraph graph_members (graph_member x) (graph_member def_graph) r A B) as F.
    unfold graph_entry. rewrite C. exact F.
Qed.

Lemma listed_flags o : inv o -> Forall (flag_ok (kind_of o)) (obj_listed o).
Proof.
  intros I. destruct o as [x|x|x|x|x]; cbn [kind_of].
  - apply axis_flags.
  - apply rows_flags. exact sweep_line.
  - apply rows_flags. exact sweep_text.
  - apply graph_flags. exact I.
  - apply rows_flags. exact sweep_world.
Qed.

(* ---- names ---- *)
Lemma aget_nth (l : aobj) : NoDup (map fst l) -> forall i, (i < List.length l)%nat ->
  aget l (fst (nth i l ([], PNone))) = Some (snd (nth i l ([], PNone))).
Proof.
  induction l as [|[n v] l IH]; intros ND i H; [cbn in H; lia|].
  inversion ND as [|? ? NI ND']; subst. destruct i as [|i]; cbn [nth fst snd aget].
  - rewrite beq_refl. reflexivity.
  - cbn [List.length] in H. destruct (beq n (fst (nth i l ([], PNone)))) eqn:E.
    + apply beq_eq in E. exfalso. apply NI. rewrite E. apply in_map. apply nth_In. lia.
    + apply IH; [exact ND'|lia].
Qed.

Ltac nodup_names :=
  repeat (constructor; [cbn; intros H; repeat (destruct H as [H|H]; [discriminate H|]); exact H|]); constructor.

Lemma names_nodup o : NoDup (map fst (abs o)).
Proof.
  destruct o as [x|x|x|x|x];
    [rewrite abs_axis|rewrite abs_line|rewrite abs_text|rewrite abs_graph|rewrite abs_world]; cbn [map fst]; nodup_names.
Qed.

Definition table_of (o : anyobj) : list trow :=
  match o with
  | OAxis _ => axis_table | OLine _ => line_table | OText _ => text_table | OGraph _ => graph_table | OWorld _ => world_table
  end.
Definition mlen_of (k : kind) : Z := match k with KAxis | KWorld => 3 | KGraph => 2 | _ => -1 end.

Lemma names_table o : map fst (abs o) = map tr_name (table_of o).
Proof. destruct o; reflexivity. Qed.
Lemma listed_length o : List.length (obj_listed o) = List.length (table_of o).
Proof. destruct o; reflexivity. Qed.

(* the entry at index i against the specification's lookup of the i-th listed name *)
Lemma entry_at o i e : inv o -> nth_error (obj_listed o) i = Some e ->
  aget (abs o) (nth i (map fst (abs o)) []) = Some (pe_val e) /\ nth i (map fst (abs o)) [] = pe_name e /\
  flag_ok (kind_of o) e.
Proof.
  intros I E.
  assert (i < List.length (obj_listed o))%nat as L by (apply nth_error_Some; congruence).
  assert (nth i (abs o) ([], PNone) = (pe_name e, pe_val e)) as N.
  { apply nth_error_nth. unfold abs. apply (map_nth_error (fun e0 => (pe_name e0, pe_val e0))). exact E. }
  assert (nth i (map fst (abs o)) [] = pe_name e) as NN.
  { change [] with (fst (([], PNone) : bytes * pval)). rewrite map_nth, N. reflexivity. }
  repeat split.
  - rewrite NN. pose proof (aget_nth (abs o) (names_nodup o) i) as A.
    rewrite N in A. cbn [fst snd] in A. apply A. unfold abs. rewrite map_length. exact L.
  - exact NN.
  - pose proof (listed_flags o I) as F. rewrite Forall_forall in F. apply F. eapply nth_error_In; eauto.
Qed.

Definition not_xy (o : anyobj) (name : bytes) : Prop := match o, name with OText _, [_] => False | _, _ => True end.

Definition generic_get (o : anyobj) (name : bytes) (ae : bool) : Z + pent :=
  let r := property_match name (mlen_of (kind_of o)) (map tr_name (table_of o)) 0 in
  match (if r <? 0 then inl (if ae then - BadArgument else r) else inr (Z.to_nat r)) : Z + nat with
  | inl e => inl e
  | inr i => match nth_error (obj_listed o) i with Some e => inr e | None => inl (- BadArgument) end
  end.
Definition generic_sget (k : kind) (o : aobj) (name : bytes) : stok :=
  match spec_match name (mlen_of k) (map fst o) with
  | Some i => let n := nth i (map fst o) [] in
              match aget o n with
              | Some v => TG (mksent n v (negb (pval_eqb v (ok_default k n))))
              | None => TR
              end
  | None => TR
  end.

Lemma generic_refines o name ae : inv o ->
  match generic_get o name ae with
  | inl _ => generic_sget (kind_of o) (abs o) name = TR
  | inr e => generic_sget (kind_of o) (abs o) name = TG (mksent (pe_name e) (pe_val e) (0 <? pe_ret e))
  end.
Proof.
  intros I. unfold generic_get, generic_sget. cbv zeta. rewrite names_table.
  pose proof (match_spec name (mlen_of (kind_of o)) (map tr_name (table_of o))) as M.
  destruct (spec_match name (mlen_of (kind_of o)) (map tr_name (table_of o))) as [i|] eqn:SM.
  - rewrite M. replace (Z.of_nat i <? 0) with false by (symmetry; apply Z.ltb_ge; lia). rewrite Nat2Z.id.
    destruct (nth_error (obj_listed o) i) as [e|] eqn:E.
    + destruct (entry_at o i e I E) as (A & N & F). rewrite names_table in A, N. rewrite A, N.
      unfold flag_ok in F. rewrite F. reflexivity.
    + exfalso. apply nth_error_None in E. apply spec_match_bound in SM.
      rewrite map_length in SM. rewrite listed_length in E. lia.
  - replace (property_match name (mlen_of (kind_of o)) (map tr_name (table_of o)) 0 <? 0) with true
      by (symmetry; apply Z.ltb_lt; exact M). reflexivity.
Qed.

(* get by name, all kinds, all names (for a text: names of more than one character) *)
Theorem get_refines o name : inv o -> not_xy o name ->
  match obj_get o name with
  | inl _ => sget (kind_of o) (abs o) name = TR
  | inr e => sget (kind_of o) (abs o) name = TG (mksent (pe_name e) (pe_val e) (0 <? pe_ret e))
  end.
Proof.
  intros I NX. destruct o as [x|x|x|x|x].
  - exact (generic_refines (OAxis x) name true I).
  - exact (generic_refines (OLine x) name false I).
  - destruct name as [|c [|c2 n]];
      [exact (generic_refines (OText x) [] false I) | contradiction | exact (generic_refines (OText x) (c :: c2 :: n) false I)].
  - exact (generic_refines (OGraph x) name false I).
  - exact (generic_refines (OWorld x) name false I).
Qed.

(* x / y of a text by name: the coordinate of the position (the return value is not a property value) *)
Lemma beq_x c : beq (bs "x") [c] = N.eqb c 120.
Proof. change (beq (bs "x") [c]) with (N.eqb 120 c && true). rewrite andb_true_r. apply N.eqb_sym. Qed.
Lemma beq_y c : beq (bs "y") [c] = N.eqb c 121.
Proof. change (beq (bs "y") [c]) with (N.eqb 121 c && true). rewrite andb_true_r. apply N.eqb_sym. Qed.

Theorem get_text_xy x c :
  match obj_get (OText x) [c] with
  | inl _ => sget KText (abs (OText x)) [c] = TR
  | inr e => exists d, sget KText (abs (OText x)) [c] = TG (mksent (pe_name e) (pe_val e) d)
  end.
Proof.
  unfold obj_get, sget. change (aget (abs (OText x)) (bs "pos")) with (Some (PPt (tx_px x) (tx_py x))).
  cbn [find text_table_named tr_name]. rewrite beq_x, beq_y.
  destruct (N.eqb c 120) eqn:X; [eexists; reflexivity|].
  destruct (N.eqb c 121) eqn:Y; [eexists; reflexivity|]. reflexivity.
Qed.
