(* C20/LayoutCopy.v — object::set(const object &): copying an object property by property (by value) is the
   specification's copy (LayoutCxxSpec.spec_copy) on the listed properties; strings held by the objects are C strings
   (kept by every operation); the text metatype of a parsed node as a source. *)
Require Import List String Ascii NArith ZArith Bool Lia.
Import ListNotations.
From MptV Require Import C20.LayoutTypes C20.LayoutConv C20.Gen_Layout C20.LayoutModel C20.LayoutSpec
  C20.LayoutLemmas C20.LayoutAbs C20.LayoutFields C20.LayoutRefineAxis C20.LayoutRefineGraph C20.LayoutRefine
  C20.LayoutSetProp C20.LayoutCxx C20.LayoutCxxModel C20.LayoutCxxSpec.
Local Open Scope Z_scope.

(* ---- the integer type code of a typed value does not matter to the specification (except uint16 'q') ---- *)
Lemma value_number_sty ty s1 s2 z a b : s1 <> 113%N -> s2 <> 113%N ->
  value_number ty (VI s1 z a b) = value_number ty (VI s2 z a b).
Proof.
  intros H1 H2. unfold value_number.
  apply N.eqb_neq in H1, H2. rewrite H1, H2. reflexivity.
Qed.
Lemma src_number_sty ty s1 s2 z a b : s1 <> 113%N -> s2 <> 113%N ->
  src_number ty (SValue (VI s1 z a b)) = src_number ty (SValue (VI s2 z a b)).
Proof. intros; cbn [src_number]; apply value_number_sty; assumption. Qed.
Lemma denote_sty h cur d s1 s2 z a b : s1 <> 113%N -> s2 <> 113%N ->
  denote h cur d (SValue (VI s1 z a b)) = denote h cur d (SValue (VI s2 z a b)).
Proof.
  intros H1 H2.
  assert (forall ty, src_number ty (SValue (VI s1 z a b)) = src_number ty (SValue (VI s2 z a b))) as E
    by (intros; apply src_number_sty; assumption).
  destruct h; cbn [denote]; unfold den_num, den_pos, den_chrkey, den_attr, den_intv, den_align, den_clip, den_grid, den_num;
    rewrite ?E; try reflexivity.
Qed.
Lemma sset_sty k o other n s1 s2 z a b : s1 <> 113%N -> s2 <> 113%N ->
  sset k o other (Some n) (ASrc (SValue (VI s1 z a b))) = sset k o other (Some n) (ASrc (SValue (VI s2 z a b))).
Proof.
  intros H1 H2. destruct n as [|c n]; [reflexivity|]. cbn [sset].
  destruct (resolve_name k (c :: n)) as [[p h]|]; [|reflexivity].
  unfold apply_named. rewrite (denote_sty h _ _ s1 s2 z a b H1 H2). reflexivity.
Qed.
(* a value source never consults the other object *)
Lemma sset_src_other k o o1 o2 c n s : sset k o o1 (Some (c :: n)) (ASrc s) = sset k o o2 (Some (c :: n)) (ASrc s).
Proof. reflexivity. Qed.

(* ================= strings held by the objects are C strings ================= *)
Definition ent_ok (nv : bytes * pval) : Prop := match snd nv with PStr (Some t) => no_nul t = true | _ => True end.
Definition aobj_ok (o : aobj) : Prop := Forall ent_ok o.
Definition strs_ok (o : anyobj) : Prop := aobj_ok (abs o).
Definition wf_asrc (s : asrc) : Prop := match s with ASrc x => wf_source x | _ => True end.

Lemma aput_ok o p v : aobj_ok o -> ent_ok (p, v) -> aobj_ok (aput o p v).
Proof.
  intros H V. induction o as [|[n w] o IH]; cbn [aput]; [constructor|].
  inversion H; subst. destruct (beq n p) eqn:E.
  - constructor; [|assumption]. unfold ent_ok in *. exact V.
  - constructor; [assumption|apply IH; assumption].
Qed.
Lemma aget_ok o p v : aobj_ok o -> aget o p = Some v -> ent_ok (p, v).
Proof.
  intros H. induction o as [|[n w] o IH]; cbn [aget]; [discriminate|].
  inversion H; subst. destruct (beq n p); [intros E; inversion E; subst; exact H2|apply IH; assumption].
Qed.
Lemma defaults_ok k : aobj_ok (defaults k).
Proof. destruct k; repeat constructor. Qed.
Lemma ok_default_ok k p : ent_ok (p, ok_default k p).
Proof.
  unfold ok_default. destruct (aget (defaults k) p) as [v|] eqn:E; [|exact Logic.I].
  exact (aget_ok _ _ _ (defaults_ok k) E).
Qed.
Lemma no_nul_const_log : no_nul (bs "log") = true. Proof. reflexivity. Qed.
Lemma clip_val_ok p n : ent_ok (p, spec_clip_val n).
Proof.
  unfold spec_clip_val, ent_ok. cbn [snd]. destruct (n <? 8) eqn:E; [|exact Logic.I].
  destruct (Z.to_nat n) as [|[|[|[|[|[|[|[|m]]]]]]]]; try reflexivity.
  cbn. destruct m; reflexivity.
Qed.
Lemma coerce_ok p d v : ent_ok (p, v) -> ent_ok (p, coerce d v).
Proof. unfold coerce, ent_ok. cbn [snd]. destruct d, v; auto. Qed.

(* what a well formed source denotes holds only C strings *)
Lemma nonempty_ok t : wf_text t -> match nonempty t with Some b => no_nul b = true | None => True end.
Proof. destruct t as [[|c t]|]; cbn; auto. Qed.
Lemma chr_string_ok z : no_nul (if z mod 256 =? 0 then [] else [Z.to_N (z mod 256)]) = true.
Proof.
  destruct (z mod 256 =? 0) eqn:Z0; [reflexivity|].
  cbn [no_nul forallb]. rewrite andb_true_r. apply negb_true_iff. apply N.eqb_neq.
  apply Z.eqb_neq in Z0. intros C. apply Z0. pose proof (Z.mod_pos_bound z 256 ltac:(lia)). lia.
Qed.
Lemma den_str_ok s v : wf_source s -> den_str s = DVal v -> match v with PStr (Some t) => no_nul t = true | _ => True end.
Proof.
  intros W. unfold den_str. destruct s as [t o|v0|x]; [|destruct v0|]; try discriminate; intros E; inversion E; subst.
  - exact (nonempty_ok t W).
  - apply chr_string_ok.
  - exact (nonempty_ok s W).
Qed.
Ltac crackH E :=
  repeat match type of E with
         | context [match ?x with _ => _ end] => destruct x eqn:?
         end.
Ltac fin E := try discriminate E; inversion E; subst; try exact Logic.I; try reflexivity.
Lemma den_num_ok ty s v : den_num ty s = DVal v -> match v with PStr (Some t) => no_nul t = true | _ => True end.
Proof. unfold den_num. intros E. crackH E; fin E. Qed.
Lemma denote_ok h cur d s p v : wf_source s -> denote h cur d s = DVal v -> ent_ok (p, v).
Proof.
  intros W. unfold ent_ok. cbn [snd]. destruct h; cbn [denote].
  - apply den_str_ok; assumption.
  - unfold den_num. intros E. crackH E; fin E.
  - unfold den_pos. intros E. crackH E; fin E.
  - unfold den_chrkey, den_num. intros E. crackH E; fin E.
  - unfold den_col. intros E. crackH E; fin E.
  - unfold den_attr. intros E. crackH E; fin E.
  - unfold den_pt. intros E. crackH E; fin E.
  - unfold den_num. intros E. crackH E; fin E.
  - unfold den_num. intros E. crackH E; fin E.
  - unfold den_intv. intros E. crackH E; fin E.
  - unfold den_align. intros E. crackH E; fin E.
  - unfold den_clip. intros E. crackH E; fin E; apply (clip_val_ok p).
  - unfold den_grid. destruct (den_num NChr s) eqn:D1; try discriminate.
    + apply den_num_ok.
    + intros E; inversion E; subst. exact (den_num_ok _ _ _ D1).
Qed.

Lemma apply_named_ok k o p h s : aobj_ok o -> wf_asrc s -> aobj_ok (snd (apply_named k o p h s)).
Proof.
  intros O W. unfold apply_named. destruct s as [|src|].
  - destruct h; cbn [snd]; try (apply aput_ok; [assumption|apply ok_default_ok]);
      destruct (aget o p) as [[]|]; cbn [snd]; try assumption; apply aput_ok; try assumption; exact Logic.I.
  - destruct (denote h (aget o p) (ok_default k p) src) eqn:D; cbn [snd]; try assumption.
    + apply aput_ok; [assumption|apply ok_default_ok].
    + apply aput_ok; [assumption|]. apply coerce_ok. exact (denote_ok _ _ _ _ p _ W D).
  - assumption.
Qed.
Lemma lattr_props_ok st w sy sz o : aobj_ok o -> aobj_ok (lattr_props st w sy sz o).
Proof. intros O. unfold lattr_props. repeat (apply aput_ok; [|exact Logic.I]). assumption. Qed.
Lemma sset_ok k o other name s : aobj_ok o -> aobj_ok other -> wf_asrc s -> aobj_ok (snd (sset k o other name s)).
Proof.
  intros O OT W. unfold sset. destruct name as [[|c n]|].
  - destruct s as [|src|]; cbn [snd]; try assumption; [apply defaults_ok|].
    destruct (no_value src); cbn [snd]; [apply defaults_ok|assumption].
  - destruct (resolve_name k (c :: n)) as [[p h]|]; [apply apply_named_ok; assumption|assumption].
  - destruct s as [|src|]; cbn [snd]; try assumption.
    destruct (no_value src); cbn [snd]; [apply defaults_ok|].
    assert (aobj_ok (snd (match auto_select k src with Some (p, h) => apply_named k o p h (ASrc src) | None => (false, o) end))) as A.
    { destruct (auto_select k src) as [[p h]|]; [apply apply_named_ok; assumption|assumption]. }
    destruct k, src as [t0 o0|[]|x]; try exact A; cbn [snd]; apply lattr_props_ok; assumption.
Qed.

Lemma wf_of_osrc s : wf_osrc s -> wf_asrc (of_osrc s).
Proof. destruct s as [|t o|v|]; cbn; auto; destruct v; cbn; auto. Qed.

(* every set / reset / assignment keeps the strings C strings *)
Lemma set_keeps_strs o other name s : same_kind o other -> wf_osrc s -> inv o -> strs_ok o -> strs_ok other ->
  strs_ok (snd (obj_set o name (resolve s other))).
Proof.
  intros K W I SO ST. unfold strs_ok.
  pose proof (set_refines o other name s K W I) as R.
  replace (abs (snd (obj_set o name (resolve s other)))) with (snd (sset (kind_of o) (abs o) (abs other) name (of_osrc s)))
    by (rewrite R; reflexivity).
  apply sset_ok; try assumption. apply wf_of_osrc; assumption.
Qed.

(* ================= the values read from an object as sources ================= *)
Definition typed_ok (e : pent) : Prop :=
  match pe_type e, pe_val e with
  | TStr, PStr _ | TF64, PF64 _ | TF32, PF32 _ | TI16, PInt _ | TU8, PInt _ | TU32, PInt _ | TChr, PChr _
  | TColor, PCol _ _ _ _ | TFpoint, PPt _ _ => True
  | _, _ => False
  end.
Definition named_ok (e : pent) : Prop := match pe_name e with [] => False | _ => True end.
Lemma listed_typed o : Forall (fun e => typed_ok e /\ named_ok e) (obj_listed o).
Proof.
  destruct o as [x|x|x|x|x]; cbn [obj_listed].
  - unfold axis_table. cbn [mapi]. unfold axis_entry. cbn [Nat.eqb andb].
    repeat constructor; try exact Logic.I. destruct (axis_lg x); exact Logic.I.
  - repeat constructor; exact Logic.I.
  - repeat constructor; exact Logic.I.
  - unfold graph_table. cbn [map]. unfold graph_entry. cbn [eqs tr_name andb].
    repeat constructor; try exact Logic.I.
    change (eqs (bs "clip") "clip") with true. cbn [andb]. destruct (gr_clip x <? 8); exact Logic.I.
  - repeat constructor; exact Logic.I.
Qed.

Definition osrc_of (s : source) : osrc :=
  match s with SText t o => XText t o | SValue v => XValue v | SObj _ => XOther end.

(* one property taken from an entry read from another object: the specification's step with the value the entry shows *)
Lemma copy_step tg e s : inv tg -> strs_ok tg -> typed_ok e -> named_ok e -> ent_ok (pe_name e, pe_val e) ->
  src_of_pent e = Some s ->
  let R := cxx_set_property tg (Some (pe_name e)) (Some s) in
  exists s', src_of_pval (pe_val e) = Some s' /\
    sset (kind_of tg) (abs tg) (abs tg) (Some (pe_name e)) (ASrc s') = (sok (fst R), abs (snd R)) /\
    inv (snd R) /\ strs_ok (snd R) /\ kind_of (snd R) = kind_of tg.
Proof.
  intros I S T N O E R. subst R. rewrite cxx_set_is_c.
  assert (forall os, resolve os tg = Some s -> wf_osrc os ->
            sset (kind_of tg) (abs tg) (abs tg) (Some (pe_name e)) (of_osrc os) =
              (sok (fst (obj_set tg (Some (pe_name e)) (Some s))), abs (snd (obj_set tg (Some (pe_name e)) (Some s)))) /\
            inv (snd (obj_set tg (Some (pe_name e)) (Some s))) /\ strs_ok (snd (obj_set tg (Some (pe_name e)) (Some s))) /\
            kind_of (snd (obj_set tg (Some (pe_name e)) (Some s))) = kind_of tg) as G.
  { intros os RS W. rewrite <- RS. repeat split.
    - apply set_refines; [reflexivity|assumption|assumption].
    - apply set_keeps_inv; [reflexivity|assumption|assumption].
    - apply set_keeps_strs; try assumption; reflexivity.
    - apply set_keeps_kind. }
  unfold typed_ok in T. unfold src_of_pent in E. unfold ent_ok in O. cbn [snd] in O.
  destruct (pe_type e), (pe_val e) as [st|b|b|z|z|a r g b|x y|]; try contradiction; inversion E; subst; cbn [src_of_pval].
  - (* string *)
    eexists; split; [reflexivity|].
    apply (G (XText (Some (match st with Some t => t | None => [] end)) no_torc) eq_refl).
    cbn. destruct st; [assumption|reflexivity].
  - eexists; split; [reflexivity|]. exact (G (XValue (VD b None)) eq_refl Logic.I).
  - eexists; split; [reflexivity|]. exact (G (XValue (VF b 0)) eq_refl Logic.I).
  - eexists; split; [reflexivity|].
    destruct (G (XValue (VI 110 z 0 0)) eq_refl Logic.I) as (A & B). split; [|exact B].
    rewrite <- A. cbn [of_osrc]. apply sset_sty; discriminate.
  - eexists; split; [reflexivity|].
    destruct (G (XValue (VI 121 z 0 0)) eq_refl Logic.I) as (A & B). split; [|exact B].
    rewrite <- A. cbn [of_osrc]. apply sset_sty; discriminate.
  - eexists; split; [reflexivity|].
    destruct (G (XValue (VI 117 z 0 0)) eq_refl Logic.I) as (A & B). split; [|exact B].
    rewrite <- A. cbn [of_osrc]. apply sset_sty; discriminate.
  - eexists; split; [reflexivity|]. exact (G (XValue (VC z)) eq_refl Logic.I).
  - eexists; split; [reflexivity|]. exact (G (XValue (VCol a r g b)) eq_refl Logic.I).
  - eexists; split; [reflexivity|]. exact (G (XValue (VPt x y)) eq_refl Logic.I).
Qed.

Definition pent_ok (e : pent) : Prop := typed_ok e /\ named_ok e /\ ent_ok (pe_name e, pe_val e).

Lemma copy_props_refines log es : Forall pent_ok es -> forall tg n, inv tg -> strs_ok tg ->
  abs (snd (copy_props log es tg n)) = spec_copy (kind_of tg) log (map (fun e => (pe_name e, pe_val e)) es) (abs tg) /\
  inv (snd (copy_props log es tg n)) /\ strs_ok (snd (copy_props log es tg n)) /\
  kind_of (snd (copy_props log es tg n)) = kind_of tg.
Proof.
  induction 1 as [|e es (T & N & O) F IH]; intros tg n I S; cbn [copy_props map spec_copy snd fst].
  - auto.
  - destruct (src_of_pent e) as [s|] eqn:E.
    2:{ exfalso. unfold typed_ok in T. unfold src_of_pent in E. destruct (pe_type e), (pe_val e); try contradiction; discriminate. }
    destruct (copy_step tg e s I S T N O E) as (s' & E' & ST & I' & S' & K').
    rewrite E', ST.
    destruct (cxx_set_property tg (Some (pe_name e)) (Some s)) as [r tg'] eqn:C. cbn [fst snd sok] in *.
    destruct r as [|err]; cbn [sok orb].
    + destruct (IH tg' (n + 1) I' S') as (A & B & C' & D). rewrite K' in A, D. auto.
    + destruct log.
      * destruct (IH tg' (n + 1) I' S') as (A & B & C' & D). rewrite K' in A, D. auto.
      * cbn [snd]. auto.
Qed.

Lemma listed_pent_ok o : strs_ok o -> Forall pent_ok (obj_listed o).
Proof.
  intros S. unfold strs_ok, aobj_ok, abs in S. rewrite Forall_map in S.
  pose proof (listed_typed o) as T. rewrite Forall_forall in *. intros e IN.
  destruct (T e IN) as (A & B). repeat split; try assumption. exact (S e IN).
Qed.

(* object::set(const object &): on the listed properties it is the specification's copy; the invariants are kept *)
Theorem object_set_refines log tg src : inv tg -> strs_ok tg -> strs_ok src ->
  abs (snd (object_set_from log tg src)) = spec_copy (kind_of tg) log (abs src) (abs tg) /\
  inv (snd (object_set_from log tg src)) /\ strs_ok (snd (object_set_from log tg src)) /\
  kind_of (snd (object_set_from log tg src)) = kind_of tg.
Proof.
  intros I S SS. unfold object_set_from.
  pose proof (copy_props_refines log (obj_listed src) (listed_pent_ok src SS) tg 0 I S) as H.
  destruct (copy_props log (obj_listed src) tg 0) as [r tg']. exact H.
Qed.
