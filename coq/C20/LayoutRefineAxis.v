(* C20/LayoutRefineAxis.v — mpt_axis_set refines the specification's set on the abstraction. *)
Require Import List String Ascii NArith ZArith Bool Lia.
Import ListNotations.
From MptV Require Import C20.LayoutTypes C20.LayoutConv C20.Gen_Layout C20.LayoutModel C20.LayoutSpec C20.LayoutLemmas C20.LayoutAbs.
Local Open Scope Z_scope.

Definition asrc_of (s : option source) : asrc := match s with None => AReset | Some x => ASrc x end.

Definition axis_how (f : axis_field) : bytes * how :=
  match f with
  | AxTitle => (bs "title", HStr) | AxBegin => (bs "begin", HNum NF64) | AxEnd => (bs "end", HNum NF64)
  | AxTlen => (bs "tlen", HNum NF32) | AxIntv => (bs "intervals", HIntv) | AxExp => (bs "exponent", HNum NI16)
  | AxSub => (bs "subtick", HNum NU8) | AxDec => (bs "decimals", HNum NU8)
  | AxLpos => (bs "lpos", HChrKey) | AxTpos => (bs "tpos", HChrKey)
  end.

Lemma axis_field_refines_begin (s : option source) o :
  apply_named KAxis (abs (OAxis o)) (bs "begin") (HNum NF64) (asrc_of s) =
  (sok (fst (axis_set_field AxBegin s o)), abs (OAxis (snd (axis_set_field AxBegin s o)))).
Proof.
  unfold apply_named, axis_set_field, num_field.
  destruct s as [src|]; cbn [asrc_of].
  - unfold denote, den_num. destruct (src_number NF64 src); cbn [fst snd sok]; rewrite ?abs_axis; try reflexivity.
  - cbn [fst snd sok]. rewrite !abs_axis. reflexivity.
Qed.
