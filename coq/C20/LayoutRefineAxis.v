(* C20/LayoutRefineAxis.v — mpt_axis_set refines the specification's set on the abstraction. *)
Require Import List String Ascii NArith ZArith Bool Lia.
Import ListNotations.
From MptV Require Import C20.LayoutTypes C20.LayoutConv C20.Gen_Layout C20.LayoutModel C20.LayoutSpec
  C20.LayoutLemmas C20.LayoutAbs C20.LayoutFields C20.LayoutColour.
Local Open Scope Z_scope.

Definition axis_how (f : axis_field) : bytes * how :=
  match f with
  | AxTitle => (bs "title", HStr) | AxBegin => (bs "begin", HNum NF64) | AxEnd => (bs "end", HNum NF64)
  | AxTlen => (bs "tlen", HNum NF32) | AxIntv => (bs "intervals", HIntv) | AxExp => (bs "exponent", HNum NI16)
  | AxSub => (bs "subtick", HNum NU8) | AxDec => (bs "decimals", HNum NU8)
  | AxLpos => (bs "lpos", HChrKey) | AxTpos => (bs "tpos", HChrKey)
  end.

(* the logarithmic flag is only ever set together with a zero interval count *)
Definition axis_inv (o : axis) : Prop := axis_lg o = true -> ax_intv o = 0.

Lemma lg_clear o v : axis_lg (set_ax_format (clear_lg (ax_format o)) v) = false.
Proof. unfold axis_lg. cbn [ax_format set_ax_format]. rewrite land_clear_lg. reflexivity. Qed.
Lemma lg_set o v : axis_lg (set_ax_format (set_lg (ax_format o)) v) = true.
Proof. unfold axis_lg. cbn [ax_format set_ax_format]. rewrite land_set_lg. reflexivity. Qed.

Lemma abs_set_intv_num o v :
  abs (OAxis (set_ax_format (clear_lg (ax_format o)) (set_ax_intv v o))) = aput (abs (OAxis o)) (bs "intervals") (PInt v).
Proof. rewrite !abs_axis. unfold intv_val. rewrite lg_clear. reflexivity. Qed.
Lemma abs_set_intv_log o :
  abs (OAxis (set_ax_format (set_lg (ax_format o)) (set_ax_intv 0 o))) =
  aput (abs (OAxis o)) (bs "intervals") (PStr (Some (bs "log"))).
Proof. rewrite !abs_axis. unfold intv_val. rewrite lg_set. reflexivity. Qed.
Lemma abs_keep_intv o : axis_inv o ->
  abs (OAxis (set_ax_format (clear_lg (ax_format o)) o)) =
  if axis_lg o then aput (abs (OAxis o)) (bs "intervals") (PInt 0) else abs (OAxis o).
Proof.
  intros I. rewrite !abs_axis. unfold intv_val. rewrite lg_clear.
  destruct (axis_lg o) eqn:L; [cbn [ax_intv set_ax_format]; rewrite (I L)|]; reflexivity.
Qed.
Lemma aget_intv o : aget (abs (OAxis o)) (bs "intervals") = Some (intv_val o).
Proof. reflexivity. Qed.

Lemma is_log_spec l : ncaseeq 3 l (bs "log") = beq (lowers (firstn 3 l)) (bs "log").
Proof. rewrite ncaseeq_firstn. reflexivity. Qed.

Ltac num_case abs_lemma :=
  unfold apply_named, num_field;
  match goal with
  | s : option source |- _ =>
    destruct s as [src|]; cbn [asrc_of];
    [ unfold denote, den_num; destruct (src_number _ src); cbn [fst snd sok]; rewrite ?abs_lemma; reflexivity
    | cbn [fst snd sok]; rewrite !abs_lemma; reflexivity ]
  end.

Lemma axis_intv_refines (s : option source) o : axis_inv o ->
  apply_named KAxis (abs (OAxis o)) (bs "intervals") HIntv (asrc_of s) =
  (sok (fst (axis_set_field AxIntv s o)), abs (OAxis (snd (axis_set_field AxIntv s o)))).
Proof.
  intros I. unfold apply_named. change (ok_default KAxis (bs "intervals")) with (PInt 0).
  destruct s as [src|]; cbn [asrc_of axis_set_field].
  - unfold denote, den_intv. rewrite aget_intv.
    destruct (src_number NU8 src) as [e| | |v] eqn:E; cbn [fst snd sok].
    + assert (forall t, (if ncaseeq 3 t (bs "log")
                         then (SOk, set_ax_format (set_lg (ax_format o)) (set_ax_intv 0 o)) else (SFail e, o)) =
                        (if beq (lowers (firstn 3 t)) (bs "log")
                         then (SOk, set_ax_format (set_lg (ax_format o)) (set_ax_intv 0 o)) else (SFail e, o))) as L
        by (intros t; rewrite is_log_spec; reflexivity).
      destruct src as [t orc|v|x]; cbn [src_str]; try reflexivity.
      * destruct t as [t|]; try reflexivity. rewrite L.
        destruct (beq (lowers (firstn 3 t)) (bs "log")); cbn [fst snd sok]; [|reflexivity].
        rewrite abs_set_intv_log. reflexivity.
      * destruct v; try reflexivity. destruct s as [t|]; try reflexivity. rewrite L.
        destruct (beq (lowers (firstn 3 t)) (bs "log")); cbn [fst snd sok]; [|reflexivity].
        rewrite abs_set_intv_log. reflexivity.
    + rewrite abs_set_intv_num. reflexivity.
    + rewrite (abs_keep_intv o I). unfold intv_val. destruct (axis_lg o); reflexivity.
    + rewrite abs_set_intv_num. reflexivity.
  - cbn [fst snd sok]. rewrite abs_set_intv_num. reflexivity.
Qed.

Lemma axis_named f (s : option source) o :
  (forall x, s = Some x -> wf_source x) -> axis_inv o ->
  apply_named KAxis (abs (OAxis o)) (fst (axis_how f)) (snd (axis_how f)) (asrc_of s) =
  (sok (fst (axis_set_field f s o)), abs (OAxis (snd (axis_set_field f s o)))).
Proof.
  intros W I. destruct f; cbn [axis_how fst snd]; try apply axis_intv_refines; auto; cbn [axis_set_field].
  - (* title *)
    unfold apply_named, str_field. destruct s as [src|]; cbn [asrc_of].
    + rewrite (string_pset_spec _ _ (W _ eq_refl)). unfold denote.
      destruct (den_str_cases src) as [E|[v E]]; rewrite E; cbn [fst snd sok]; rewrite ?abs_axis; reflexivity.
    + cbn [fst snd sok]. rewrite !abs_axis. reflexivity.
  - num_case abs_axis.
  - num_case abs_axis.
  - num_case abs_axis.
  - num_case abs_axis.
  - num_case abs_axis.
  - num_case abs_axis.
  - (* lpos *)
    unfold apply_named. destruct s as [src|]; cbn [asrc_of].
    + rewrite chr_or_key_spec. unfold denote.
      destruct (den_chrkey_cases src) as [E|[E|[E|[c E]]]]; rewrite E; cbn [fst snd sok]; rewrite ?abs_axis; reflexivity.
    + cbn [chr_or_key fst snd sok]. rewrite !abs_axis. reflexivity.
  - (* tpos *)
    unfold apply_named. destruct s as [src|]; cbn [asrc_of].
    + rewrite chr_or_key_spec. unfold denote.
      destruct (den_chrkey_cases src) as [E|[E|[E|[c E]]]]; rewrite E; cbn [fst snd sok]; rewrite ?abs_axis; reflexivity.
    + cbn [chr_or_key fst snd sok]. rewrite !abs_axis. reflexivity.
Qed.

Lemma axis_resolve n : resolve_name KAxis n = option_map axis_how (axis_field_of n).
Proof.
  unfold resolve_name, axis_field_of. norm_names.
  set (L := lowers n).
  repeat match goal with
  | |- (if ?b then _ else _) = _ =>
    match b with
    | context [beq L ?c] => destruct (beq L c) eqn:?; cbn [orb option_map]; [reflexivity|]
    end
  end.
  reflexivity.
Qed.

Definition pairb {A} (r : sres * A) (f : A -> aobj) : bool * aobj := (sok (fst r), f (snd r)).

Lemma axis_auto_title src o : wf_source src -> no_value src = false ->
  (match src with SObj _ => False | _ => True end) ->
  (match auto_select KAxis src with
   | Some (p, h) => apply_named KAxis (abs (OAxis o)) p h (ASrc src)
   | None => (false, abs (OAxis o))
   end) =
  (match ok_or (string_pset (ax_title o) src) with
   | Some t => (true, abs (OAxis (set_ax_title t o)))
   | None => (false, abs (OAxis o))
   end).
Proof.
  intros W NV NO. rewrite (string_pset_spec _ _ W).
  destruct src as [t orc|v|x]; [| |contradiction].
  - cbn [auto_select]. unfold apply_named, denote. cbn [den_str ok_or]. rewrite !abs_axis. reflexivity.
  - destruct v; cbn [auto_select den_str ok_or]; try reflexivity;
      unfold apply_named, denote; cbn [den_str]; rewrite !abs_axis; reflexivity.
Qed.

Theorem axis_set_refines o (other : axis) name (s : osrc) :
  wf_osrc s -> axis_inv o ->
  sset KAxis (abs (OAxis o)) (abs (OAxis other)) name (of_osrc s) =
  pairb (axis_set o name (resolve s (OAxis other))) (fun x => abs (OAxis x)).
Proof.
  intros W IV. unfold pairb. destruct name as [[|c n]|].
  - (* "" *)
    cbn [sset axis_set]. destruct s as [|t orc|v|]; cbn [of_osrc resolve fst snd sok]; try reflexivity;
      try (destruct (no_value _); reflexivity).
  - (* named *)
    cbn [sset axis_set]. rewrite axis_resolve.
    destruct (axis_field_of (c :: n)) as [f|]; cbn [option_map]; [|reflexivity].
    destruct (axis_how f) as [p h] eqn:H.
    replace p with (fst (axis_how f)) by (rewrite H; reflexivity).
    replace h with (snd (axis_how f)) by (rewrite H; reflexivity).
    destruct s as [|t orc|v|]; cbn [of_osrc resolve].
    + apply (axis_named f None o); [discriminate|assumption].
    + apply (axis_named f (Some (SText t orc)) o); [intros x E; inversion E; subst; exact W|assumption].
    + apply (axis_named f (Some (SValue v)) o); [intros x E; inversion E; subst; apply wf_value; exact W|assumption].
    + replace (apply_named KAxis (abs (OAxis o)) (fst (axis_how f)) (snd (axis_how f)) AOther)
        with (apply_named KAxis (abs (OAxis o)) (fst (axis_how f)) (snd (axis_how f)) (ASrc (SObj (OAxis other))))
        by (rewrite apply_named_obj; reflexivity).
      apply (axis_named f (Some (SObj (OAxis other))) o); [intros x E; inversion E; subst; exact Logic.I|assumption].
  - (* NULL *)
    cbn [sset axis_set]. destruct s as [|t orc|v|]; cbn [of_osrc resolve fst snd sok]; try reflexivity.
    + destruct (no_value (SText t orc)) eqn:NV; [reflexivity|].
      rewrite (axis_auto_title (SText t orc) o W NV Logic.I).
      destruct (ok_or (string_pset (ax_title o) (SText t orc))); reflexivity.
    + destruct (no_value (SValue v)) eqn:NV; [reflexivity|].
      rewrite (axis_auto_title (SValue v) o (wf_value v W) NV Logic.I).
      destruct (ok_or (string_pset (ax_title o) (SValue v))); reflexivity.
Qed.

(* ---- the invariant is kept ---- *)
Ltac break_match :=
  repeat match goal with
  | |- context [match ?x with _ => _ end] =>
    match type of x with
    | sumbool _ _ => fail 1
    | _ => destruct x eqn:?
    end
  end.

Lemma axis_inv_def : axis_inv def_axis.
Proof. unfold axis_inv, axis_lg. cbn. discriminate. Qed.

Lemma axis_field_inv f s o : axis_inv o -> axis_inv (snd (axis_set_field f s o)).
Proof.
  intros IV. destruct f; cbn [axis_set_field];
    unfold num_field, str_field, chr_or_key; break_match; cbn [snd]; try exact IV;
    try (unfold axis_inv, axis_lg in *; cbn [ax_format ax_intv set_ax_title set_ax_begin set_ax_end set_ax_tlen set_ax_exp
           set_ax_sub set_ax_dec set_ax_lpos set_ax_tpos set_ax_intv set_ax_format] in *; exact IV);
    try (unfold axis_inv; rewrite lg_clear; discriminate);
    try (unfold axis_inv; intros _; reflexivity).
Qed.

Lemma axis_set_inv o other name s : axis_inv o -> axis_inv other ->
  axis_inv (snd (axis_set o name (resolve s (OAxis other)))).
Proof.
  intros IV IO. unfold axis_set. destruct name as [[|c n]|].
  - destruct s; cbn [resolve snd]; try exact IO; try apply axis_inv_def; break_match; cbn [snd]; auto using axis_inv_def.
  - destruct (axis_field_of (c :: n)); [apply axis_field_inv; auto|exact IV].
  - destruct s; cbn [resolve snd]; try exact IO; try exact IV; break_match; cbn [snd]; auto using axis_inv_def.
Qed.
