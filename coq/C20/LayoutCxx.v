(* C20/LayoutCxx.v — the mpt++ wrappers are the C functions on the properties; constructors establish the invariant;
   histories from constructed / default objects need no hypothesis on the objects. *)
Require Import List String Ascii NArith ZArith Bool Lia.
Import ListNotations.
From MptV Require Import C20.LayoutTypes C20.LayoutConv C20.Gen_Layout C20.LayoutModel C20.LayoutSpec
  C20.LayoutLemmas C20.LayoutAbs C20.LayoutFields C20.LayoutRefineAxis C20.LayoutRefineGraph C20.LayoutRefine.
Local Open Scope Z_scope.

Lemma cxx_set_is_c o name src : cxx_set_property o name src = obj_set o name src.
Proof. destruct o; reflexivity. Qed.
Lemma cxx_get_is_c o name : cxx_property_by_name o name = obj_get o name.
Proof. reflexivity. Qed.
Lemma cxx_list_is_c o : cxx_property_by_pos o = obj_listed o.
Proof. reflexivity. Qed.

(* generic assignment from an mpt++ object of the same class copies it *)
Lemma cxx_assign o other name : same_kind o other -> (name = None \/ name = Some []) ->
  cxx_set_property o name (Some (cxx_source other)) = (SOk, cxx_clone other).
Proof. intros K N. rewrite cxx_set_is_c. apply copy_equal; assumption. Qed.

(* constructors *)
Lemma land3_no_lg f : Z.land (Z.land f 3) LG = 0.
Proof. rewrite <- Z.land_assoc. change (Z.land 3 LG) with 0. apply Z.land_0_r. Qed.

Lemma inv_default n : inv (default_of n).
Proof.
  destruct n as [|p]; [exact axis_inv_def|].
  destruct p as [p|p|]; try exact Logic.I; destruct p as [p|p|]; try exact Logic.I; try exact graph_inv_def.
Qed.
Lemma inv_cxx_axis flags : inv (cxx_new_axis flags).
Proof. unfold cxx_new_axis, inv, axis_inv, axis_lg. cbn [ax_format set_ax_format]. rewrite land3_no_lg. discriminate. Qed.
Lemma inv_cxx_new n : inv (cxx_new n).
Proof.
  destruct n as [|p]; [apply inv_cxx_axis|].
  destruct p as [p|p|]; try exact Logic.I; destruct p as [p|p|]; try exact Logic.I; try exact graph_inv_def;
    destruct p; exact Logic.I.
Qed.
(* default construction shows the documented defaults *)
Lemma cxx_new_defaults n : abs (cxx_new n) = defaults (kind_no n).
Proof.
  destruct n as [|p]; [reflexivity|].
  destruct p as [p|p|]; try reflexivity; destruct p as [p|p|]; try reflexivity; destruct p; reflexivity.
Qed.

(* histories of set operations from default / default-constructed objects: no hypothesis on the objects *)
Theorem history_from_init n ops : Forall set_only ops ->
  mrun_abs (default_of n, default_of n) ops =
  srun_abs (kind_no n) (defaults (kind_no n), defaults (kind_no n)) ops.
Proof.
  intros F. rewrite (history_refines ops (default_of n) (default_of n) eq_refl (inv_default n) (inv_default n) F).
  rewrite !defaults_match.
  replace (kind_of (default_of n)) with (kind_no n); [reflexivity|].
  destruct n as [|p]; [reflexivity|]. destruct p as [p|p|]; try reflexivity; destruct p as [p|p|]; reflexivity.
Qed.
