(* C20/LayoutAbs.v — what the generated read tables show of a model object, in closed form (computed from
   Gen_Layout.v: a changed table re-opens these lemmas), and the defaults. *)
Require Import List String Ascii NArith ZArith Bool Lia.
Import ListNotations.
From MptV Require Import C20.LayoutTypes C20.LayoutConv C20.Gen_Layout C20.LayoutModel C20.LayoutSpec C20.LayoutLemmas.
Local Open Scope Z_scope.

Definition intv_val (x : axis) : pval := if axis_lg x then PStr (Some (bs "log")) else PInt (ax_intv x).
Definition clip_val (x : graph) : pval := spec_clip_val (gr_clip x).

Lemma abs_axis x : abs (OAxis x) =
  [ (bs "title", PStr (ax_title x)); (bs "begin", PF64 (ax_begin x)); (bs "end", PF64 (ax_end x));
    (bs "tlen", PF32 (ax_tlen x)); (bs "exponent", PInt (ax_exp x)); (bs "intervals", intv_val x);
    (bs "subtick", PInt (ax_sub x)); (bs "decimals", PInt (ax_dec x)); (bs "lpos", PChr (ax_lpos x));
    (bs "tpos", PChr (ax_tpos x)) ].
Proof. reflexivity. Qed.

Lemma abs_line x : abs (OLine x) =
  [ (bs "color", pcol (li_color x)); (bs "x1", PF32 (li_fx x)); (bs "x2", PF32 (li_tx x));
    (bs "y1", PF32 (li_fy x)); (bs "y2", PF32 (li_ty x)); (bs "width", PInt (la_width (li_attr x)));
    (bs "style", PInt (la_style (li_attr x))); (bs "symbol", PInt (la_symbol (li_attr x)));
    (bs "size", PInt (la_size (li_attr x))) ].
Proof. reflexivity. Qed.

Lemma abs_text x : abs (OText x) =
  [ (bs "color", pcol (tx_color x)); (bs "pos", PPt (tx_px x) (tx_py x)); (bs "size", PInt (tx_size x));
    (bs "align", PChr (tx_align x)); (bs "angle", PF64 (tx_angle x)); (bs "value", PStr (tx_value x));
    (bs "font", PStr (tx_font x)) ].
Proof. reflexivity. Qed.

Lemma abs_graph x : abs (OGraph x) =
  [ (bs "axes", PStr (gr_axes x)); (bs "worlds", PStr (gr_worlds x)); (bs "foreground", pcol (gr_fg x));
    (bs "background", pcol (gr_bg x)); (bs "pos", PPt (gr_px x) (gr_py x)); (bs "scale", PPt (gr_sx x) (gr_sy x));
    (bs "grid", PInt (gr_grid x)); (bs "align", PInt (gr_align x)); (bs "clip", clip_val x);
    (bs "lpos", PChr (gr_lpos x)) ].
Proof. reflexivity. Qed.

Lemma abs_world x : abs (OWorld x) =
  [ (bs "color", pcol (wl_color x)); (bs "cycles", PInt (wl_cyc x)); (bs "width", PInt (la_width (wl_attr x)));
    (bs "style", PInt (la_style (wl_attr x))); (bs "symbol", PInt (la_symbol (wl_attr x)));
    (bs "size", PInt (la_size (wl_attr x))); (bs "alias", PStr (wl_alias x)) ].
Proof. reflexivity. Qed.

(* the static initialisers def_* give exactly the defaults observed on default objects *)
Lemma defaults_match n : abs (default_of n) = defaults (kind_no n).
Proof. destruct n as [|p]; [reflexivity|]. destruct p as [p|p|]; try reflexivity; destruct p as [p|p|]; reflexivity. Qed.

Lemma defaults_axis : abs (OAxis def_axis) = defaults KAxis. Proof. reflexivity. Qed.
Lemma defaults_line : abs (OLine def_line) = defaults KLine. Proof. reflexivity. Qed.
Lemma defaults_text : abs (OText def_text) = defaults KText. Proof. reflexivity. Qed.
Lemma defaults_graph : abs (OGraph def_graph) = defaults KGraph. Proof. reflexivity. Qed.
Lemma defaults_world : abs (OWorld def_world) = defaults KWorld. Proof. reflexivity. Qed.
