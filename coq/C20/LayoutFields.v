(* C20/LayoutFields.v — the field setters against the specification's denotations (kind independent). *)
Require Import List String Ascii NArith ZArith Bool Lia.
Import ListNotations.
From MptV Require Import C20.LayoutTypes C20.LayoutConv C20.Gen_Layout C20.LayoutModel C20.LayoutSpec C20.LayoutLemmas.
Local Open Scope Z_scope.

Definition asrc_of (s : option source) : asrc := match s with None => AReset | Some x => ASrc x end.

(* ---- strings ---- *)
Lemma string_set_text t : no_nul t = true ->
  string_set (Some t) (Some (List.length t)) = nonempty (Some t).
Proof.
  intros H. unfold string_set. destruct (List.length t) eqn:L.
  - destruct t; [reflexivity|discriminate].
  - rewrite <- L, firstn_all, cstr_id by auto. destruct t; [discriminate|reflexivity].
Qed.
Lemma string_set_strlen t : no_nul t = true -> string_set (Some t) None = nonempty (Some t).
Proof.
  intros H. unfold string_set. rewrite (cstr_id t H). destruct (List.length t) eqn:L.
  - destruct t; [reflexivity|discriminate].
  - rewrite <- L, firstn_all, cstr_id by auto. destruct t; [discriminate|reflexivity].
Qed.

Lemma string_pset_spec cur src : wf_source src ->
  string_pset cur src = match den_str src with DVal (PStr v) => (SOk, v) | _ => (SFail BadType, cur) end.
Proof.
  intros W. destruct src as [t o|v|x]; cbn [den_str].
  - unfold string_pset, src_vec. destruct t as [t|]; [|reflexivity].
    cbn in W. rewrite string_set_text; auto.
  - destruct v; try reflexivity.
    + (* VC *) unfold string_pset, src_vec, string_set. cbn [List.length].
      assert (0 <= z mod 256 < 256) by (apply Z.mod_pos_bound; lia).
      cbn [firstn cstr].
      destruct (z mod 256 =? 0) eqn:E.
      * apply Z.eqb_eq in E. rewrite E. reflexivity.
      * apply Z.eqb_neq in E. destruct (N.eqb (Z.to_N (z mod 256)) 0) eqn:F; [|reflexivity].
        apply N.eqb_eq in F. lia.
    + (* VS *) unfold string_pset, src_vec, src_str. destruct s as [t|]; [|reflexivity].
      cbn in W. rewrite string_set_strlen; auto.
  - reflexivity.
Qed.

Lemma den_str_cases src : den_str src = DRefuse \/ exists v, den_str src = DVal (PStr v).
Proof.
  destruct src as [t o|v|x]; cbn; eauto. destruct v; cbn; eauto.
Qed.

(* ---- characters (axis label / title position) ---- *)
Lemma skip_space_head t c r : skip_space t = c :: r -> is_space c = false.
Proof.
  induction t as [|a t]; cbn; [congruence|]. destruct (is_space a) eqn:E; auto.
  intros H; inversion H; subst; auto.
Qed.
Lemma skip_space_idem t : skip_space (skip_space t) = skip_space t.
Proof.
  induction t as [|a t]; cbn; auto. destruct (is_space a) eqn:E; auto. cbn. rewrite E. auto.
Qed.

Lemma text_chr t o : t <> [] ->
  text_number NChr o t =
  match skip_space t with
  | [] => CZero
  | c :: _ => if is_graph c then CVal (NvInt (Z.of_N c)) else CErr BadType
  end.
Proof.
  intros H. unfold text_number. destruct t; [congruence|].
  unfold convert_number. rewrite skip_space_idem. destruct (skip_space (n :: t)); auto.
  destruct (is_graph n0); auto.
Qed.

(* chr_or_key computes the specification's denotation *)
Lemma chr_or_key_spec {O} (s : source) (o : O) def wr :
  chr_or_key (Some s) o def wr =
  match den_chrkey s with
  | DRefuse => (SFail BadType, o)
  | DDefault => (SOk, wr def o)
  | DKeep => (SOk, o)
  | DVal (PChr c) => (SOk, wr c o)
  | DVal _ => (SOk, o)
  end.
Proof.
  unfold chr_or_key. destruct s as [t orc|v|x].
  - destruct t as [t|]; [|reflexivity].
    destruct t as [|a t]; [reflexivity|].
    cbn [den_chrkey src_number]. rewrite text_chr by congruence.
    destruct (skip_space (a :: t)) as [|c r] eqn:E; [reflexivity|].
    destruct (is_graph c) eqn:G; [reflexivity|].
    unfold src_key. rewrite E. cbn [take_word]. rewrite (skip_space_head _ _ _ E). reflexivity.
  - cbn [den_chrkey]. unfold den_num. cbn [src_number src_key].
    destruct (value_number NChr v); reflexivity.
  - reflexivity.
Qed.

Lemma den_chrkey_cases s :
  den_chrkey s = DRefuse \/ den_chrkey s = DDefault \/ den_chrkey s = DKeep \/ exists c, den_chrkey s = DVal (PChr c).
Proof.
  destruct s as [t o|v|x]; cbn [den_chrkey].
  - destruct t as [[|a t]|]; auto. destruct (skip_space (a :: t)); eauto 6.
  - unfold den_num. destruct (src_number NChr (SValue v)); eauto 6.
  - unfold den_num. destruct (src_number NChr (SObj x)); eauto 6.
Qed.

(* ---- line attributes ---- *)
Lemma lattr_pset_spec cur s def hi : 0 <= hi <= 255 ->
  lattr_pset cur s def 0 hi =
  match den_attr (Some (PInt cur)) hi s with
  | DRefuse => (SFail (match (match src_number NU8 s with CErr _ => src_number NI32 s | x => x end) with
                        | CErr e => e | _ => BadValue end), cur)
  | DDefault => (SOk, def)
  | DKeep => (SOk, cur)
  | DVal (PInt v) => (SOk, v)
  | DVal _ => (SOk, cur)
  end.
Proof.
  intros Hhi. unfold lattr_pset, den_attr.
  destruct (src_number NU8 s) as [e| | |v] eqn:E1.
  - destruct (src_number NI32 s) as [e2| | |v2] eqn:E2; try reflexivity.
    + destruct ((cur <? 0) || (hi <? cur)); reflexivity.
    + destruct (nv_int v2 <? 0) eqn:A; cbn [orb].
      * reflexivity.
      * destruct (255 <? nv_int v2) eqn:B; cbn [orb].
        -- assert (hi <? nv_int v2 = true) by (apply Z.ltb_lt; apply Z.ltb_lt in B; lia). rewrite H. reflexivity.
        -- destruct (hi <? nv_int v2); reflexivity.
  - reflexivity.
  - destruct ((cur <? 0) || (hi <? cur)); reflexivity.
  - destruct ((nv_int v <? 0) || (hi <? nv_int v)); reflexivity.
Qed.

(* ---- the logarithmic flag of an axis ---- *)
Lemma land_clear_lg f : Z.land (clear_lg f) LG = 0.
Proof. unfold clear_lg. rewrite <- Z.land_assoc. change (Z.land (Z.lnot LG mod 256) LG) with 0. apply Z.land_0_r. Qed.
Lemma land_set_lg f : Z.land (set_lg f) LG = LG.
Proof.
  unfold set_lg. apply Z.bits_inj'. intros n Hn. rewrite Z.land_spec, Z.lor_spec.
  destruct (Z.testbit LG n); [rewrite orb_true_r|rewrite andb_false_r]; reflexivity.
Qed.

(* another object is never a value for a named property *)
Lemma apply_named_obj k o p h x : apply_named k o p h (ASrc (SObj x)) = (false, o).
Proof.
  unfold apply_named, denote.
  destruct h; reflexivity.
Qed.

(* ---- name dispatch: both sides are if-chains over the same tests ---- *)
Lemma ceqs_lowers n lit : ceqs n lit = beq (lowers n) (lowers (bs lit)).
Proof. unfold ceqs. apply caseeq_lowers. Qed.

Ltac norm_names :=
  unfold in_names, exact_names, existsb, eqs;
  rewrite ?ceqs_lowers;
  repeat match goal with
  | |- context [lowers (bs ?s)] => let v := eval vm_compute in (lowers (bs s)) in change (lowers (bs s)) with v
  end;
  repeat match goal with
  | |- context [bs ?s] =>
    match s with
    | String _ _ => let v := eval vm_compute in (bs s) in change (bs s) with v
    end
  end;
  rewrite ?orb_false_r.


Lemma wf_value v : wf_osrc (XValue v) -> wf_source (SValue v).
Proof. destruct v; auto. Qed.
Lemma wf_text_src t o : wf_osrc (XText t o) -> wf_source (SText t o).
Proof. auto. Qed.

(* ---- case lemmas: which denotations occur ---- *)
Lemma den_col_cases s : den_col s = DRefuse \/ den_col s = DKeep \/ exists a r g b, den_col s = DVal (PCol a r g b).
Proof.
  destruct s as [t o|v|x]; cbn [den_col]; auto.
  - destruct t as [[|c t]|]; auto.
    destruct (spec_colour_strict (c :: t)) as [[[[a r] g] b]|]; [eauto 8|].
    unfold bytes in *. destruct (color_parse (Some (c :: t))) as [col|]; auto. unfold pcol. eauto 8.
  - destruct v; auto; [|eauto 8].
    destruct s as [[|c t]|]; [eauto 8| |eauto 8].
    destruct (spec_colour_strict (c :: t)) as [[[[a r] g] b]|]; [eauto 8|].
    unfold bytes in *. destruct (color_parse (Some (c :: t))) as [col|]; auto. unfold pcol. eauto 8.
Qed.

Lemma den_attr_cases c hi s :
  den_attr (Some (PInt c)) hi s = DRefuse \/ den_attr (Some (PInt c)) hi s = DDefault \/
  den_attr (Some (PInt c)) hi s = DKeep \/ exists v, den_attr (Some (PInt c)) hi s = DVal (PInt v).
Proof.
  unfold den_attr.
  destruct (match src_number NU8 s with CErr _ => src_number NI32 s | x => x end); auto.
  - destruct ((c <? 0) || (hi <? c)); auto.
  - destruct ((nv_int v <? 0) || (hi <? nv_int v)); eauto.
Qed.

Lemma den_pt_cases rmax s :
  den_pt rmax s = DRefuse \/ den_pt rmax s = DDefault \/ exists x y, den_pt rmax s = DVal (PPt x y).
Proof. unfold den_pt. destruct (fpoint_set s 0%N rmax); eauto. Qed.
