(* C20/LayoutLoadSpec.v — specification side of reading a layout file (no proofs): the same walk over the entries as
   LayoutLoad.v, on property lists: a section makes an item of the named type at its documented defaults, takes every
   property of each parent, then assigns its own `name = value` entries in their order; a graph binds the axes and
   worlds its "axes" / "worlds" properties name (or all of its own), each bound object showing the properties of the
   item named. *)
Require Import List String Ascii NArith ZArith Bool.
Import ListNotations.
From MptV Require Import C20.LayoutTypes C20.LayoutConv C20.Gen_Layout C20.LayoutModel C20.LayoutSpec
  C20.LayoutCxxModel C20.LayoutCxxSpec C20.LayoutLoad.
Local Open Scope Z_scope.

Definition sobj := (kind * aobj)%type.
Definition kind_index (k : kind) : N := match k with KAxis => 0 | KLine => 1 | KText => 2 | KGraph => 3 | KWorld => 4 end%N.
Definition s_create (ty : bytes) : option sobj :=
  if eqs ty "line" then Some (KLine, defaults KLine)
  else if eqs ty "text" then Some (KText, defaults KText)
  else if eqs ty "graph" then Some (KGraph, defaults KGraph)
  else if eqs ty "world" then Some (KWorld, defaults KWorld)
  else if eqs ty "axis" || eqs ty "xaxis" || eqs ty "yaxis" || eqs ty "zaxis" then Some (KAxis, defaults KAxis)
  else None.
(* an entry of an item that is no group: no value = reset; a value is taken as the plain string it is, and when the
   property has no use for a string, as text to convert *)
Definition s_leaf (o : sobj) (p : fprop) : sobj :=
  let '(k, a) := o in
  match fp_text p with
  | [] => (k, snd (sset k a a (Some (fp_name p)) AReset))
  | t =>
    match sset k a a (Some (fp_name p)) (ASrc (SValue (VS (Some t)))) with
    | (true, a') => (k, a')
    | (false, _) => (k, snd (sset k a a (Some (fp_name p)) (ASrc (SText (Some t) (fp_orc p)))))
    end
  end.
Definition s_group (o : sobj) (p : fprop) : sobj :=
  let '(k, a) := o in
  match fp_text p with
  | [] => o
  | t => (k, snd (sset k a a (Some (fp_name p)) (ASrc (SText (Some t) (fp_orc p)))))
  end.
Definition s_top (l : aobj) (p : fprop) : aobj :=
  match fp_text p with
  | [] => l
  | t => match lay_name (fp_name p) with Some n => aput l n (PStr (Some t)) | None => l end
  end.
Definition s_names (o : sobj) : option bytes * option bytes :=
  (match aget (snd o) (bs "axes") with Some (PStr s) => s | _ => None end,
   match aget (snd o) (bs "worlds") with Some (PStr s) => s | _ => None end).
Definition s_scale (o : sobj) : N * N :=
  match fst o, aget (snd o) (bs "scale") with KGraph, Some (PPt x y) => (x, y) | _, _ => (F32_ONE, F32_ONE) end.
Definition sops : lops sobj aobj :=
  mklops s_create (fun o => kind_index (fst o)) (fun tg src => (fst tg, spec_copy (fst tg) true (snd src) (snd tg)))
         s_leaf s_group s_names s_scale s_top.

(* the layout with its items on the specification side *)
Record slstate := mksls { sl_obj : aobj; sl_tops : list (tnode sobj); sl_graphs : list (option bytes * sobj * option nat);
                          sl_parser : bool; sl_input : option (list tent); sl_eof : bool }.
Definition sl_init := mksls layout_defaults [] [] false None false.
Definition slayout_load (st : slstate) : bool * slstate :=
  if negb (sl_parser st) then (false, st)
  else match sl_input st with
       | None => (false, st)
       | Some ents =>
         let ents' := if sl_eof st then [] else ents in
         if has_raw ents' then (false, mksls (sl_obj st) (sl_tops st) (sl_graphs st) true (sl_input st) true)
         else let '(ok, lay, tops, gs) := load_entries sops ents' (sl_obj st) (sl_graphs st) in
              (ok, mksls lay tops gs true (sl_input st) true)
       end.
Record slview := mkslv { slv_tops : list (tnode sobj); slv_graphs : list (option bytes * sobj * option nat); slv_scale : N * N }.
Definition sview_of (st : slstate) : slview := mkslv (sl_tops st) (sl_graphs st) (min_scale sops (sl_graphs st)).
Inductive slres := SLBool | SLLoaded (b : bool) (v : slview).
Definition slfile_step (st : slstate) (p : lop) : slstate * slres :=
  match p with
  | LLoad ents =>
    let '(ok, st') := slayout_load (mksls (sl_obj st) (sl_tops st) (sl_graphs st) true (Some ents) false) in
    (st', SLLoaded ok (sview_of st'))
  | LAgain => let '(ok, st') := slayout_load st in (st', SLLoaded ok (sview_of st'))
  | LOpenNull => (st, SLBool)
  | LOpenMissing => (mksls (sl_obj st) (sl_tops st) (sl_graphs st) true (sl_input st) (sl_eof st), SLBool)
  | LReset => (mksls layout_defaults (sl_tops st) [] (sl_parser st) (sl_input st) false, SLBool)
  end.
Inductive slxres := SLXR (r : xsres) | SLFR (r : slres).
Definition swith_obj (st : slstate) (o : aobj) : slstate :=
  mksls o (sl_tops st) (sl_graphs st) (sl_parser st) (sl_input st) (sl_eof st).
Definition slstep (st : slstate * slstate) (p : lxop) : (slstate * slstate) * slxres :=
  let '(a, b) := st in
  match p with
  | LX q => let '((a', b'), r) := lsstep (sl_obj a, sl_obj b) q in ((swith_obj a a', swith_obj b b'), SLXR r)
  | LF false f => let '(a', r) := slfile_step a f in ((a', b), SLFR r)
  | LF true f => let '(b', r) := slfile_step b f in ((a, b'), SLFR r)
  end.
Fixpoint slrun (st : slstate * slstate) (ops : list lxop) : list (slxres * list sent * list sent) :=
  match ops with
  | [] => []
  | p :: r => let '(st', t) := slstep st p in (t, lsdump (sl_obj (fst st')), lsdump (sl_obj (snd st'))) :: slrun st' r
  end.
