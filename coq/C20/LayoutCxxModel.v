(* C20/LayoutCxxModel.v — executable model (NO proofs) of what the mpt++ classes add to the C functions
   (mpt++/layout.cpp, mpt++/graph.cpp, mpt++/item_group.cpp as far as properties are concerned):
     - constructors with arguments, clone(), struct-level copy construction / assignment,
     - the direct setters text::set_value / set_font, world::set_alias, layout::set_alias / set_font / reset,
     - convert() of every class for the request types a caller can form,
     - an mpt++ object as value source of a NAMED property (its convert() hands out a colour),
     - layout::graph: add_axis / add_world, items of the group (create + append), bind() driven by the "axes" /
       "worlds" properties, update_transform / transform_flags,
     - class layout: properties alias (name) and font.
   The class layout is modelled AS PATCHED by docs/c20_proposed_layout_object.diff (its cases are generated only
   when the tree contains the patch). *)
Require Import List String Ascii NArith ZArith Bool.
Import ListNotations.
From MptV Require Import C20.LayoutTypes C20.LayoutConv C20.Gen_Layout C20.LayoutModel.
Local Open Scope Z_scope.

(* ---- constructors ---- *)
(* kind code 0..4 as default_of; arg: the constructor argument (axis: AxisFlags, world: cycles), None = default *)
Definition cxx_construct (kind : N) (arg : option Z) : anyobj :=
  match arg with
  | None => cxx_new kind
  | Some z => if N.eqb kind 0 then cxx_new_axis z else if N.eqb kind 4 then cxx_new_world z else cxx_new kind
  end.

(* ---- convert() ---- *)
Inductive creq := QMe | QCptr | QObj | QMeta | QGrp | QColl | QOtherPtr | QStr | QBad | QFmt0 | QColor | QLattr | QLine.
Inductive cret := CrErr (e : Z) | CrMe | CrCptr | CrObj | CrMeta | CrArr | CrColl | CrColor | CrLattr | CrLine | CrGrp.
Inductive cpay := CpNone | CpSelf | CpFmt (b : bytes) | CpColor (c : color) | CpLattr (l : lattr) | CpLine (c : color) (fx : N).

(* what the untouched destination of the harness holds *)
Definition untouched (q : creq) : cpay :=
  match q with
  | QColor => CpColor (mkcol 4 1 2 3)
  | QLattr => CpLattr (mklattr 9 9 9 9)
  | QLine => CpLine col_black 0%N
  | _ => CpNone
  end.

Definition cxx_convert (o : anyobj) (q : creq) : cret * cpay :=
  let bad := (CrErr BadType, untouched q) in
  match o with
  | OAxis _ =>
    match q with
    | QMe => (CrMe, CpSelf) | QFmt0 => (CrMe, CpFmt [132%N])
    | QMeta | QObj => (CrCptr, CpSelf) | QCptr => (CrObj, CpSelf)
    | _ => bad
    end
  | OWorld x =>
    match q with
    | QMe => (CrMe, CpSelf) | QFmt0 => (CrMe, CpFmt [132%N])
    | QMeta | QObj => (CrCptr, CpSelf) | QCptr => (CrObj, CpSelf)
    | QColor => (CrMe, CpColor (wl_color x)) | QLattr => (CrMe, CpLattr (wl_attr x))
    | _ => bad
    end
  | OText x =>
    match q with
    | QMe => (CrMe, CpSelf) | QFmt0 => (CrMe, CpFmt [132%N])
    | QMeta | QObj => (CrCptr, CpSelf) | QCptr => (CrObj, CpSelf)
    | QColor => (CrMe, CpColor (tx_color x))
    | _ => bad
    end
  | OLine x =>
    match q with
    | QMe => (CrMe, CpSelf) | QFmt0 => (CrMe, CpFmt [132%N])
    | QMeta | QObj => (CrLine, CpSelf)
    | QLine => (CrObj, CpLine (li_color x) (li_fx x))
    | _ => bad
    end
  | OGraph x =>
    match q with
    | QMe => (CrMe, CpSelf) | QFmt0 => (CrMe, CpFmt [132%N])
    | QObj => (CrCptr, CpSelf) | QCptr => (CrObj, CpSelf)
    | QColor => (CrMe, CpColor (gr_fg x))
    | QGrp => (CrArr, CpNone) | QColl => (CrGrp, CpNone) | QMeta => (CrGrp, CpSelf)
    | _ => bad
    end
  end.

(* an mpt++ object as the source of a NAMED property: only a colour request is answered (text, world: color;
   graph: foreground), every other request is refused like for a plain object source *)
Definition cxx_named_source (o : anyobj) : source :=
  match o with
  | OText x => SValue (VCol (c_a (tx_color x)) (c_r (tx_color x)) (c_g (tx_color x)) (c_b (tx_color x)))
  | OWorld x => SValue (VCol (c_a (wl_color x)) (c_r (wl_color x)) (c_g (wl_color x)) (c_b (wl_color x)))
  | OGraph x => SValue (VCol (c_a (gr_fg x)) (c_r (gr_fg x)) (c_g (gr_fg x)) (c_b (gr_fg x)))
  | _ => SObj o
  end.

(* ---- direct setters: mpt_string_set(&member, text) ---- *)
Inductive cwhich := WValue | WFont | WAlias | WLfont.
(* result: the bool the C++ method returns, new object; None: the class has no such method *)
Definition cxx_cset (o : anyobj) (w : cwhich) (t : option bytes) : option (bool * anyobj) :=
  let v := string_set t None in
  match o, w with
  (* text::set_value / set_font: AS PATCHED (docs/c20_proposed_layout_object.diff) they report success; the code in
     /repo returns the int of mpt_string_set converted to bool, i.e. false when the text is cleared — the clearing
     cases are generated only when the tree contains the patch *)
  | OText x, WValue => Some (true, OText (set_tx_value v x))
  | OText x, WFont => Some (true, OText (set_tx_font v x))
  (* world::set_alias: mpt_string_set(..) < 0 ? false : true *)
  | OWorld x, WAlias => Some (true, OWorld (set_wl_alias v x))
  | _, _ => None
  end.

(* ---- layout::graph: bound axes / worlds, items, transformation ---- *)
Inductive gitem := GIAxis (o : axis) | GIWorld (o : world) | GIOther.
Record gextra := mkgx { gx_items : list (option bytes * gitem);
                        gx_axes : list (option bytes * axis); gx_worlds : list (option bytes * world);
                        gx_tr : bool }.
Definition gx_empty := mkgx [] [] [] false.

(* item_group::create(type) *)
Definition typed_axis (f : Z) : axis := set_ax_format (Z.land f 3) def_axis.
Definition create_item (ty : bytes) : option gitem :=
  if eqs ty "line" || eqs ty "text" || eqs ty "graph" then Some GIOther
  else if eqs ty "world" then Some (GIWorld def_world)
  else if eqs ty "axis" then Some (GIAxis def_axis)
  else if eqs ty "xaxis" then Some (GIAxis (typed_axis 1))
  else if eqs ty "yaxis" then Some (GIAxis (typed_axis 2))
  else if eqs ty "zaxis" then Some (GIAxis (typed_axis 3))
  else None.
(* an optional first property assignment on the new item (through its object interface) *)
Definition item_assign (it : gitem) (prop : option bytes) (s : source) : gitem :=
  match prop with
  | None => it
  | Some p =>
    match it with
    | GIAxis x => GIAxis (snd (axis_set x (Some p) (Some s)))
    | GIWorld x => GIWorld (snd (world_set x (Some p) (Some s)))
    | GIOther => GIOther
    end
  end.

(* words of a name list (mpt_convert_key without separators: white space delimited) *)
Fixpoint words_fuel (fuel : nat) (t : bytes) : list bytes :=
  match fuel with
  | O => []
  | S f =>
    match skip_space t with
    | [] => []
    | r => let w := take_word r in w :: words_fuel f (skipn (List.length w) r)
    end
  end.
Definition words (t : bytes) : list bytes := words_fuel (S (List.length t)) t.

Definition name_is (n : option bytes) (w : bytes) : bool := match n with Some x => beq x w | None => false end.
Fixpoint find_axis (items : list (option bytes * gitem)) (w : bytes) : option axis :=
  match items with
  | [] => None
  | (n, GIAxis x) :: r => if name_is n w then Some x else find_axis r w
  | _ :: r => find_axis r w
  end.
Fixpoint find_world (items : list (option bytes * gitem)) (w : bytes) : option world :=
  match items with
  | [] => None
  | (n, GIWorld x) :: r => if name_is n w then Some x else find_world r w
  | _ :: r => find_world r w
  end.
Fixpoint bind_names {A} (find : bytes -> option A) (ws : list bytes) : option (list (option bytes * A)) :=
  match ws with
  | [] => Some []
  | w :: r => match find w, bind_names find r with
              | Some x, Some l => Some ((Some w, x) :: l)
              | _, _ => None
              end
  end.
Definition all_axes (items : list (option bytes * gitem)) : list (option bytes * axis) :=
  flat_map (fun it => match it with (n, GIAxis x) => [(n, x)] | _ => [] end) items.
Definition all_worlds (items : list (option bytes * gitem)) : list (option bytes * world) :=
  flat_map (fun it => match it with (n, GIWorld x) => [(n, x)] | _ => [] end) items.

(* layout::graph::bind(0, 0): Ok 1 or the error, new bound lists (restored on failure) *)
Definition graph_bind (g : graph) (x : gextra) : Z * gextra :=
  let ax := match gr_axes g with
            | None => Some (all_axes (gx_items x))
            | Some names => bind_names (find_axis (gx_items x)) (words names)
            end in
  match ax with
  | None => (- MissingData, x)
  | Some al =>
    let wl := match gr_worlds g with
              | None => Some (all_worlds (gx_items x))
              | Some names => bind_names (find_world (gx_items x)) (words names)
              end in
    match wl with
    | None => (- MissingData, x)
    | Some wl' => (1, mkgx (gx_items x) al wl' (gx_tr x))
    end
  end.
(* update_transform(): a transformation exists from the first call that finds an axis in one of the three
   dimensions; transform_flags then reports the dimension styles 1 2 3 *)
Definition graph_touch_tr (x : gextra) : gextra :=
  mkgx (gx_items x) (gx_axes x) (gx_worlds x) (gx_tr x || match gx_axes x with [] => false | _ => true end).
Definition tr_flags (x : gextra) : list Z := if gx_tr x then [1; 2; 3] else [0; 0; 0].

(* ---- class layout (as patched): properties alias (also "name") and font ---- *)
Record layoutobj := mklay { ly_alias : option bytes; ly_font : option bytes }.
Definition def_layout := mklay None None.
Definition layout_set (o : layoutobj) (name : option bytes) (s : option source) : sres * layoutobj :=
  match name with
  | None =>
    match s with
    | None => (SFail BadOperation, o)
    | Some src => match string_pset (ly_alias o) src with
                  | (SOk, v) => (SOk, mklay v (ly_font o))
                  | _ => (SFail BadType, o)
                  end
    end
  | Some [] => (SFail BadOperation, o)
  | Some n =>
    if ceqs n "alias" || ceqs n "name" then
      match s with
      | None => (SOk, mklay None (ly_font o))
      | Some src => match string_pset (ly_alias o) src with
                    | (SOk, v) => (SOk, mklay v (ly_font o))
                    | (r, _) => (r, o)
                    end
      end
    else if ceqs n "font" then
      match s with
      | None => (SOk, mklay (ly_alias o) None)
      | Some src => match string_pset (ly_font o) src with
                    | (SOk, v) => (SOk, mklay (ly_alias o) v)
                    | (r, _) => (r, o)
                    end
      end
    else (SFail BadArgument, o)
  end.
Definition lay_entry (name : string) (v : option bytes) : pent :=
  mkpent (bs name) TStr (PStr v) (match v with Some t => Z.of_nat (List.length t) | None => 0 end).
Definition layout_props (o : layoutobj) : list pent := [lay_entry "alias" (ly_alias o); lay_entry "font" (ly_font o)].
Definition layout_get (o : layoutobj) (n : bytes) : Z + pent :=
  if ceqs n "alias" || ceqs n "name" then inr (lay_entry "alias" (ly_alias o))
  else if ceqs n "font" then inr (lay_entry "font" (ly_font o))
  else inl (- BadArgument).
Definition layout_convert (q : creq) : cret * cpay :=
  match q with
  | QObj => (CrGrp, CpSelf)
  | QFmt0 => (CrGrp, CpFmt [135%N])
  | QGrp => (CrArr, CpNone) | QColl => (CrGrp, CpNone) | QMeta => (CrGrp, CpSelf)
  | q => (CrErr BadType, untouched q)
  end.

(* ================= operations of the mpt++ harness ================= *)
Inductive xop :=
| XBase (p : op)
| XClone (tb : bool)
| XCpy (tb : bool)
| XCset (tb : bool) (w : cwhich) (t : option bytes)
| XConv (tb : bool) (q : creq)
| XLreset (tb : bool)                                             (* layout::reset() *)
| XGadd (tb : bool) (isaxis : bool) (name : option bytes)
| XGitem (tb : bool) (ty : bytes) (name : option bytes) (prop : option bytes) (t : option bytes) (o : torc)
| XGbind (tb : bool)
| XGtr (tb : bool).

Inductive ghead := GhK | GhR | GhKn (n : Z) | GhE (e : Z) | GhT (flags : list Z).
Inductive xres :=
| XRtok (t : rtok)
| XBool (b : bool)
| XConvR (r : cret) (p : cpay)
| XGraphR (h : ghead) (ax : list (option bytes * axis)) (wl : list (option bytes * world))
| XUnsup.

Record xstate := mkxs { xa : anyobj; xb : anyobj; xga : gextra; xgb : gextra }.

Definition upd_t (st : xstate) (tb : bool) (o : anyobj) (g : gextra) : xstate :=
  if tb then mkxs (xa st) o (xga st) g else mkxs o (xb st) g (xgb st).

Definition is_named (n : option bytes) : bool := match n with Some (_ :: _) => true | _ => false end.

Definition xstep (st : xstate) (p : xop) : xstate * xres :=
  match p with
  | XBase (OpSet tb n s) =>
    let tg := if tb then xb st else xa st in
    let ot := if tb then xa st else xb st in
    let gx := if tb then xgb st else xga st in
    let src := match s with
               | XOther => Some (if is_named n then cxx_named_source ot else SObj ot)
               | _ => resolve s ot
               end in
    let '(r, tg') := cxx_set_property tg n src in
    (* layout::graph::set_property refreshes the transformation after an accepted assignment from a source *)
    let gx' := match tg, r, src with OGraph _, SOk, Some _ => graph_touch_tr gx | _, _, _ => gx end in
    (upd_t st tb tg' gx', XRtok (tok_of r))
  | XBase p' =>
    let '((a', b'), t) := step (xa st, xb st) p' in (mkxs a' b' (xga st) (xgb st), XRtok t)
  | XClone tb =>
    (* layout::graph::clone() copies the transformation and the bound axes / worlds, not the items of the group *)
    let gx := if tb then xgb st else xga st in
    (upd_t st tb (if tb then xb st else xa st) (mkgx [] (gx_axes gx) (gx_worlds gx) (gx_tr gx)), XRtok RK)
  | XCpy tb =>
    (* struct level copy (copy constructor + operator= of ::mpt::axis ..): the C struct members only *)
    (upd_t st tb (if tb then xa st else xb st) (if tb then xgb st else xga st), XRtok RK)
  | XCset tb w t =>
    match cxx_cset (if tb then xb st else xa st) w t with
    | Some (r, o') => (upd_t st tb o' (if tb then xgb st else xga st), XBool r)
    | None => (st, XUnsup)
    end
  | XConv tb q => let '(r, pl) := cxx_convert (if tb then xb st else xa st) q in (st, XConvR r pl)
  | XLreset _ => (st, XUnsup)
  | XGadd tb isaxis name =>
    match (if tb then xb st else xa st) with
    | OGraph g =>
      let gx := if tb then xgb st else xga st in
      let gx' := if isaxis then mkgx (gx_items gx) (app (gx_axes gx) [(name, def_axis)]) (gx_worlds gx) (gx_tr gx)
                 else mkgx (gx_items gx) (gx_axes gx) (app (gx_worlds gx) [(name, def_world)]) (gx_tr gx) in
      (upd_t st tb (OGraph g) gx', XGraphR GhK (gx_axes gx') (gx_worlds gx'))
    | _ => (st, XUnsup)
    end
  | XGitem tb ty name prop t o =>
    match (if tb then xb st else xa st) with
    | OGraph g =>
      let gx := if tb then xgb st else xga st in
      match create_item ty with
      | None => (st, XGraphR GhR (gx_axes gx) (gx_worlds gx))
      | Some it =>
        let it' := item_assign it prop (SText t o) in
        let gx' := mkgx (app (gx_items gx) [(name, it')]) (gx_axes gx) (gx_worlds gx) (gx_tr gx) in
        (upd_t st tb (OGraph g) gx', XGraphR (GhKn (Z.of_nat (List.length (gx_items gx')))) (gx_axes gx') (gx_worlds gx'))
      end
    | _ => (st, XUnsup)
    end
  | XGbind tb =>
    match (if tb then xb st else xa st) with
    | OGraph g =>
      let gx := if tb then xgb st else xga st in
      let '(r, gx') := graph_bind g gx in
      (upd_t st tb (OGraph g) gx', XGraphR (if r <? 0 then GhE (- r) else GhKn r) (gx_axes gx') (gx_worlds gx'))
    | _ => (st, XUnsup)
    end
  | XGtr tb =>
    match (if tb then xb st else xa st) with
    | OGraph g =>
      let gx := graph_touch_tr (if tb then xgb st else xga st) in
      (upd_t st tb (OGraph g) gx, XGraphR (GhT (tr_flags gx)) (gx_axes gx) (gx_worlds gx))
    | _ => (st, XUnsup)
    end
  end.

Definition xout := (xres * list pent * list pent)%type.
Fixpoint xrun (st : xstate) (ops : list xop) : list xout :=
  match ops with
  | [] => []
  | p :: r => let '(st', t) := xstep st p in (t, obj_props (xa st'), obj_props (xb st')) :: xrun st' r
  end.

(* class layout: its own small history runner *)
Definition lstep (st : layoutobj * layoutobj) (p : xop) : (layoutobj * layoutobj) * xres :=
  let '(a, b) := st in
  let src_of (s : osrc) : option (option source) :=
    match s with
    | XReset => Some None | XText t o => Some (Some (SText t o)) | XValue v => Some (Some (SValue v))
    | XOther => None
    end in
  match p with
  | XBase (OpSet tb n s) =>
    match src_of s with
    | None => (st, XUnsup)
    | Some src =>
      let '(r, o') := layout_set (if tb then b else a) n src in
      ((if tb then (a, o') else (o', b)), XRtok (tok_of r))
    end
  | XBase (OpGet tb n) =>
    (st, XRtok (match layout_get (if tb then b else a) n with inl e => RE (- e) | inr e => RG e end))
  | XCset tb WAlias t =>
    let v := string_set t None in
    ((if tb then (a, mklay v (ly_font b)) else (mklay v (ly_font a), b)), XBool true)
  | XCset tb WLfont t =>
    let v := string_set t None in
    ((if tb then (a, mklay (ly_alias b) v) else (mklay (ly_alias a) v, b)), XBool true)
  | XLreset tb => ((if tb then (a, def_layout) else (def_layout, b)), XBool true)
  | XConv tb q => let '(r, pl) := layout_convert q in (st, XConvR r pl)
  | _ => (st, XUnsup)
  end.
Fixpoint lrun (st : layoutobj * layoutobj) (ops : list xop) : list xout :=
  match ops with
  | [] => []
  | p :: r => let '(st', t) := lstep st p in (t, layout_props (fst st'), layout_props (snd st')) :: lrun st' r
  end.
