(* C20/LayoutCxxModel.v — executable model (NO proofs) of what the mpt++ classes add to the C functions
   (mpt++/layout.cpp, mpt++/graph.cpp, mpt++/item_group.cpp as far as properties are concerned):
     - constructors with arguments, clone(), struct-level copy construction / assignment,
     - the direct setters text::set_value / set_font, world::set_alias, layout::set_alias / set_font / reset,
     - convert() of every class for the request types a caller can form,
     - an mpt++ object as value source of a NAMED property (its convert() hands out a colour),
     - layout::graph: add_axis / add_world, items of the group (create + append), bind() driven by the "axes" /
       "worlds" properties, update_transform / transform_flags,
     - class layout: properties alias (name) and font,
     - object::set(const object &) (every property of another object by value: inheritance of layout items, graphs made
       from plain graph data), text::set(metatype &), the whole-object query (property "") and the query without record,
       the cycles of the bound worlds, the limits the transformation takes from the bound axes,
       mpt_lattr_set (mptplot/layout/lattr_set.c).
   AS PATCHED: graph::cycle / set_cycle refuse a position behind the bound worlds (docs/C20_cycle_range.diff); the
   whole-object query compares the members only (docs/C20_total_padding.diff). *)
Require Import List String Ascii NArith ZArith Bool.
Import ListNotations.
From MptV Require Import C20.LayoutTypes C20.LayoutConv C20.Gen_Layout C20.LayoutModel.
Local Open Scope Z_scope.

(* ---- constructors ---- *)
(* kind code 0..4 as default_of; arg: the constructor argument (axis: AxisFlags, world: cycles), None = default *)
Definition cxx_construct (kind : N) (arg : option Z) : anyobj :=
  match arg with
  | None => cxx_new kind
  | Some z => if N.eqb kind 0 then cxx_new_axis z else if N.eqb kind 4 then cxx_new_world z else cxx_new kind
  end.

(* ---- convert() ---- *)
Inductive creq := QMe | QCptr | QObj | QMeta | QGrp | QColl | QOtherPtr | QStr | QBad | QFmt0 | QColor | QLattr | QLine.
Inductive cret := CrErr (e : Z) | CrMe | CrCptr | CrObj | CrMeta | CrArr | CrColl | CrColor | CrLattr | CrLine | CrGrp.
Inductive cpay := CpNone | CpSelf | CpFmt (b : bytes) | CpColor (c : color) | CpLattr (l : lattr) | CpLine (c : color) (fx : N).

(* what the untouched destination of the harness holds *)
Definition untouched (q : creq) : cpay :=
  match q with
  | QColor => CpColor (mkcol 4 1 2 3)
  | QLattr => CpLattr (mklattr 9 9 9 9)
  | QLine => CpLine col_black 0%N
  | _ => CpNone
  end.

Definition cxx_convert (o : anyobj) (q : creq) : cret * cpay :=
  let bad := (CrErr BadType, untouched q) in
  match o with
  | OAxis _ =>
    match q with
    | QMe => (CrMe, CpSelf) | QFmt0 => (CrMe, CpFmt [132%N])
    | QMeta | QObj => (CrCptr, CpSelf) | QCptr => (CrObj, CpSelf)
    | _ => bad
    end
  | OWorld x =>
    match q with
    | QMe => (CrMe, CpSelf) | QFmt0 => (CrMe, CpFmt [132%N])
    | QMeta | QObj => (CrCptr, CpSelf) | QCptr => (CrObj, CpSelf)
    | QColor => (CrMe, CpColor (wl_color x)) | QLattr => (CrMe, CpLattr (wl_attr x))
    | _ => bad
    end
  | OText x =>
    match q with
    | QMe => (CrMe, CpSelf) | QFmt0 => (CrMe, CpFmt [132%N])
    | QMeta | QObj => (CrCptr, CpSelf) | QCptr => (CrObj, CpSelf)
    | QColor => (CrMe, CpColor (tx_color x))
    | _ => bad
    end
  | OLine x =>
    match q with
    | QMe => (CrMe, CpSelf) | QFmt0 => (CrMe, CpFmt [132%N])
    | QMeta | QObj => (CrLine, CpSelf)
    | QLine => (CrObj, CpLine (li_color x) (li_fx x))
    | _ => bad
    end
  | OGraph x =>
    match q with
    | QMe => (CrMe, CpSelf) | QFmt0 => (CrMe, CpFmt [132%N])
    | QObj => (CrCptr, CpSelf) | QCptr => (CrObj, CpSelf)
    | QColor => (CrMe, CpColor (gr_fg x))
    | QGrp => (CrArr, CpNone) | QColl => (CrGrp, CpNone) | QMeta => (CrGrp, CpSelf)
    | _ => bad
    end
  end.

(* an mpt++ object as the source of a NAMED property: only a colour request is answered (text, world: color;
   graph: foreground), every other request is refused like for a plain object source *)
Definition cxx_named_source (o : anyobj) : source :=
  match o with
  | OText x => SValue (VCol (c_a (tx_color x)) (c_r (tx_color x)) (c_g (tx_color x)) (c_b (tx_color x)))
  | OWorld x => SValue (VCol (c_a (wl_color x)) (c_r (wl_color x)) (c_g (wl_color x)) (c_b (wl_color x)))
  | OGraph x => SValue (VCol (c_a (gr_fg x)) (c_r (gr_fg x)) (c_g (gr_fg x)) (c_b (gr_fg x)))
  | _ => SObj o
  end.

(* ---- direct setters: mpt_string_set(&member, text) ---- *)
Inductive cwhich := WValue | WFont | WAlias | WLfont.
(* result: the bool the C++ method returns, new object; None: the class has no such method *)
Definition cxx_cset (o : anyobj) (w : cwhich) (t : option bytes) : option (bool * anyobj) :=
  let v := string_set t None in
  match o, w with
  (* text::set_value / set_font: AS PATCHED (docs/c20_proposed_layout_object.diff) they report success; the code in
     /repo returns the int of mpt_string_set converted to bool, i.e. false when the text is cleared — the clearing
     cases are generated only when the tree contains the patch *)
  | OText x, WValue => Some (true, OText (set_tx_value v x))
  | OText x, WFont => Some (true, OText (set_tx_font v x))
  (* world::set_alias: mpt_string_set(..) < 0 ? false : true *)
  | OWorld x, WAlias => Some (true, OWorld (set_wl_alias v x))
  | _, _ => None
  end.

(* ---- mpt_lattr_set(attr, width, style, symbol, size) ---- *)
Definition lattr_set4 (a : lattr) (w st sy sz : Z) : sres * lattr :=
  if (LineWidthMax <? w) || (LineStyleMax <? st) || (SymbolTypeMax <? sy) || (SymbolSizeMax <? sz) then (SFail BadValue, a)
  else (SOk, mklattr (if 0 <=? st then st else 1) (if 0 <=? w then w else 1) (if 0 <=? sy then sy else 0) (if 0 <=? sz then sz else 10)).

(* ---- the whole-object query (property ""): 1 when a member differs from the default object (AS PATCHED: members,
   not the padding of the struct) ---- *)
Definition col_eqb (a b : color) : bool := N.eqb (c_a a) (c_a b) && N.eqb (c_r a) (c_r b) && N.eqb (c_g a) (c_g b) && N.eqb (c_b a) (c_b b).
Definition lat_eqb (a b : lattr) : bool :=
  Z.eqb (la_style a) (la_style b) && Z.eqb (la_width a) (la_width b) && Z.eqb (la_symbol a) (la_symbol b) && Z.eqb (la_size a) (la_size b).
(* string members: the default holds no string, a string that is set never has the default's (null) pointer *)
Definition str_unset (s : option bytes) : bool := match s with None => true | Some _ => false end.
Definition obj_is_default (o : anyobj) : bool :=
  match o with
  | OAxis x => str_unset (ax_title x) && N.eqb (ax_begin x) (ax_begin def_axis) && N.eqb (ax_end x) (ax_end def_axis)
               && N.eqb (ax_tlen x) (ax_tlen def_axis) && Z.eqb (ax_exp x) 0 && Z.eqb (ax_intv x) 0 && Z.eqb (ax_sub x) 0
               && Z.eqb (ax_format x) 0 && Z.eqb (ax_dec x) 0 && Z.eqb (ax_lpos x) 0 && Z.eqb (ax_tpos x) 0
  | OLine x => col_eqb (li_color x) col_black && lat_eqb (li_attr x) def_lattr && N.eqb (li_fx x) 0 && N.eqb (li_fy x) 0
               && N.eqb (li_tx x) 0 && N.eqb (li_ty x) 0
  | OText x => str_unset (tx_value x) && str_unset (tx_font x) && col_eqb (tx_color x) col_black && Z.eqb (tx_size x) (tx_size def_text)
               && Z.eqb (tx_weight x) (tx_weight def_text) && Z.eqb (tx_style x) (tx_style def_text) && Z.eqb (tx_align x) (tx_align def_text)
               && N.eqb (tx_px x) (tx_px def_text) && N.eqb (tx_py x) (tx_py def_text) && N.eqb (tx_angle x) 0
  | OGraph x => str_unset (gr_axes x) && str_unset (gr_worlds x) && col_eqb (gr_fg x) col_black && col_eqb (gr_bg x) (gr_bg def_graph)
                && N.eqb (gr_px x) 0 && N.eqb (gr_py x) 0 && N.eqb (gr_sx x) (gr_sx def_graph) && N.eqb (gr_sy x) (gr_sy def_graph)
                && Z.eqb (gr_grid x) 0 && Z.eqb (gr_align x) 0 && Z.eqb (gr_frame x) 0 && Z.eqb (gr_clip x) 0 && Z.eqb (gr_lpos x) 0
  | OWorld x => str_unset (wl_alias x) && col_eqb (wl_color x) col_black && lat_eqb (wl_attr x) def_lattr && Z.eqb (wl_cyc x) 0
  end.
Definition kind_name (o : anyobj) : bytes :=
  match o with OAxis _ => bs "axis" | OLine _ => bs "line" | OText _ => bs "text" | OGraph _ => bs "graph" | OWorld _ => bs "world" end.
Definition obj_total (o : anyobj) : pent := mkpent (kind_name o) (TBadType 0) PNone (if obj_is_default o then 0 else 1).

(* ---- object::set(const object &from, logger): every property of the other object, in the order of its table, by
   value: a string through mpt_object_set_string, everything else through mpt_object_set_value.  With a logger a
   refused property is reported and the copy goes on, without one it stops there.  The result is the count
   mpt_object_foreach returns (properties - 1, or -1 after a stop) converted to bool. ---- *)
Definition src_of_pent (e : pent) : option source :=
  match pe_type e, pe_val e with
  | TStr, PStr s => Some (SText (Some (match s with Some t => t | None => [] end)) no_torc)
  | TF64, PF64 b => Some (SValue (VD b None))
  | TF32, PF32 b => Some (SValue (VF b 0))
  | TI16, PInt z => Some (SValue (VI 110 z 0 0))
  | TU8, PInt z => Some (SValue (VI 121 z 0 0))
  | TU32, PInt z => Some (SValue (VI 117 z 0 0))
  | TChr, PChr z => Some (SValue (VC z))
  | TColor, PCol a r g b => Some (SValue (VCol a r g b))
  | TFpoint, PPt x y => Some (SValue (VPt x y))
  | _, _ => None
  end.
Fixpoint copy_props (log : bool) (es : list pent) (tg : anyobj) (n : Z) : Z * anyobj :=
  match es with
  | [] => (n - 1, tg)
  | e :: r =>
    match src_of_pent e with
    | None => if log then copy_props log r tg (n + 1) else (-1, tg)
    | Some s =>
      match cxx_set_property tg (Some (pe_name e)) (Some s) with
      | (SOk, tg') => copy_props log r tg' (n + 1)
      | (SFail _, tg') => if log then copy_props log r tg' (n + 1) else (-1, tg')
      end
    end
  end.
Definition object_set_from (log : bool) (tg src : anyobj) : bool * anyobj :=
  let '(r, tg') := copy_props log (obj_listed src) tg 0 in (negb (r =? 0), tg').

(* ---- a text metatype (the value of a parsed configuration node, mpt_meta_new) as source: it answers the character
   vector request with its text and the terminating NUL, and 's' with the text (a null pointer when empty), nothing else.
   mpt_string_pset takes the vector; every other conversion sees a plain 's' value. ---- *)
Definition meta_string (t : bytes) : option bytes := string_set (Some (app t [0%N])) (Some (S (List.length t))).
Definition meta_value (t : bytes) : source := SValue (VS (match t with [] => None | _ => Some t end)).
Definition is_str_field (o : anyobj) (n : bytes) : bool :=
  match o with
  | OAxis _ => match axis_field_of n with Some AxTitle => true | _ => false end
  | OLine _ => false
  | OText _ => match text_field_of n with Some TxValue | Some TxFont => true | _ => false end
  | OGraph _ => match graph_field_of n with Some GrAxes | Some GrWorlds => true | _ => false end
  | OWorld _ => match world_field_of n with Some WlAlias => true | _ => false end
  end.
Definition put_str_field (o : anyobj) (n : bytes) (v : option bytes) : anyobj :=
  match o with
  | OAxis x => OAxis (set_ax_title v x)
  | OLine x => OLine x
  | OText x => match text_field_of n with Some TxFont => OText (set_tx_font v x) | _ => OText (set_tx_value v x) end
  | OGraph x => match graph_field_of n with Some GrWorlds => OGraph (set_gr_worlds v x) | _ => OGraph (set_gr_axes v x) end
  | OWorld x => OWorld (set_wl_alias v x)
  end.
(* set_property(name, metatype) for a named property (name not empty) *)
Definition meta_set (o : anyobj) (n : bytes) (t : bytes) : sres * anyobj :=
  if is_str_field o n then (SOk, put_str_field o n (meta_string t))
  else cxx_set_property o (Some n) (Some (meta_value t)).

(* ---- layout::graph: bound axes / worlds, items, transformation ---- *)
Inductive gitem := GIAxis (o : axis) | GIWorld (o : world) | GILine (o : line) | GIText (o : text) | GIGraph (o : graph).
Definition gi_obj (it : gitem) : anyobj :=
  match it with GIAxis x => OAxis x | GIWorld x => OWorld x | GILine x => OLine x | GIText x => OText x | GIGraph x => OGraph x end.
Definition gi_of (o : anyobj) : gitem :=
  match o with OAxis x => GIAxis x | OWorld x => GIWorld x | OLine x => GILine x | OText x => GIText x | OGraph x => GIGraph x end.
Definition items_t := list (option bytes * gitem).
(* gx_lim: limits (min, max) of the three dimensions of the transformation, gx_cyc: per bound world the stage count of
   its cycle once one exists *)
Record gextra := mkgx { gx_items : items_t;
                        gx_axes : list (option bytes * axis); gx_worlds : list (option bytes * world);
                        gx_tr : bool; gx_lim : list (N * N); gx_cyc : list (option Z) }.
Definition DBL_MIN : N := 4503599627370496%N.
Definition DBL_MAX : N := 9218868437227405311%N.
Definition lim0 : list (N * N) := [(DBL_MIN, DBL_MAX); (DBL_MIN, DBL_MAX); (DBL_MIN, DBL_MAX)].
Definition gx_empty := mkgx [] [] [] false lim0 [].

(* item_group::create(type) *)
Definition typed_axis (f : Z) : axis := set_ax_format (Z.land f 3) def_axis.
Definition create_item (ty : bytes) : option gitem :=
  if eqs ty "line" then Some (GILine def_line)
  else if eqs ty "text" then Some (GIText def_text)
  else if eqs ty "graph" then Some (GIGraph def_graph)
  else if eqs ty "world" then Some (GIWorld def_world)
  else if eqs ty "axis" then Some (GIAxis def_axis)
  else if eqs ty "xaxis" then Some (GIAxis (typed_axis 1))
  else if eqs ty "yaxis" then Some (GIAxis (typed_axis 2))
  else if eqs ty "zaxis" then Some (GIAxis (typed_axis 3))
  else None.
(* an optional first property assignment on the new item (through its object interface) *)
Definition item_assign (it : gitem) (prop : option bytes) (s : source) : gitem :=
  match prop with
  | None => it
  | Some p => gi_of (snd (cxx_set_property (gi_obj it) (Some p) (Some s)))
  end.

(* words of a name list (mpt_convert_key without separators: white space delimited) *)
Fixpoint words_fuel (fuel : nat) (t : bytes) : list bytes :=
  match fuel with
  | O => []
  | S f =>
    match skip_space t with
    | [] => []
    | r => let w := take_word r in w :: words_fuel f (skipn (List.length w) r)
    end
  end.
Definition words (t : bytes) : list bytes := words_fuel (S (List.length t)) t.

Definition name_is (n : option bytes) (w : bytes) : bool := match n with Some x => beq x w | None => false end.
(* collection::relation::find: a name is split at the first '.'; item_group hands out no nested collection, so only a
   name without a rest behind the '.' can be found (the item named by the part before it) *)
Fixpoint split_dot (w : bytes) : bytes * option bytes :=
  match w with
  | [] => ([], None)
  | c :: r => if N.eqb c 46 then ([], Some r) else let '(p, q) := split_dot r in (c :: p, q)
  end.
Definition find_key (w : bytes) : option bytes :=
  match split_dot w with (p, None) => Some p | (p, Some []) => Some p | _ => None end.
(* the name a found item is bound under: the part behind the last ':' *)
Fixpoint last_seg (w : bytes) : bytes :=
  match w with
  | [] => []
  | c :: r => if existsb (N.eqb 58) r then last_seg r else if N.eqb c 58 then r else c :: r
  end.
Fixpoint find_axis (items : items_t) (w : bytes) : option axis :=
  match items with
  | [] => None
  | (n, GIAxis x) :: r => if name_is n w then Some x else find_axis r w
  | _ :: r => find_axis r w
  end.
Fixpoint find_world (items : items_t) (w : bytes) : option world :=
  match items with
  | [] => None
  | (n, GIWorld x) :: r => if name_is n w then Some x else find_world r w
  | _ :: r => find_world r w
  end.
(* search through the levels of a relation (the own items first, then the parents') *)
Fixpoint find_chain {A} (f : items_t -> bytes -> option A) (chain : list items_t) (w : bytes) : option A :=
  match chain with
  | [] => None
  | l :: r => match f l w with Some x => Some x | None => find_chain f r w end
  end.
Definition find_rel {A} (f : items_t -> bytes -> option A) (chain : list items_t) (w : bytes) : option A :=
  match find_key w with Some p => find_chain f chain p | None => None end.
Fixpoint bind_names {A} (find : bytes -> option A) (ws : list bytes) : option (list (option bytes * A)) :=
  match ws with
  | [] => Some []
  | w :: r => match find w, bind_names find r with
              | Some x, Some l => Some ((Some (last_seg w), x) :: l)
              | _, _ => None
              end
  end.
Definition all_axes (items : items_t) : list (option bytes * axis) :=
  flat_map (fun it => match it with (n, GIAxis x) => [(n, x)] | _ => [] end) items.
Definition all_worlds (items : items_t) : list (option bytes * world) :=
  flat_map (fun it => match it with (n, GIWorld x) => [(n, x)] | _ => [] end) items.
(* a graph among the items is bound in turn; it has no items of its own here, so its bind succeeds when every name of
   its "axes" / "worlds" lists is found through the relation *)
Definition names_found {A} (f : items_t -> bytes -> option A) (names : option bytes) (chain : list items_t) : bool :=
  match names with
  | None => true
  | Some t => forallb (fun w => match find_rel f chain w with Some _ => true | None => false end) (words t)
  end.
Definition sub_bind_ok (sg : graph) (chain : list items_t) : bool :=
  names_found find_axis (gr_axes sg) chain && names_found find_world (gr_worlds sg) chain.

(* layout::graph::bind(rel, out): chain = the levels rel searches (without rel: the graph's own items).
   Ok 1 or the error, new bound lists (restored on failure); new world bindings have no cycle yet *)
Definition graph_bind_rel (g : graph) (x : gextra) (chain : list items_t) : Z * gextra :=
  let ax := match gr_axes g with
            | None => Some (all_axes (gx_items x))
            | Some names => bind_names (find_rel find_axis chain) (words names)
            end in
  match ax with
  | None => (- MissingData, x)
  | Some al =>
    let wl := match gr_worlds g with
              | None => Some (all_worlds (gx_items x))
              | Some names => bind_names (find_rel find_world chain) (words names)
              end in
    match wl with
    | None => (- MissingData, x)
    | Some wl' =>
      if forallb (fun it => match snd it with GIGraph sg => sub_bind_ok sg chain | _ => true end) (gx_items x)
      then (1, mkgx (gx_items x) al wl' (gx_tr x) (gx_lim x) (map (fun _ => None) wl'))
      else (- MissingData, x)
    end
  end.
Definition graph_bind (g : graph) (x : gextra) : Z * gextra := graph_bind_rel g x [gx_items x].

(* update_transform(): a transformation exists from the first call that finds an axis in one of the three
   dimensions; transform_flags then reports the dimension styles 1 2 3.  The limits of a dimension are taken from its
   axis only when begin > end (swapped) or when the axis is logarithmic; otherwise they stay as they are. *)
Definition f64_nan (b : N) : bool := (N.eqb ((b / 4503599627370496) mod 2048) 2047 && negb (N.eqb (b mod 4503599627370496) 0))%N.
Definition f64_key (b : N) : Z := let m := Z.of_N (b mod 9223372036854775808) in if (b <? 9223372036854775808)%N then m else - m.
Definition f64_lt (a b : N) : bool := negb (f64_nan a) && negb (f64_nan b) && (f64_key a <? f64_key b).
Definition upd_dim (a : axis) (l : N * N) : N * N :=
  let l1 := if f64_lt (ax_end a) (ax_begin a) then (ax_end a, ax_begin a) else l in
  if axis_lg a then (ax_begin a, ax_end a) else l1.
Fixpoint upd_lims (ax : list (option bytes * axis)) (l : list (N * N)) : list (N * N) :=
  match l with
  | [] => []
  | d :: r => match ax with
              | [] => d :: r
              | (_, a) :: ar => upd_dim a d :: upd_lims ar r
              end
  end.
Definition graph_touch_tr (x : gextra) : gextra :=
  match gx_axes x with
  | [] => x
  | _ => mkgx (gx_items x) (gx_axes x) (gx_worlds x) true (upd_lims (gx_axes x) (gx_lim x)) (gx_cyc x)
  end.
Definition tr_flags (x : gextra) : list Z := if gx_tr x then [1; 2; 3] else [0; 0; 0].

(* the cycle of the bound world at a position (negative: from the end); AS PATCHED a position behind the last world
   is refused *)
Definition cyc_index (n : nat) (pos : Z) : option nat :=
  if pos <? 0 then (if pos + Z.of_nat n <? 0 then None else Some (Z.to_nat (pos + Z.of_nat n)))
  else if pos <? Z.of_nat n then Some (Z.to_nat pos) else None.
Fixpoint set_nth {A} (l : list A) (i : nat) (v : A) : list A :=
  match l, i with
  | [], _ => []
  | _ :: r, O => v :: r
  | a :: r, S j => a :: set_nth r j v
  end.

(* ---- class layout (as patched): properties alias (also "name") and font ---- *)
Record layoutobj := mklay { ly_alias : option bytes; ly_font : option bytes }.
Definition def_layout := mklay None None.
Definition layout_set (o : layoutobj) (name : option bytes) (s : option source) : sres * layoutobj :=
  match name with
  | None =>
    match s with
    | None => (SFail BadOperation, o)
    | Some src => match string_pset (ly_alias o) src with
                  | (SOk, v) => (SOk, mklay v (ly_font o))
                  | _ => (SFail BadType, o)
                  end
    end
  | Some [] => (SFail BadOperation, o)
  | Some n =>
    if ceqs n "alias" || ceqs n "name" then
      match s with
      | None => (SOk, mklay None (ly_font o))
      | Some src => match string_pset (ly_alias o) src with
                    | (SOk, v) => (SOk, mklay v (ly_font o))
                    | (r, _) => (r, o)
                    end
      end
    else if ceqs n "font" then
      match s with
      | None => (SOk, mklay (ly_alias o) None)
      | Some src => match string_pset (ly_font o) src with
                    | (SOk, v) => (SOk, mklay (ly_alias o) v)
                    | (r, _) => (r, o)
                    end
      end
    else (SFail BadArgument, o)
  end.
Definition lay_entry (name : string) (v : option bytes) : pent :=
  mkpent (bs name) TStr (PStr v) (match v with Some t => Z.of_nat (List.length t) | None => 0 end).
Definition layout_props (o : layoutobj) : list pent := [lay_entry "alias" (ly_alias o); lay_entry "font" (ly_font o)].
Definition layout_get (o : layoutobj) (n : bytes) : Z + pent :=
  if ceqs n "alias" || ceqs n "name" then inr (lay_entry "alias" (ly_alias o))
  else if ceqs n "font" then inr (lay_entry "font" (ly_font o))
  else inl (- BadArgument).
Definition layout_convert (q : creq) : cret * cpay :=
  match q with
  | QObj => (CrGrp, CpSelf)
  | QFmt0 => (CrGrp, CpFmt [135%N])
  | QGrp => (CrArr, CpNone) | QColl => (CrGrp, CpNone) | QMeta => (CrGrp, CpSelf)
  | q => (CrErr BadType, untouched q)
  end.

(* ================= operations of the mpt++ harness ================= *)
Inductive xop :=
| XBase (p : op)
| XClone (tb : bool)
| XCpy (tb : bool)
| XCset (tb : bool) (w : cwhich) (t : option bytes)
| XConv (tb : bool) (q : creq)
| XLreset (tb : bool)                                             (* layout::reset() *)
| XGadd (tb : bool) (isaxis : bool) (name : option bytes)
| XGitem (tb : bool) (ty : bytes) (name : option bytes) (prop : option bytes) (t : option bytes) (o : torc)
| XGbind (tb : bool)
| XGtr (tb : bool)
| XGbindl (tb : bool)                                             (* bind(0, logger) *)
| XGbindo (tb : bool)                                             (* bind(relation over the other graph's items, logger) *)
| XGview (tb : bool)
| XGcyc (tb : bool) (pos : Z)
| XGscyc (tb : bool) (pos : Z)
| XOset (tb : bool) (log : bool)                                  (* object::set(other object, logger) *)
| XTmeta (tb : bool) (t : option bytes)                           (* text::set(metatype &) *)
| XTot (tb : bool)                                                (* the whole-object query: property "" *)
| XPinfo (tb : bool) (cxx : bool).                                (* the query without property record *)

Inductive ghead := GhK | GhR | GhKn (n : Z) | GhE (e : Z)
                 | GhT (flags : list Z) (upd0 : bool) (lims : option (list (N * N))).
Inductive xres :=
| XRtok (t : rtok)
| XBool (b : bool)
| XConvR (r : cret) (p : cpay)
| XGraphR (h : ghead) (ax : list (option bytes * axis)) (wl : list (option bytes * world))
| XViewR (items : list (option bytes * anyobj)) (ax : list (option bytes * axis)) (wl : list (option bytes * world))
| XCycR (stages : option Z)
| XTotR (e : pent)
| XPinfoR (me : bool)
| XUnsup.

Record xstate := mkxs { xa : anyobj; xb : anyobj; xga : gextra; xgb : gextra }.

Definition upd_t (st : xstate) (tb : bool) (o : anyobj) (g : gextra) : xstate :=
  if tb then mkxs (xa st) o (xga st) g else mkxs o (xb st) g (xgb st).

Definition is_named (n : option bytes) : bool := match n with Some (_ :: _) => true | _ => false end.

Definition xstep (st : xstate) (p : xop) : xstate * xres :=
  match p with
  | XBase (OpSet tb n s) =>
    let tg := if tb then xb st else xa st in
    let ot := if tb then xa st else xb st in
    let gx := if tb then xgb st else xga st in
    let src := match s with
               | XOther => Some (if is_named n then cxx_named_source ot else SObj ot)
               | _ => resolve s ot
               end in
    let '(r, tg') := cxx_set_property tg n src in
    (* layout::graph::set_property refreshes the transformation after an accepted assignment from a source *)
    let gx' := match tg, r, src with OGraph _, SOk, Some _ => graph_touch_tr gx | _, _, _ => gx end in
    (upd_t st tb tg' gx', XRtok (tok_of r))
  | XBase p' =>
    let '((a', b'), t) := step (xa st, xb st) p' in (mkxs a' b' (xga st) (xgb st), XRtok t)
  | XClone tb =>
    (* layout::graph::clone() copies the transformation and the bound axes / worlds, not the items of the group *)
    let gx := if tb then xgb st else xga st in
    (upd_t st tb (if tb then xb st else xa st) (mkgx [] (gx_axes gx) (gx_worlds gx) (gx_tr gx) (gx_lim gx) (gx_cyc gx)), XRtok RK)
  | XCpy tb =>
    (* struct level copy (copy constructor + operator= of ::mpt::axis ..): the C struct members only *)
    (upd_t st tb (if tb then xa st else xb st) (if tb then xgb st else xga st), XRtok RK)
  | XCset tb w t =>
    match cxx_cset (if tb then xb st else xa st) w t with
    | Some (r, o') => (upd_t st tb o' (if tb then xgb st else xga st), XBool r)
    | None => (st, XUnsup)
    end
  | XConv tb q => let '(r, pl) := cxx_convert (if tb then xb st else xa st) q in (st, XConvR r pl)
  | XLreset _ => (st, XUnsup)
  | XGadd tb isaxis name =>
    match (if tb then xb st else xa st) with
    | OGraph g =>
      let gx := if tb then xgb st else xga st in
      let gx' := if isaxis then mkgx (gx_items gx) (app (gx_axes gx) [(name, def_axis)]) (gx_worlds gx) (gx_tr gx) (gx_lim gx) (gx_cyc gx)
                 else mkgx (gx_items gx) (gx_axes gx) (app (gx_worlds gx) [(name, def_world)]) (gx_tr gx) (gx_lim gx) (app (gx_cyc gx) [None]) in
      (upd_t st tb (OGraph g) gx', XGraphR GhK (gx_axes gx') (gx_worlds gx'))
    | _ => (st, XUnsup)
    end
  | XGitem tb ty name prop t o =>
    match (if tb then xb st else xa st) with
    | OGraph g =>
      let gx := if tb then xgb st else xga st in
      match create_item ty with
      | None => (st, XGraphR GhR (gx_axes gx) (gx_worlds gx))
      | Some it =>
        let it' := item_assign it prop (SText t o) in
        let gx' := mkgx (app (gx_items gx) [(name, it')]) (gx_axes gx) (gx_worlds gx) (gx_tr gx) (gx_lim gx) (gx_cyc gx) in
        (upd_t st tb (OGraph g) gx', XGraphR (GhKn (Z.of_nat (List.length (gx_items gx')))) (gx_axes gx') (gx_worlds gx'))
      end
    | _ => (st, XUnsup)
    end
  | XGbind tb =>
    match (if tb then xb st else xa st) with
    | OGraph g =>
      let gx := if tb then xgb st else xga st in
      let '(r, gx') := graph_bind g gx in
      (upd_t st tb (OGraph g) gx', XGraphR (if r <? 0 then GhE (- r) else GhKn r) (gx_axes gx') (gx_worlds gx'))
    | _ => (st, XUnsup)
    end
  | XGtr tb =>
    match (if tb then xb st else xa st) with
    | OGraph g =>
      let gx := graph_touch_tr (if tb then xgb st else xga st) in
      (upd_t st tb (OGraph g) gx,
       XGraphR (GhT (tr_flags gx) (match gx_axes gx with [] => false | _ => true end) (if gx_tr gx then Some (gx_lim gx) else None))
               (gx_axes gx) (gx_worlds gx))
    | _ => (st, XUnsup)
    end
  | XGbindl tb =>
    match (if tb then xb st else xa st) with
    | OGraph g =>
      let gx := if tb then xgb st else xga st in
      let '(r, gx') := graph_bind g gx in
      (upd_t st tb (OGraph g) gx', XGraphR (if r <? 0 then GhE (- r) else GhKn r) (gx_axes gx') (gx_worlds gx'))
    | _ => (st, XUnsup)
    end
  | XGbindo tb =>
    match (if tb then xb st else xa st) with
    | OGraph g =>
      let gx := if tb then xgb st else xga st in
      let '(r, gx') := graph_bind_rel g gx [gx_items (if tb then xga st else xgb st)] in
      (upd_t st tb (OGraph g) gx', XGraphR (if r <? 0 then GhE (- r) else GhKn r) (gx_axes gx') (gx_worlds gx'))
    | _ => (st, XUnsup)
    end
  | XGview tb =>
    match (if tb then xb st else xa st) with
    | OGraph g =>
      let gx := if tb then xgb st else xga st in
      (st, XViewR (map (fun it => (fst it, gi_obj (snd it))) (gx_items gx)) (gx_axes gx) (gx_worlds gx))
    | _ => (st, XUnsup)
    end
  | XGcyc tb pos =>
    match (if tb then xb st else xa st) with
    | OGraph g =>
      let gx := if tb then xgb st else xga st in
      match cyc_index (List.length (gx_worlds gx)) pos with
      | None => (st, XCycR None)
      | Some i =>
        match nth i (gx_cyc gx) None with
        | Some n => (st, XCycR (Some n))
        | None =>
          (* created on demand: limit_stages(cycles of the world) *)
          let n := match nth_error (gx_worlds gx) i with Some (_, w) => wl_cyc w | None => 0 end in
          (upd_t st tb (OGraph g) (mkgx (gx_items gx) (gx_axes gx) (gx_worlds gx) (gx_tr gx) (gx_lim gx) (set_nth (gx_cyc gx) i (Some n))),
           XCycR (Some n))
        end
      end
    | _ => (st, XUnsup)
    end
  | XGscyc tb pos =>
    match (if tb then xb st else xa st) with
    | OGraph g =>
      let gx := if tb then xgb st else xga st in
      match cyc_index (List.length (gx_worlds gx)) pos with
      | None => (st, XBool false)
      | Some i =>
        (upd_t st tb (OGraph g) (mkgx (gx_items gx) (gx_axes gx) (gx_worlds gx) (gx_tr gx) (gx_lim gx) (set_nth (gx_cyc gx) i (Some 0))),
         XBool true)
      end
    | _ => (st, XUnsup)
    end
  | XOset tb log =>
    let tg := if tb then xb st else xa st in
    let ot := if tb then xa st else xb st in
    let gx := if tb then xgb st else xga st in
    let '(r, tg') := object_set_from log tg ot in
    (* layout::graph::set_property refreshes the transformation after every accepted assignment *)
    (upd_t st tb tg' (match tg with OGraph _ => graph_touch_tr gx | _ => gx end), XBool r)
  | XTmeta tb t =>
    match (if tb then xb st else xa st) with
    | OText x =>
      (upd_t st tb (OText (set_tx_value (meta_string (match t with Some b => b | None => [] end)) x)) (if tb then xgb st else xga st),
       XRtok RK)
    | _ => (st, XUnsup)
    end
  | XTot tb => (st, XTotR (obj_total (if tb then xb st else xa st)))
  | XPinfo tb cxx => (st, XPinfoR (match (if tb then xb st else xa st) with OGraph _ => cxx | _ => false end))
  end.

Definition xout := (xres * list pent * list pent)%type.
Fixpoint xrun (st : xstate) (ops : list xop) : list xout :=
  match ops with
  | [] => []
  | p :: r => let '(st', t) := xstep st p in (t, obj_props (xa st'), obj_props (xb st')) :: xrun st' r
  end.

(* class layout: its own small history runner *)
Definition lstep (st : layoutobj * layoutobj) (p : xop) : (layoutobj * layoutobj) * xres :=
  let '(a, b) := st in
  let src_of (s : osrc) : option (option source) :=
    match s with
    | XReset => Some None | XText t o => Some (Some (SText t o)) | XValue v => Some (Some (SValue v))
    | XOther => None
    end in
  match p with
  | XBase (OpSet tb n s) =>
    match src_of s with
    | None => (st, XUnsup)
    | Some src =>
      let '(r, o') := layout_set (if tb then b else a) n src in
      ((if tb then (a, o') else (o', b)), XRtok (tok_of r))
    end
  | XBase (OpGet tb n) =>
    (st, XRtok (match layout_get (if tb then b else a) n with inl e => RE (- e) | inr e => RG e end))
  | XCset tb WAlias t =>
    let v := string_set t None in
    ((if tb then (a, mklay v (ly_font b)) else (mklay v (ly_font a), b)), XBool true)
  | XCset tb WLfont t =>
    let v := string_set t None in
    ((if tb then (a, mklay (ly_alias b) v) else (mklay (ly_alias a) v, b)), XBool true)
  | XLreset tb => ((if tb then (a, def_layout) else (def_layout, b)), XBool true)
  | XConv tb q => let '(r, pl) := layout_convert q in (st, XConvR r pl)
  | XTot tb => (st, XTotR (mkpent (bs "layout") TStr (PStr (ly_alias (if tb then b else a))) 0))
  | XPinfo tb _ => (st, XPinfoR true)
  | XOset tb _ =>
    (* object::set(other layout): alias and font as strings through mpt_object_set_string; two properties: count 1 *)
    let tg := if tb then b else a in
    let ot := if tb then a else b in
    let str (v : option bytes) := Some (SText (Some (match v with Some t => t | None => [] end)) no_torc) in
    let t1 := snd (layout_set tg (Some (bs "alias")) (str (ly_alias ot))) in
    let t2 := snd (layout_set t1 (Some (bs "font")) (str (ly_font ot))) in
    ((if tb then (a, t2) else (t2, b)), XBool true)
  | _ => (st, XUnsup)
  end.
Fixpoint lrun (st : layoutobj * layoutobj) (ops : list xop) : list xout :=
  match ops with
  | [] => []
  | p :: r => let '(st', t) := lstep st p in (t, layout_props (fst st'), layout_props (snd st')) :: lrun st' r
  end.
