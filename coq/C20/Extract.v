(* Extraction of the executable model and specification of C20 (ExtrOcamlBasic only). *)
From MptV Require Import C20.LayoutTypes C20.LayoutConv C20.Gen_Layout C20.LayoutModel C20.LayoutSpec C20.LayoutCxxModel C20.LayoutCxxSpec C20.LayoutLoad C20.LayoutLoadSpec.
Require Import ExtrOcamlBasic.
Require Import ZArith NArith.
Extraction "c20_model.ml" mrun srun defaults kind_no spec_match spec_colour_strict default_of cxx_new cxx_construct xrun xsrun lrun lsrun llrun slrun ls_init sl_init lattr_set4 spec_lattr4 obj_props sdump gx_empty def_layout layout_defaults obj_listed property_match color_parse color_print N.add N.mul Z.add Z.mul Z.opp.
