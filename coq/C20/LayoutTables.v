(* C20/LayoutTables.v — finite sweep over the REGENERATED read tables (Gen_Layout.v): every row hands out an
   address inside the object, of a struct member of exactly the row's value type and size, the size agrees with
   the type registry, and the fields of two rows never overlap.  Re-checked by vm_compute whenever the source
   tables change. *)
Require Import List String Ascii NArith ZArith Bool Lia.
Import ListNotations.
From MptV Require Import C20.LayoutTypes C20.Gen_Layout.

Record tabledesc := mktd { td_name : string; td_size : N; td_members : list mrow; td_rows : list trow }.

Definition all_tables : list tabledesc :=
  [ mktd "axis" axis_sizeof axis_members axis_table; mktd "line" line_sizeof line_members line_table;
    mktd "text" text_sizeof text_members text_table; mktd "text (x, y by name)" text_sizeof text_members text_table_named;
    mktd "graph" graph_sizeof graph_members graph_table; mktd "world" world_sizeof world_members world_table ].

Definition row_in_bounds (t : tabledesc) (r : trow) : bool :=
  match tr_off r with
  | None => false
  | Some off =>
    (off + tr_size r <=? td_size t)%N && N.eqb (tr_size r) (tcode_size (tr_type r)) && negb (N.eqb (tr_size r) 0)
    && existsb (fun m => N.eqb (m_off m) off && tcode_eqb (m_type m) (tr_type r) && N.eqb (m_size m) (tr_size r)) (td_members t)
  end.
Definition rows_disjoint (a b : trow) : bool :=
  match tr_off a, tr_off b with
  | Some x, Some y => ((x + tr_size a <=? y) || (y + tr_size b <=? x))%N
  | _, _ => false
  end.
Fixpoint pairwise (f : trow -> trow -> bool) (l : list trow) : bool :=
  match l with [] => true | a :: r => forallb (f a) r && pairwise f r end.
Definition table_ok (t : tabledesc) : bool := forallb (row_in_bounds t) (td_rows t) && pairwise rows_disjoint (td_rows t).

Lemma tables_sweep : forallb table_ok all_tables = true.
Proof. vm_compute. reflexivity. Qed.

Lemma pairwise_spec f l : pairwise f l = true ->
  forall i j a b, (i < j)%nat -> nth_error l i = Some a -> nth_error l j = Some b -> f a b = true.
Proof.
  induction l as [|x l IH]; intros H i j a b L A B; [destruct i; discriminate|].
  cbn in H. apply andb_true_iff in H as [H1 H2].
  destruct i as [|i]; destruct j as [|j]; try lia; cbn in A, B.
  - inversion A; subst. rewrite forallb_forall in H1. apply H1. eapply nth_error_In; eauto.
  - apply (IH H2 i j a b); [lia|exact A|exact B].
Qed.

Theorem get_table_fields_disjoint_in_bounds t : In t all_tables ->
  (forall r, In r (td_rows t) -> row_in_bounds t r = true) /\
  (forall i j a b, (i < j)%nat -> nth_error (td_rows t) i = Some a -> nth_error (td_rows t) j = Some b ->
                   rows_disjoint a b = true).
Proof.
  intros H. pose proof tables_sweep as S. rewrite forallb_forall in S. specialize (S t H).
  unfold table_ok in S. apply andb_true_iff in S as [S1 S2]. split.
  - apply forallb_forall. exact S1.
  - apply pairwise_spec. exact S2.
Qed.
