(* C20/LayoutFields2.v — the composite field setters (colour, line attribute, point, line coordinate) in
   terms of the specification's denotations. *)
Require Import List String Ascii NArith ZArith Bool Lia.
Import ListNotations.
From MptV Require Import C20.LayoutTypes C20.LayoutConv C20.Gen_Layout C20.LayoutModel C20.LayoutSpec
  C20.LayoutLemmas C20.LayoutFields C20.LayoutColour.
Local Open Scope Z_scope.

Lemma col_field_spec {O} src (o : O) cur def wr : exists e,
  col_field (Some src) o cur def wr =
  match den_col src with
  | DVal (PCol a r g b) => (SOk, wr (mkcol a r g b) o)
  | DKeep => (SOk, wr cur o)
  | _ => (SFail e, o)
  end.
Proof.
  unfold col_field. pose proof (color_pset_spec cur src) as P.
  destruct (color_pset cur src) as [r v]. unfold col_apply in P. cbn [fst snd] in P.
  destruct (den_col_cases src) as [E|[E|(a & rr & g & b & E)]]; rewrite E in *; inversion P as [[P1 P2]];
    destruct r; cbn [sok] in P1; try discriminate; subst; eauto; exists 0; reflexivity.
Qed.

Lemma lat_field_spec {O} src (o : O) cur def hi wr : 0 <= hi <= 255 -> exists e,
  lat_field (Some src) o cur def 0 hi wr =
  match den_attr (Some (PInt cur)) hi src with
  | DRefuse => (SFail e, o)
  | DDefault => (SOk, wr def o)
  | DKeep => (SOk, wr cur o)
  | DVal (PInt v) => (SOk, wr v o)
  | DVal _ => (SOk, wr cur o)
  end.
Proof.
  intros H. unfold lat_field. rewrite (lattr_pset_spec cur src def hi H).
  destruct (den_attr_cases cur hi src) as [E|[E|[E|[v E]]]]; rewrite E; eauto; exists 0; reflexivity.
Qed.

Lemma pt_field_spec {O} src (o : O) rmax dx dy wr : exists e,
  pt_field (Some src) o rmax dx dy wr =
  match den_pt rmax src with
  | DRefuse => (SFail e, o)
  | DDefault => (SOk, wr dx dy o)
  | DVal (PPt x y) => (SOk, wr x y o)
  | _ => (SOk, o)
  end.
Proof.
  unfold pt_field, den_pt. destruct (fpoint_set src 0%N rmax); eauto; exists 0; reflexivity.
Qed.

Lemma line_pos_spec src o wr : exists e,
  line_pos (Some src) o wr =
  match den_pos src with
  | DRefuse => (SFail e, o)
  | DDefault => (SOk, wr 0%N o)
  | DKeep => (SOk, o)
  | DVal (PF32 v) => (SOk, wr v o)
  | DVal _ => (SOk, o)
  end.
Proof.
  unfold line_pos, den_pos. destruct (src_number NF32 src); eauto; try (exists 0; reflexivity).
  destruct (src_number NF64 src); eauto; exists 0; reflexivity.
Qed.

Lemma den_pos_cases s :
  den_pos s = DRefuse \/ den_pos s = DDefault \/ den_pos s = DKeep \/ exists v, den_pos s = DVal (PF32 v).
Proof.
  unfold den_pos. destruct (src_number NF32 s); eauto 6. destruct (src_number NF64 s); eauto 6.
Qed.
