(* C20/LayoutCxxSpec.v — specification side of the mpt++-only operations (no proofs): on the listed properties
   clone() changes nothing, a struct-level copy makes the properties equal to the other object's, the direct setters
   assign the text to their property, an mpt++ object assigned to a colour property gives its colour, convert() and
   the graph's item handling do not touch the properties (their own results are the mechanism's, LayoutCxxModel). *)
Require Import List String Ascii NArith ZArith Bool.
Import ListNotations.
From MptV Require Import C20.LayoutTypes C20.LayoutConv C20.Gen_Layout C20.LayoutModel C20.LayoutSpec C20.LayoutCxxModel.
Local Open Scope Z_scope.

(* the colour an object of the kind hands out *)
Definition colour_prop (k : kind) : option bytes :=
  match k with KText | KWorld => Some (bs "color") | KGraph => Some (bs "foreground") | _ => None end.

Definition xs_named_other (k : kind) (other : aobj) : asrc :=
  match colour_prop k with
  | Some p => match aget other p with Some (PCol a r g b) => ASrc (SValue (VCol a r g b)) | _ => AOther end
  | None => AOther
  end.

Definition cset_prop (k : kind) (w : cwhich) : option bytes :=
  match k, w with
  | KText, WValue => Some (bs "value") | KText, WFont => Some (bs "font") | KWorld, WAlias => Some (bs "alias")
  | _, _ => None
  end.

(* ---- copying every property by value (object::set(const object &)) ----
   the value of a property as a source: a string as text, everything else as a typed value *)
Definition src_of_pval (v : pval) : option source :=
  match v with
  | PStr s => Some (SText (Some (match s with Some t => t | None => [] end)) no_torc)
  | PF64 b => Some (SValue (VD b None))
  | PF32 b => Some (SValue (VF b 0))
  | PInt z => Some (SValue (VI 120 z 0 0))
  | PChr z => Some (SValue (VC z))
  | PCol a r g b => Some (SValue (VCol a r g b))
  | PPt x y => Some (SValue (VPt x y))
  | PNone => None
  end.
(* the properties of the source in their order; a property the target refuses is skipped (log) or ends the copy *)
Fixpoint spec_copy (k : kind) (log : bool) (props : aobj) (tg : aobj) : aobj :=
  match props with
  | [] => tg
  | (n, v) :: r =>
    match src_of_pval v with
    | None => if log then spec_copy k log r tg else tg
    | Some s => let '(acc, tg') := sset k tg tg (Some n) (ASrc s) in
                if acc || log then spec_copy k log r tg' else tg'
    end
  end.
(* is the object as a whole at its documented defaults? *)
Definition all_default (k : kind) (o : aobj) : bool :=
  forallb (fun nv => pval_eqb (snd nv) (ok_default k (fst nv))) o.

(* mpt_lattr_set: every argument is taken when it is at most the attribute's maximum, a negative one stands for the
   default; one argument beyond its maximum refuses the whole call.  Result (width, style, symbol, size). *)
Definition attr_value (def hi v : Z) : option Z := if hi <? v then None else Some (if v <? 0 then def else v).
Definition spec_lattr4 (w st sy sz : Z) : option (Z * Z * Z * Z) :=
  match attr_value 1 10 w, attr_value 1 5 st, attr_value 0 8 sy, attr_value 10 20 sz with
  | Some a, Some b, Some c, Some d => Some (a, b, c, d)
  | _, _, _, _ => None
  end.

Inductive xsres := XsTok (t : stok) | XsBool | XsOpen | XsUnsup | XsTot (changed : bool).

Definition xsstep (k : kind) (st : aobj * aobj) (p : xop) : (aobj * aobj) * xsres :=
  let '(a, b) := st in
  match p with
  | XBase (OpSet tb n XOther) =>
    let tg := if tb then b else a in
    let ot := if tb then a else b in
    let '(acc, tg') := sset k tg ot n (if is_named n then xs_named_other k ot else AOther) in
    ((if tb then (a, tg') else (tg', b)), XsTok (if acc then TK else TR))
  | XBase p' => let '(st', t) := sstep k st p' in (st', XsTok t)
  | XClone _ => (st, XsTok TK)
  | XCpy tb => ((if tb then (a, a) else (b, b)), XsTok TK)
  | XCset tb w t =>
    match cset_prop k w with
    | Some p => let v := PStr (nonempty t) in
                ((if tb then (a, aput b p v) else (aput a p v, b)), XsBool)
    | None => (st, XsUnsup)
    end
  | XLreset _ => (st, XsUnsup)
  | XOset tb log =>
    ((if tb then (a, spec_copy k log a b) else (spec_copy k log b a, b)), XsBool)
  | XTmeta tb t =>
    match k with
    | KText => let v := PStr (Some (match t with Some x => x | None => [] end)) in
               ((if tb then (a, aput b (bs "value") v) else (aput a (bs "value") v, b)), XsTok TK)
    | _ => (st, XsUnsup)
    end
  | XTot tb => (st, XsTot (negb (all_default k (if tb then b else a))))
  | _ => (st, XsOpen)
  end.
Fixpoint xsrun (k : kind) (st : aobj * aobj) (ops : list xop) : list (xsres * list sent * list sent) :=
  match ops with
  | [] => []
  | p :: r => let '(st', t) := xsstep k st p in (t, sdump k (fst st'), sdump k (snd st')) :: xsrun k st' r
  end.

(* class layout *)
Definition layout_defaults : aobj := [(bs "alias", PStr None); (bs "font", PStr None)].
Definition lsdump (o : aobj) : list sent :=
  map (fun nv => mksent (fst nv) (snd nv) (negb (pval_eqb (snd nv) (PStr None)))) o.
Definition lay_name (n : bytes) : option bytes :=
  if in_names n ["alias"; "name"] then Some (bs "alias") else if in_names n ["font"] then Some (bs "font") else None.
Definition lsstep (st : aobj * aobj) (p : xop) : (aobj * aobj) * xsres :=
  let '(a, b) := st in
  let put (tb : bool) (p : bytes) (v : pval) := if tb then (a, aput b p v) else (aput a p v, b) in
  match p with
  | XBase (OpSet tb n s) =>
    let target := match n with None => Some (bs "alias") | Some [] => None | Some m => lay_name m end in
    match target, s with
    | _, XOther => (st, XsUnsup)
    | None, _ => (st, XsTok TR)
    | Some p, XReset => match n with None => (st, XsTok TR) | _ => (put tb p (PStr None), XsTok TK) end
    | Some p, XText t o => (put tb p (PStr (nonempty t)), XsTok TK)
    | Some p, XValue v => match den_str (SValue v) with
                          | DVal x => (put tb p x, XsTok TK)
                          | _ => (st, XsTok TR)
                          end
    end
  | XBase (OpGet tb n) =>
    (st, XsTok (match lay_name n with
                | Some p => match aget (if tb then b else a) p with
                            | Some v => TG (mksent p v (negb (pval_eqb v (PStr None))))
                            | None => TR
                            end
                | None => TR
                end))
  | XCset tb WAlias t => (put tb (bs "alias") (PStr (nonempty t)), XsBool)
  | XCset tb WLfont t => (put tb (bs "font") (PStr (nonempty t)), XsBool)
  | XLreset tb => ((if tb then (a, layout_defaults) else (layout_defaults, b)), XsBool)
  | XConv _ _ => (st, XsOpen)
  | XPinfo _ _ => (st, XsOpen)
  | XTot tb => (st, XsTok (match aget (if tb then b else a) (bs "alias") with
                           | Some v => TG (mksent (bs "layout") v false)
                           | None => TR
                           end))
  | XOset tb _ => ((if tb then (a, a) else (b, b)), XsBool)
  | _ => (st, XsUnsup)
  end.
Fixpoint lsrun (st : aobj * aobj) (ops : list xop) : list (xsres * list sent * list sent) :=
  match ops with
  | [] => []
  | p :: r => let '(st', t) := lsstep st p in (t, lsdump (fst st'), lsdump (snd st')) :: lsrun st' r
  end.
