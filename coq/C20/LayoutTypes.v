(* C20/LayoutTypes.v — vocabulary shared by the generated tables (Gen_Layout.v), the mechanism model and
   the specification: byte strings, value type codes, property values as the public get interface shows
   them, rows of the read tables and of the struct member layout.  No proofs. *)
Require Import List String Ascii NArith ZArith Bool.
Import ListNotations.

Definition bytes := list N.

(* names are written as Coq string literals and used as byte lists *)
Definition bs (s : string) : bytes := map N_of_ascii (list_ascii_of_string s).

Fixpoint beq (a b : bytes) : bool :=
  match a, b with
  | [], [] => true
  | x :: a', y :: b' => N.eqb x y && beq a' b'
  | _, _ => false
  end.

(* value type of a property as handed out by mpt_*_get: 's' 'd' 'f' 'n' 'y' 'u' 'c', the dynamic ids of
   color / fpoint / lineattr, anything else (e.g. a negative placeholder) *)
Inductive tcode := TStr | TF64 | TF32 | TI16 | TU8 | TU32 | TChr | TColor | TFpoint | TLattr | TBadType (raw : Z).

Definition tcode_eqb (a b : tcode) : bool :=
  match a, b with
  | TStr, TStr | TF64, TF64 | TF32, TF32 | TI16, TI16 | TU8, TU8 | TU32, TU32 | TChr, TChr
  | TColor, TColor | TFpoint, TFpoint | TLattr, TLattr => true
  | TBadType x, TBadType y => Z.eqb x y
  | _, _ => false
  end.

(* size in bytes of a value of that type (type registry of mptcore; pointers are 8 bytes) *)
Definition tcode_size (t : tcode) : N :=
  match t with
  | TStr => 8 | TF64 => 8 | TF32 => 4 | TI16 => 2 | TU8 => 1 | TU32 => 4 | TChr => 1
  | TColor => 4 | TFpoint => 8 | TLattr => 4 | TBadType _ => 0
  end%N.

(* a property value as read through the public interface; floats are IEEE bit patterns *)
Inductive pval :=
| PStr (s : option bytes)          (* char *: None = NULL *)
| PF64 (bits : N)
| PF32 (bits : N)
| PInt (z : Z)                     (* 'n' 'y' 'u' *)
| PChr (z : Z)                     (* 'c', as unsigned byte *)
| PCol (a r g b : N)
| PPt (x y : N)                    (* two binary32 patterns *)
| PNone.                           (* not readable (bad type / no address) *)

Definition opt_beq (a b : option bytes) : bool :=
  match a, b with
  | None, None => true
  | Some x, Some y => beq x y
  | _, _ => false
  end.

Definition pval_eqb (a b : pval) : bool :=
  match a, b with
  | PStr x, PStr y => opt_beq x y
  | PF64 x, PF64 y => N.eqb x y
  | PF32 x, PF32 y => N.eqb x y
  | PInt x, PInt y => Z.eqb x y
  | PChr x, PChr y => Z.eqb x y
  | PCol a1 r1 g1 b1, PCol a2 r2 g2 b2 => N.eqb a1 a2 && N.eqb r1 r2 && N.eqb g1 g2 && N.eqb b1 b2
  | PPt x1 y1, PPt x2 y2 => N.eqb x1 x2 && N.eqb y1 y2
  | PNone, PNone => true
  | _, _ => false
  end.

(* read table row: name, description, value type, offset of the address handed out (None: not inside
   the object), size of the value type according to the type registry *)
Record trow := mkt { tr_name : bytes; tr_desc : bytes; tr_type : tcode; tr_off : option N; tr_size : N }.
(* struct member: name, offset, size, type *)
Record mrow := mkm { m_name : bytes; m_off : N; m_size : N; m_type : tcode }.
