"""C14 — node trees stay structurally sound (mptcore/node/*.c)."""
import random
import vcheck
from vcheck import DiffProperty

ARITY = {"new": 2, "after": 2, "before": 2, "add": 3, "nadd": 3, "ins": 3, "nins": 3, "unlink": 1, "move": 2,
         "lmove": 2, "clone": 1, "lclone": 1, "tclone": 1, "clear": 1, "destroy": 1, "swap": 2, "switch": 2,
         "relink": 1, "trav": 3, "find": 3, "next": 2, "end": 0,
         "fclone": 2, "flclone": 2, "ftclone": 2, "loc": 3, "walk": 4,
         "zadd": 3, "zaddn": 3, "zins": 3, "zmove": 1, "zpos": 1, "zunlink": 0, "zdestroy": 0, "zrelink": 0,
         "zclone": 0, "zlclone": 0, "ztclone": 0, "ztrav": 2, "ztravh": 1, "zloc": 1, "zfind": 0, "znext": 0,
         "zsame": 1, "zsub": 1, "parse": 4, "zparse": 1, "snew": 2}
NAMES = ["-", "a", "b", "c"]
# L: a text of 21 characters (needs an allocation of its own in a default node and in a clone); B: a binary identifier;
# M: a text of 29 characters (allocation of its own in a default node; the node of a clone is made big enough)
NAMES_X = ["-", "a", "b", "c", "L", "M"]
# T<n>: a text of n characters.  mpt_node_new makes nodes of 64, 128 or 256 bytes, i.e. with room for 20, 84 or 212 bytes
# of identifier data (terminator included): n = 19, 83, 211 fill a node exactly (_len == _max, the last length kept
# inside the node), one more needs an allocation of its own (_len > _max).  `new` makes the default node and sets the
# name, `snew` sizes the node for the name the way node_append.c does, a clone sizes it for the source's _len.
CAPS = (20, 84, 212)
T_EDGE = [18, 19, 20, 21, 23, 24, 25, 82, 83, 84, 85, 87, 88, 89, 210, 211, 212, 213, 215, 216, 217, 230]
T_FILL = [19, 83, 211]


def tname_len(nm):
    """stored length (_len) of the text name T<n>, None for the other names"""
    return int(nm[1:]) + 1 if nm[0] == "T" and nm[1:].isdigit() else None


def node_room(ln):
    """ident._max of the node mpt_node_new(ln) makes (node_new.c)"""
    need, size = ln + 40, 64
    if 64 < need <= 256:
        while size < need:
            size *= 2
    return size - 44


def clone_allocs(nm):
    """mpt_identifier_copy into the node mpt_node_clone made has to allocate (NodeModel.v: name_alloc)"""
    if nm == "L":
        return True
    ln = tname_len(nm)
    return ln is not None and ln > node_room(ln)
QUERIES = ["ta", "tb", "tc", "tL", "tM", "t-", "pa", "ua", "xa", "Ba", "Bb", "U0", "E", "p6", "pu", "pn"]
ORDERS = ["pre", "in", "post", "level"]
# positions of a case line that are numbers but not node indices (for the renumbering shrinker)
NOT_A_NODE = {"new": (1, 2), "snew": (1, 2), "add": (2,), "nadd": (2,), "ins": (2,), "nins": (2,), "trav": (1, 2), "find": (2, 3), "next": (2,),
              "fclone": (1,), "flclone": (1,), "ftclone": (1,), "loc": (2, 3), "walk": (1, 2, 3), "zadd": (1, 2),
              "zaddn": (1, 3), "zins": (1, 3), "zpos": (1,), "ztrav": (1, 2), "zloc": (1,), "zsame": (1,), "zsub": (1,),
              "parse": (2, 3, 4)}

# ---- switches for defects of /repo that are reported with a patch but not committed yet.  While a switch is False
# the generator leaves out the cases that run into the defect (the model is written for the patched code).
# docs/C14_clone_ident_fail.diff: mpt_node_clone goes on with the destroyed copy after a failed mpt_identifier_copy.
# Left out while False: clones with an allocation failure (fclone/flclone/ftclone) in histories that have a node
# with the long name L (the only identifier mpt_identifier_copy allocates for).
PATCHED_CLONE_IDENT_FAIL = True
# docs/C14_locate_ptr_ident.diff: mpt_node_locate(.., ident, 0, charset != 0) compares the pointer only, not the
# length, on the forward and the last-node path.  Left out while False: the query token "pn" (NULL, 0, UTF8).
PATCHED_LOCATE_PTR = True


def allowed(case):
    t = case.split()
    if not PATCHED_CLONE_IDENT_FAIL and any(x in ("fclone", "flclone", "ftclone") for x in t):
        for i in range(len(t) - 1):
            if t[i] in ("new", "snew") and clone_allocs(t[i + 1]):
                return False
    if not PATCHED_LOCATE_PTR and "pn" in t:
        return False
    return True


# ----------------------------------------------------------------------------- configuration texts for mpt_parse_node
# A parsed forest is a list of (name, kids): kids is None for an option "name = v", a list for a section "name { .. }".
# The case line carries the text (hex) for the harness and the forest it denotes (token) for the model:
#   parse <root> <K|E> <hex> <token>      K: the parser succeeds; E: it fails after having delivered <token>
def forest_token(f):
    if not f:
        return "-"
    return "".join(nm + ("." if k is None else "(" + (forest_token(k) if k else "") + ")") for nm, k in f)


def token_forest(tok):
    if tok == "-":
        return []

    def items(i):
        out = []
        while i < len(tok) and tok[i] != ")":
            nm = tok[i]
            if tok[i + 1] == ".":
                out.append((nm, None))
                i += 2
            else:
                k, i = items(i + 2)
                out.append((nm, k))
                i += 1
        return out, i
    return items(0)[0]


def forest_size(f):
    return sum(1 + forest_size(k or []) for nm, k in f)


def forest_prefix(f, n):
    """the first n nodes (text order) of the forest, as a forest"""
    left = [n]

    def go(l):
        out = []
        for nm, k in l:
            if left[0] <= 0:
                break
            left[0] -= 1
            out.append((nm, None if k is None else go(k)))
        return out
    return go(f)


def forest_lines(rng, f, noise):
    """lines of a text in the default format that denotes f; each with (depth after the line, nodes created so far)"""
    lines = []
    made = [0]

    def junk(d):
        while rng.random() < noise:
            lines.append((rng.choice(["", "  ", "# note", "\t# a = v", "#", " # b {"]), d, made[0]))

    def go(l, d):
        for nm, k in l:
            junk(d)
            ind = rng.choice(["", " ", "  ", "\t"]) * d
            made[0] += 1
            if k is None:
                lines.append((ind + nm + rng.choice([" = v", "=v", " =v", "  =  v", " = v  "]), d, made[0]))
            else:
                lines.append((ind + nm + rng.choice([" {", "{", "  {"]), d + 1, made[0]))
                go(k, d + 1)
                junk(d + 1)
                lines.append((ind + "}", d, made[0]))
        junk(d)
    go(f, 0)
    return lines


def parse_op(rng, root, f, kind="K", noise=0.15):
    """the tokens of one parse operation: kind K (well-formed), E1 (a closing brace too many at the end),
    E2 (the text ends inside a section), E3 (a closing brace too many between top-level elements)"""
    lines = forest_lines(rng, f, noise)
    if kind == "E2":
        cuts = [i + 1 for i, (_, d, _) in enumerate(lines) if d > 0]
        if not cuts:
            kind = "E1"
    if kind == "E3":
        cuts = [i + 1 for i, (_, d, _) in enumerate(lines) if d == 0] + [0]
    if kind == "K":
        text = [l for l, _, _ in lines]
        part = f
    elif kind == "E1":
        text = [l for l, _, _ in lines] + ["}"]
        part = f
    else:
        c = rng.choice(cuts)
        text = [l for l, _, _ in lines[:c]]
        part = forest_prefix(f, lines[c - 1][2] if c else 0)
        if kind == "E3":
            text += ["}"] + [l for l, _, _ in lines[c:]]
    t = "".join(l + "\n" for l in text)
    if text and kind != "E2" and rng.random() < 0.1:
        t = t[:-1]          # no newline at the end of the text
    return ["parse", str(root), "K" if kind == "K" else "E", t.encode().hex() if t else "-", forest_token(part)]


def random_forest(rng, maxn, depth=3, names="abc"):
    left = [rng.randint(1, maxn) if maxn > 0 else 0]

    def go(d):
        out = []
        while left[0] > 0 and rng.random() < (0.85 if d == 0 else 0.6):
            left[0] -= 1
            nm = rng.choice(names)
            if d < depth - 1 and rng.random() < 0.45:
                out.append((nm, go(d + 1)))
            else:
                out.append((nm, None))
        return out
    return go(0)


# ----------------------------------------------------------------------------- generator-side tracker
class Tracker:
    """Forest bookkeeping used only to GENERATE meaningful histories and to label them
    (it decides nothing: a history it misjudges merely has calls skipped with token X)."""

    def __init__(self):
        self.name = {}
        self.val = {}
        self.par = {}      # id -> parent id or None
        self.kids = {}     # id -> ordered child ids
        self.tops = []     # top-level sibling lists
        self.count = 0
        self.labels = set()
        self.room = {}     # id -> bytes of identifier data the node has room for (ident._max)

    # -- helpers
    def alive(self, x):
        return x in self.name

    def sibs(self, x):
        p = self.par[x]
        if p is not None:
            return self.kids[p]
        for l in self.tops:
            if x in l:
                return l
        raise KeyError(x)

    def unlinked(self, x):
        return self.alive(x) and self.par[x] is None and self.sibs(x) == [x]

    def sub(self, x):
        out = [x]
        for k in self.kids[x]:
            out += self.sub(k)
        return out

    def depth_below(self, x):
        return 1 + max([self.depth_below(k) for k in self.kids[x]], default=0)

    def anc_or_eq(self, a, p):
        while p is not None:
            if p == a:
                return True
            p = self.par[p]
        return False

    def top(self, x):
        while self.par[x] is not None:
            x = self.par[x]
        return x

    def can_link(self, p, x):
        return self.alive(p) and self.unlinked(x) and not self.anc_or_eq(x, p)

    def fresh(self, nm, v=0, room=20):
        i = self.count
        self.count += 1
        self.name[i] = nm
        self.room[i] = room
        self.val[i] = v
        self.par[i] = None
        self.kids[i] = []
        return i

    def detach(self, x):
        l = self.sibs(x)
        l.remove(x)
        if self.par[x] is None and not l:
            self.tops.remove(l)
        self.par[x] = None

    def place(self, x, l, k, par):
        self.detach(x)
        l.insert(k, x)
        self.par[x] = par

    def gpos(self, n, pos):
        if pos == 0:
            return n
        if pos > 0:
            return pos - 1 if pos <= n else n
        return n + pos if -pos < n else 0

    def npos(self, l, nm, pos):
        ms = [i for i, y in enumerate(l) if self.name[y] == nm]
        if not ms:
            return len(l)
        if pos == 0:
            return ms[-1] + 1
        if pos > 0:
            return ms[pos - 1] if pos <= len(ms) else ms[-1] + 1
        return ms[len(ms) - 1 + pos] + 1 if -pos < len(ms) else ms[0]

    def index(self, byname, l, x, pos):
        self.labels.add("pos:" + ("0" if pos == 0 else "1" if pos == 1 else "+n" if pos > 0 else "-n"))
        if byname:
            if any(self.name[y] == self.name[x] for y in l):
                self.labels.add("byname-with-same-name-present")
            return self.npos(l, self.name[x], pos)
        return self.gpos(len(l), pos)

    def free(self, x):
        for k in list(self.kids[x]):
            self.free(k)
        ln = tname_len(self.name[x])
        if ln is not None:
            r = self.room.get(x, 20)
            self.labels.add("released:name-%s" % ("fills-the-node" if ln == r else "inside-the-node" if ln < r else "allocated"))
        del self.name[x], self.par[x], self.kids[x], self.val[x]

    def clone(self, srcs, k, deep):
        """mpt_node_clone / list_clone / tree_clone of the nodes `srcs` (with what is below them when `deep`);
        k = number of the allocation that fails (0: none).  A failed clone has consumed ids, nothing else."""
        plan = []          # (name, val, parent index in plan or None)
        st = {"k": k, "n": 0}

        def tick():
            if st["k"] == 0:
                return False
            st["k"] -= 1
            return st["k"] == 0

        def one(x, par):
            if self.val[x] == 3:
                return False
            if tick():
                return False
            st["n"] += 1
            me = len(plan)
            plan.append((self.name[x], self.val[x], par))
            if clone_allocs(self.name[x]) and tick():
                return False
            if deep:
                for c in self.kids[x]:
                    if not one(c, me):
                        return False
            return True
        ok = True
        for x in srcs:
            if not one(x, None):
                ok = False
                break
        if not ok:
            self.count += st["n"]
            self.labels.add("clone-fails")
            return False
        ids = []
        top = []
        for nm, v, par in plan:
            c = self.fresh(nm, v, node_room(tname_len(nm) or 0))
            ids.append(c)
            if par is None:
                top.append(c)
            else:
                self.par[c] = ids[par]
                self.kids[ids[par]].append(c)
        self.tops.append(top)
        return True

    def move_l(self, src, srcpar, dst, dstpar):
        """node_move.c on id lists (in place); returns the count"""
        m = 0
        for s in list(src):
            d = next((y for y in dst if self.name[y] == self.name[s]), None)
            if d is None:
                src.remove(s)
                dst.append(s)
                self.par[s] = dstpar
                m += 1
                continue
            self.labels.add("merge-overlap")
            if self.kids[s]:
                if self.kids[d]:
                    self.labels.add("merge-recursive")
                    m += self.move_l(self.kids[s], s, self.kids[d], d)
                else:
                    for k in self.kids[s]:
                        self.par[k] = d
                        m += 1
                    self.kids[d] = self.kids[s]
                    self.kids[s] = []
                    self.labels.add("merge-reparent")
        return m

    # -- apply one operation (list of tokens); returns False when the guard fails
    def apply(self, o):
        op = o[0]
        I = lambda s: -1 if s == "-" else int(s)
        if op in ("new", "snew"):
            self.tops.append([self.fresh(o[1], int(o[2]), node_room((tname_len(o[1]) or 0) if op == "snew" else 0))])
            if o[1] in ("L", "B", "M"):
                self.labels.add("name:" + o[1])
            ln = tname_len(o[1])
            if ln is not None:
                room = node_room(ln if op == "snew" else 0)
                self.labels.add("name-length:%s:%s" % (op, "fills-the-node" if ln == room else "one-less" if ln == room - 1
                                                       else "one-more" if ln == room + 1 else "inside" if ln < room else "outside"))
            if o[2] == "3":
                self.labels.add("value:unclonable")
            return True
        if op in ("after", "before"):
            p, x = I(o[1]), I(o[2])
            if p < 0 or x < 0 or p == x:
                self.labels.add("null-or-self-arg")
                return (p < 0 or self.alive(p)) and (x < 0 or self.alive(x))
            if not self.can_link(p, x):
                return False
            l = self.sibs(p)
            self.place(x, l, l.index(p) + (1 if op == "after" else 0), self.par[p])
            if op == "before" and l[0] == x:
                self.labels.add("before-first")
            if op == "after" and l[-1] == x:
                self.labels.add("after-last")
            return True
        if op in ("add", "nadd"):
            f, pos, x = int(o[1]), int(o[2]), int(o[3])
            if not (self.can_link(f, x) and self.sibs(f)[0] == f):
                return False
            l = self.sibs(f)
            self.place(x, l, self.index(op == "nadd", l, x, pos), self.par[f])
            return True
        if op in ("ins", "nins"):
            p, pos, x = int(o[1]), int(o[2]), int(o[3])
            if not self.can_link(p, x):
                return False
            l = self.kids[p]
            if not l:
                self.labels.add("first-child")
            self.place(x, l, self.index(op == "nins", l, x, pos), p)
            if self.par[p] is not None:
                self.labels.add("depth>=2")
            return True
        if op == "unlink":
            x = int(o[1])
            if not self.alive(x):
                return False
            l = self.sibs(x)
            self.labels.add("unlink:" + ("single" if len(l) == 1 else "first" if l[0] == x else "last" if l[-1] == x else "middle"))
            if not self.unlinked(x):
                self.detach(x)
                self.tops.append([x])
            return True
        if op == "move":
            p, d = int(o[1]), int(o[2])
            if not (self.alive(p) and self.alive(d) and self.sibs(d)[0] == d):
                return False
            if self.sibs(self.top(p)) is self.sibs(self.top(d)):
                return False
            self.move_l(self.kids[p], p, self.sibs(d), self.par[d])
            return True
        if op == "lmove":
            s, d = int(o[1]), int(o[2])
            if not (self.unlinked(s) and self.alive(d) and self.sibs(d)[0] == d) or self.top(d) == s:
                return False
            src = self.sibs(s)
            self.move_l(src, None, self.sibs(d), self.par[d])
            if not src:
                self.tops.remove(src)
            return True
        if op in ("clone", "lclone", "tclone", "fclone", "flclone", "ftclone"):
            k = int(o[1]) if op[0] == "f" else 0
            x = int(o[-1])
            op = op[1:] if op[0] == "f" else op
            if not self.alive(x):
                return False
            if k:
                self.labels.add("clone-oom")
            if op == "clone":
                self.clone([x], k, False)
                return True
            l = self.sibs(x)
            src = [x] if op == "tclone" else l[l.index(x):]
            if max(self.depth_below(y) for y in src) >= 3:
                self.labels.add("clone-depth>=2")
            if len(src) > 1:
                self.labels.add("clone-list>1")
            self.clone(src, k, True)
            return True
        if op == "clear":
            x = int(o[1])
            if not self.alive(x):
                return False
            if any(self.kids[k] for k in self.kids[x]):
                self.labels.add("clear-nested")
            for k in list(self.kids[x]):
                self.free(k)
            self.kids[x] = []
            return True
        if op == "destroy":
            x = int(o[1])
            if not self.alive(x):
                return False
            if not self.unlinked(x):
                self.labels.add("destroy-refused")
                return True
            if self.kids[x]:
                self.labels.add("destroy-subtree")
            self.tops.remove(self.sibs(x))
            self.free(x)
            return True
        if op in ("swap", "switch"):
            a, b = int(o[1]), int(o[2])
            if not (self.alive(a) and self.alive(b)):
                return False
            if a == b:
                return True
            if self.anc_or_eq(a, b) or self.anc_or_eq(b, a):
                return False
            if op == "swap":
                self.kids[a], self.kids[b] = self.kids[b], self.kids[a]
                for k in self.kids[a]:
                    self.par[k] = a
                for k in self.kids[b]:
                    self.par[k] = b
            else:
                la, lb = self.sibs(a), self.sibs(b)
                ia, ib = la.index(a), lb.index(b)
                if la is lb and abs(ia - ib) == 1:
                    self.labels.add("switch-adjacent")
                if ia == 0 or ib == 0:
                    self.labels.add("switch-first")
                la[ia], lb[ib] = b, a
                self.par[a], self.par[b] = self.par[b], self.par[a]
            return True
        if op in ("relink", "trav"):
            return self.alive(int(o[-1]))
        if op in ("find", "next"):
            return self.alive(int(o[1]))
        if op == "loc":
            self.labels.add("loc:" + o[3])
            self.labels.add("loc-pos:" + ("0" if o[2] == "0" else "+" if int(o[2]) > 0 else "-"))
            return self.alive(int(o[1]))
        if op == "walk":
            self.labels.add("walk:" + o[1])
            if o[3] != "0":
                self.labels.add("walk-stop")
            x = int(o[4])
            if self.alive(x) and o[1] == "level":
                l = self.sibs(x)
                if max(self.depth_below(y) for y in l[l.index(x):]) >= 3:
                    self.labels.add("walk:level-depth>=3")
            return self.alive(x)
        if op[0] == "z":
            self.labels.add("null-call:" + op)
            a = {"zadd": 3, "zaddn": 2, "zins": 2, "zmove": 1, "ztravh": 1, "zparse": 1}.get(op)
            return True if a is None else self.alive(int(o[a]))
        if op == "parse":
            x, ok, f = int(o[1]), o[2] == "K", token_forest(o[4])
            if not self.alive(x):
                return False
            self.count += 1             # the scratch node of mpt_parse_node

            def mk(items, par):
                ids = []
                for nm, k in items:
                    i = self.fresh(nm, 4 if k is None else 0)
                    self.par[i] = par
                    ids.append(i)
                    self.kids[i] = mk(k or [], i)
                    if k and par is not None:
                        self.labels.add("parse:depth>=3")
                return ids
            new = mk(f, None)
            if not ok:
                self.labels.add("parse:error" + ("-with-nodes" if new else "-no-node"))
                if self.kids[x]:
                    self.labels.add("parse:error-root-has-children")
                for i in new:
                    self.free(i)
                return True
            if not self.kids[x]:
                self.labels.add("parse:new" if new else "parse:nothing-into-childless")
                self.kids[x] = new
            elif new:
                self.labels.add("parse:merge")
                old = set(self.name[k] for k in self.kids[x])
                nw = set(self.name[k] for k in new)
                self.labels.add("parse:merge-" + ("overlap" if old & nw else "disjoint"))
                self.move_l(self.kids[x], x, new, None)
                for k in list(self.kids[x]):
                    self.free(k)
                self.kids[x] = new
            else:
                self.labels.add("parse:nothing-keeps-children")
                return True
            for i in self.kids[x]:
                self.par[i] = x
            return True
        if op == "end":
            return True
        raise ValueError(op)


def split_ops(case):
    t = case.split()
    ops = []
    i = 0
    while i < len(t):
        n = ARITY[t[i]]
        ops.append(t[i:i + n + 1])
        i += n + 1
    return ops


class C14(DiffProperty):
    pid = "C14"
    coq_dir = "C14"
    extract_vo = "C14/Extract.vo"
    mlname = "c14_model"
    driver = "c14_driver.ml"
    harness_src = "c14_node.c"
    libs = ["mptcore"]
    harness_env = vcheck.ASAN_LEAK_ENV
    rule = ("a case is a history (<= 20 operations + final clean-up) over a population of <= 8 created nodes (names from "
            "{unnamed,a,b,c, L = a text that does not fit the node, M = a text a sized node has room for, B = a binary "
            "identifier, T<n> = a text of n characters for the 22 lengths around what a node of 64/128/256 bytes has room "
            "for: 18..21, 23..25, 82..85, 87..89, 210..213, 215..217, 230 — one less, exactly filling (19/83/211), one more "
            "= allocated; made in a default node (new), in a node sized for the name as node_append.c does (snew) and in "
            "the node a clone gets}, values from {none,1,2, 3 = a value that refuses to be cloned}) plus whatever cloning adds: new, "
            "gnode_after/before, gnode_add/node_add and gnode_insert/node_insert at positions {0,1,n,-n} (by position and by "
            "name), unlink, node_move of a child list or a local list into a list with overlapping names, node/list/tree "
            "clone (depth >= 2) also with the k-th allocation of the call failing (malloc seam) or an unclonable value at "
            "every place of the source, clear, destroy, gnode_swap/switch/relink, traversal in pre/in/post/level order with "
            "the depths the handler is told and a handler that ends the traversal at its k-th call, node_find/node_next, "
            "mpt_node_locate from every node with 16 kinds of query (text, explicit charset, binary, unnamed, identifier "
            "without data, length without data), every entry point with a NULL node, mpt_parse_node (parse_node.c) of a "
            "configuration text in the default format (<= 7 options/sections named a,b,c, nested up to depth 3, blank and "
            "comment lines) into any live node: without children, with children (overlapping and disjoint names), a text "
            "without elements (empty, blanks, comments only), a text with an error (closing brace too many at the end or "
            "between elements, end of text inside a section), refused calls (no root, no context, unknown format); "
            "after EVERY operation the harness dumps "
            "all raw links, its own well-formedness verdict and the shape; a case is non-trivial when at least one node gets "
            "linked; distinct = distinct case text")
    modelled = ("mptcore/node/{gnode_after,gnode_before,gnode_pos,node_insert,node_locate,node_unlink,node_move,node_clone,"
                "tree_clone,node_clear,node_destroy,gnode_swap,gnode_relink,gnode_traverse (all four orders, handler result, "
                "depth),gnode_level,node_find,node_next}.c transcribed in coq/C14/NodeModel.v over a pointer heap; "
                "mptcore/parse/parse_node.c (mpt_parse_node) in coq/C14/ParseModel.v as a composition of those operations: "
                "the scratch node on its stack is a heap cell (allocated first, released at the return), the elements the "
                "parser delivers are mpt_node_new + mpt_gnode_insert(section, 0, node) in text order (node_append.c and the "
                "parser are not transcribed: the text enters the model as the tree it denotes, written next to the text "
                "in the case by the generator that produced the text from that tree), then: error -> mpt_node_clear of the "
                "scratch node; root without children -> root takes the list and the re-parent loop (the model of "
                "gnode_swap(scratch, root): the same stores plus one into the dying scratch cell); both have children -> "
                "mpt_node_move(&root->children, list), mpt_node_clear(root), take the list; nothing parsed -> root untouched; an "
                "identifier is modelled as a name code with equality (the harness uses 7 identifiers of 4 kinds plus the "
                "texts T<n> of n characters, code 100 + n, for which the model computes from node_new.c's sizes whether the "
                "copy in a clone needs an allocation of its own; where the bytes of a name live — inside the node up to "
                "_len == _max, allocated beyond — is not modelled: the harness runs every length around the three node "
                "sizes through new/snew/clone and release under ASan/LSan; a query "
                "of mpt_node_locate is translated to the code of the identifier it denotes by a table in the driver, the "
                "same table as actual arguments is in the harness); allocation failure is modelled for the clone functions "
                "(an oracle names the malloc of the call that fails), not for mpt_node_new/mpt_identifier_set called "
                "directly; node_clone.c is modelled as patched by docs/C14_clone_ident_fail.diff and node_locate.c as "
                "patched by docs/C14_locate_ptr_ident.diff (the cases that tell the difference are switched off until the "
                "patches are committed: PATCHED_* in props/c14.py); identifiers that carry a pointer instead of data "
                "(charset != 0, length 0, no API creates them) are not modelled as node names")
    trusted = ["harness/c14_node.c reads every node's next/prev/parent/children from its own table after each operation and "
               "computes the well-formedness verdict itself; nodes enter the table when mpt_node_new allocates them (the "
               "harness compiles node_new.c and identifier.c itself with malloc replaced by a seam that can fail its k-th "
               "call); freed memory is recognised by ASan poisoning; LeakSanitizer is run after the final clean-up",
               "the history language skips calls that violate the callers' obligations of the C interface (inserting a "
               "node that is still linked or an ancestor of the position; merging lists of the same tree); the same guard "
               "is evaluated by harness, model and specification",
               "the table query token -> (ident, len, charset) in the harness and query token -> denoted name code in "
               "ml/c14_driver.ml",
               "parse: the generator writes text and denoted tree (for a text with an error: the part built before the "
               "parser gives up) into the case; that they belong together is checked on every run by the comparison itself "
               "(number, order, names, nesting and values of the nodes the real parser creates are in the link dump); the "
               "harness reserves the table index of the scratch node with a block it has released already"]
    level = "proof"
    level_text = ("proof: Coq theorems C14_step_refines_forest / C14_history_refines_forest / C14_wf_preserved / "
                  "C14_wf_links / C14_released_once / C14_cleanup_releases_all / C14_clone_equal_shape / C14_clone_succeeds / "
                  "C14_walk_calls / C14_parse_node_refines_forest state, for every heap that represents an ordered forest (any "
                  "number of nodes, depth, names) "
                  "and EVERY history of the history language — new, gnode_after/before, gnode_add/node_add and "
                  "gnode_insert/node_insert at every position code (by position and by name), unlink, mpt_node_move (merge "
                  "of lists with overlapping names, recursively, from a child list or a local list), node/list/tree clone "
                  "whatever fails on the way (an unclonable value, the k-th allocation), clear, destroy, gnode_swap, "
                  "gnode_switch (also of adjacent siblings), gnode_relink, traversal in pre/in/post/level order with a handler "
                  "that may end it, node_find/node_next/node_locate from any node, the entry points with a NULL node, "
                  "mpt_parse_node into any node for any parsed tree and either outcome of the parser (scratch list, adopt / "
                  "merge + clear + adopt / leave alone / clear on error) and the "
                  "final clean-up — that the transcribed pointer mechanism never dereferences NULL or freed memory, never frees "
                  "twice, returns what the forest operation returns and after EVERY step has exactly the links the "
                  "resulting forest dictates — which implies every explicit link rule (next/prev agree, every child names "
                  "its parent, children = list head, parent and next chains end, pointers name live cells) —, that every "
                  "id is in the forest once or freed once and after the clean-up all ids are freed exactly once, that "
                  "a cloned list has the source's shape at every depth with parent links or, when the clone fails, the forest "
                  "is as before and everything built is freed once, and that a traversal calls the handler for exactly the "
                  "nodes and depths of the order (level order: level by level) up to the call that ends it; no hypothesis "
                  "restricts the operations; the model is tied to the code on every run by differential execution of histories "
                  "under ASan/UBSan/LSan with a full raw-link dump and an independent well-formedness verdict after every "
                  "operation")
    level_note = ("Trusted: Coq kernel; hand transcription of mptcore/node/*.c (validated by the correspondence run, not "
                  "verified); identifiers are modelled as name codes with equality (7 identifiers of 4 kinds and texts of 22 "
                  "lengths around the capacities of the three node sizes in the runs; the storage of the name bytes, inside "
                  "the node or allocated, is exercised on every run, not modelled; the "
                  "translation of mpt_node_locate's (ident,len,charset) into the code it denotes is a table in driver and "
                  "harness); the configuration parser and node_append.c are not modelled (C08/C09): a text is represented by the "
                  "tree it denotes, delivered as mpt_node_new + mpt_gnode_insert calls below a scratch cell, and the tail of "
                  "mpt_parse_node (root->children = list; re-parent loop) by the model of gnode_swap(scratch, root), which makes "
                  "the same stores to root and the list; malloc failure is modelled inside the clone functions only (not in "
                  "mpt_node_append); two defects of /repo are reported "
                  "with patches (docs/C14_clone_ident_fail.diff, docs/C14_locate_ptr_ident.diff): the model follows the "
                  "patched code and the generator leaves out the cases that reach them until the switches PATCHED_* in "
                  "props/c14.py are flipped; the guards of the history language (insert only unlinked nodes, never below "
                  "themselves; merge only lists of different top-level lists; swap/switch only nodes that are not "
                  "ancestor-related) are callers' obligations, evaluated identically by harness, model and specification; "
                  "extraction (ExtrOcamlBasic) and OCaml driver; harness. Theorems are closed under the global context (no "
                  "axioms).")
    technique = "Coq refinement proof (pointer heap -> ordered forests, zipper frame rule, every operation) + differential correspondence check"
    assumptions = ["malloc succeeds outside the clone functions (inside them its failure is part of the case)",
                   "callers insert only unlinked nodes and never below themselves (guards of the history language)"]

    harness_args = ("10",)   # per-case timeout in seconds (a cyclic list makes the library loop for ever)

    def corpus(self):
        # regressions of defects that are reported but not committed yet wait for their switch
        return [c for c in DiffProperty.corpus(self) if allowed(c)]

    def run(self, tier, seed, replay=None):
        # LeakSanitizer's stop-the-world scan after the clean-up: every case in the quick tier,
        # every 4th case in the (much larger, heavily parallel) thorough tier
        env = dict(vcheck.ASAN_LEAK_ENV)
        env["C14_LSAN_EVERY"] = "1" if tier == "quick" or replay else "4"
        self.harness_env = env
        return DiffProperty.run(self, tier, seed, replay=replay)

    def split(self, case):
        return [], split_ops(case)

    def fail_op(self, case, r, kind):
        d = r.get(kind)
        if d is None or d[0] < 0:
            return None
        ops = split_ops(case)
        return ops[d[0]][0] if d[0] < len(ops) else "?"

    def shrink(self, case, kind, workdir, budget=12):
        """greedy shrink that keeps the operation at which the traces first differ, so that
        different defects are not shrunk into the same smallest one"""
        res, _ = self.evaluate([case], workdir, tagsuffix="_shr0")
        want = self.fail_op(case, res[0], kind)
        cur = case
        for rnd in range(budget):
            cands = []
            seen = set()
            for c in self.shrink_candidates(cur):
                if c not in seen and c != cur:
                    seen.add(c)
                    cands.append(c)
                if len(cands) >= 400:
                    break
            if not cands:
                break
            res, _ = self.evaluate(cands, workdir, tagsuffix="_shr")
            better = [c for c, r in zip(cands, res) if r[kind] is not None and r[kind][0] >= 0
                      and (want is None or self.fail_op(c, r, kind) == want)]
            if not better:
                break
            cur = min(better, key=len)
        return cur

    def project(self, tok):
        # property level: result, freed pattern, well-formedness verdict, shape (not the raw link table)
        p = tok.split("|")
        if len(p) != 4:
            return tok
        fr = "".join("x" if c == "x" else "." for c in p[1].split(";"))
        return "|".join([p[0], fr, p[2], p[3]])

    def shrink_candidates(self, case):
        ops = split_ops(case)
        if ops and ops[-1] == ["end"]:
            body, tail = ops[:-1], [["end"]]
        else:
            body, tail = ops, []
        for k in range(1, len(body)):
            yield self.join([], body[:k])
            yield self.join([], body[:k] + tail)
        for k in range(len(body)):
            rest = body[:k] + body[k + 1:]
            yield self.join([], rest + tail)
            if body[k][0] in ("new", "snew"):
                # drop the node and renumber the references behind it
                tr = Tracker()
                for o in body[:k]:
                    tr.apply(o)
                i = tr.count
                ren = []
                ok = True
                for o in body[k + 1:]:
                    o = list(o)
                    for j in range(1, len(o)):
                        if j in NOT_A_NODE.get(o[0], ()):
                            continue
                        if o[j].lstrip("-").isdigit() and o[j] != "-":
                            v = int(o[j])
                            if v == i:
                                ok = False
                            elif v > i:
                                o[j] = str(v - 1)
                    ren.append(o)
                if ok:
                    yield self.join([], body[:k] + ren + tail)

    def classify(self, case):
        tr = Tracker()
        cl = set()
        linked = False
        for o in split_ops(case):
            try:
                ok = tr.apply(o)
            except Exception:
                ok = False
                cl.add("tracker-lost")
            cl.add("op:" + o[0] + ("" if ok else ":skipped"))
            if ok and o[0] in ("after", "before", "add", "nadd", "ins", "nins", "parse"):
                linked = True
        cl |= tr.labels
        return cl if linked else set()

    # ---- generation
    def gen_history(self, rng, nops, maxnew, maxids):
        tr = Tracker()
        ops = []

        def emit(o):
            o = [str(x) for x in o]
            try:
                tr.apply(o)
            except Exception:
                pass
            ops.append(o)

        def pos(n):
            return rng.choice([0, 1, n, -n, 2, -1, -2, n + 1, -(n + 1), rng.randint(-4, 5)])

        def pick(pred):
            c = [x for x in tr.name if pred(x)]
            return rng.choice(c) if c else None

        created = 0
        while len(ops) < nops:
            r = rng.random()
            alive = list(tr.name)
            if not alive or (created < maxnew and r < (0.5 if created < 4 else 0.12)):
                if rng.random() < 0.12:
                    # a name of a length around what a node has room for
                    emit([rng.choice(["new", "snew"]), "T%d" % rng.choice(T_EDGE + T_FILL * 4), rng.choice([0, 0, 1, 2])])
                else:
                    emit(["new", rng.choice(NAMES if rng.random() < 0.3 else ["a", "b", "c", "a", "b", "a", "b", "L", "B", "M"]),
                          rng.choice([0, 0, 1, 2, 0, 0, 1, 2, 3])])
                created += 1
                # usually link the new node at once
                x = tr.count - 1
                if len(tr.name) > 1 and rng.random() < 0.85 and len(ops) < nops:
                    self.gen_link(rng, tr, emit, pos, x)
                continue
            if r < 0.08:
                # wild: arbitrary indices, possibly dead or violating a guard
                op = rng.choice(["after", "before", "add", "nadd", "ins", "nins", "unlink", "move", "lmove", "destroy",
                                 "swap", "switch", "clear", "tclone"])
                a = [rng.choice(["-"] * (1 if op in ("after", "before") else 0) + list(range(tr.count + 1))) for _ in range(2)]
                if ARITY[op] == 1:
                    emit([op, a[0] if a[0] != "-" else 0])
                elif ARITY[op] == 2:
                    emit([op, a[0], a[1]])
                else:
                    emit([op, a[0], pos(2), a[1]])
                continue
            unl = [x for x in alive if tr.unlinked(x)]
            kind = rng.choice(["link", "link", "unlink", "unlink", "move", "move", "clone", "clone", "clear", "destroy",
                               "swap", "switch", "relink", "trav", "find", "next", "walk", "walk", "loc", "null", "parse"])
            if kind == "link" and unl:
                self.gen_link(rng, tr, emit, pos, rng.choice(unl))
            elif kind == "unlink":
                emit(["unlink", rng.choice(alive)])
            elif kind == "move":
                heads = [x for x in alive if tr.sibs(x)[0] == x]
                if rng.random() < 0.7:
                    ps = [x for x in alive if tr.kids[x]]
                    if ps and heads:
                        p = rng.choice(ps)
                        ds = [d for d in heads if tr.sibs(tr.top(d)) is not tr.sibs(tr.top(p))]
                        if ds:
                            emit(["move", p, rng.choice(ds)])
                elif unl and heads:
                    s = rng.choice(unl)
                    ds = [d for d in heads if tr.top(d) != s]
                    if ds:
                        emit(["lmove", s, rng.choice(ds)])
            elif kind == "clone":
                x = rng.choice(alive)
                deep = [y for y in alive if tr.depth_below(y) >= 3]
                if deep and rng.random() < 0.6:
                    x = rng.choice(deep)
                op = rng.choice(["clone", "lclone", "tclone", "tclone", "lclone"])
                if tr.count + len(tr.sub(tr.top(x))) + 4 <= maxids:
                    if rng.random() < 0.3:
                        emit(["f" + op, rng.choice([1, 1, 2, 2, 3, 4, rng.randint(1, 9)]), x])
                    else:
                        emit([op, x])
            elif kind == "clear":
                emit(["clear", rng.choice(alive)])
            elif kind == "destroy":
                emit(["destroy", rng.choice(unl) if unl and rng.random() < 0.8 else rng.choice(alive)])
            elif kind in ("swap", "switch"):
                a = rng.choice(alive)
                cands = [b for b in alive if b == a or not (tr.anc_or_eq(a, b) or tr.anc_or_eq(b, a))]
                same = [b for b in cands if b != a and tr.sibs(a) is tr.sibs(b)]
                b = rng.choice(same) if same and rng.random() < 0.5 else rng.choice(cands)
                emit([kind, a, b])
            elif kind == "relink":
                emit(["relink", rng.choice(alive)])
            elif kind == "find":
                ps = [x for x in alive if tr.kids[x]]
                emit(["find", rng.choice(ps) if ps and rng.random() < 0.85 else rng.choice(alive),
                      rng.choice(NAMES_X), pos(2)])
            elif kind == "next":
                emit(["next", rng.choice(alive), rng.choice(NAMES_X)])
            elif kind == "walk":
                deep = [y for y in alive if tr.depth_below(y) >= 3]
                x = rng.choice(deep) if deep and rng.random() < 0.5 else rng.choice(alive)
                emit(["walk", rng.choice(ORDERS + ["level"]), rng.choice([1, 2, 3, 3, 3]),
                      rng.choice([0, 0, 1, 2, 3, rng.randint(1, 12)]), x])
            elif kind == "loc":
                emit(["loc", rng.choice(alive), pos(2), rng.choice(QUERIES)])
            elif kind == "null":
                emit(self.gen_null(rng, alive))
            elif kind == "parse" and tr.count + 10 <= maxids:
                r2 = rng.random()
                emit(parse_op(rng, rng.choice(alive), random_forest(rng, rng.choice([1, 2, 4, 6])) if r2 < 0.75 else [],
                              "K" if r2 < 0.5 or r2 >= 0.75 else rng.choice(["E1", "E2", "E3"]), rng.choice([0, 0.2])))
            elif kind == "trav":
                emit(["trav", rng.choice(["pre", "in", "post"]), rng.choice([1, 2, 3, 3]), rng.choice(alive)])
        return " ".join(" ".join(o) for o in ops + [["end"]])

    def name_length_sweep(self):
        """directed: names of every length around what a node has room for (64/128/256-byte nodes: 20/84/212 bytes
        with the terminator), in a default node (`new`), a node sized for the name (`snew`, as the parser makes it)
        and the node a clone gets; each is released by destroy, by clear of the parent, as part of a cloned tree, by
        the clean-up of a clone that fails, and found again by name"""
        cases = []
        for n in T_EDGE:
            t = "T%d" % n
            for mk in ("new", "snew"):
                cases.append("%s %s 0 end" % (mk, t))
                cases.append("%s %s 1 destroy 0 end" % (mk, t))
                cases.append("%s %s 0 clone 0 destroy 1 destroy 0 end" % (mk, t))
                # root c with the children T<n> (with a child of the same name) and a
                tree = "new c 0 %s %s 1 %s %s 0 new a 2 ins 0 0 1 ins 1 0 2 ins 0 0 3" % (mk, t, mk, t)   # 0(1T(2T),3a)
                cases.append(tree + " clear 0 end")
                cases.append(tree + " clear 1 end")
                cases.append(tree + " unlink 1 destroy 1 end")
                cases.append(tree + " tclone 0 unlink 5 destroy 5 clear 4 destroy 4 end")
                cases.append(tree + " lclone 1 clear 0 end")
                cases.append(tree + " find 0 %s 1 next 1 %s find 1 %s 0 find 0 T%d 1 end" % (t, t, t, n + 1))
                cases.append(tree + " new %s 0 nins 0 0 4 %s %s 0 nins 0 -1 5 end" % (t, mk, t))
                if mk == "new":
                    for k in range(1, 8):
                        cases.append(tree + " ftclone %d 0 end" % k)
                    for k in (2, 3, 4):
                        cases.append(tree + " flclone %d 1 tclone 0 end" % k)
                # merge: the node with the long name is superseded and released by the clear
                cases.append(tree + " new c 0 %s %s 0 ins 4 0 5 move 0 5 clear 0 end" % (mk, t))
        return cases

    def gen_null(self, rng, alive):
        x = rng.choice(alive)
        p = rng.choice([0, 1, -1, 2])
        return rng.choice([["zadd", rng.choice("gn"), p, x], ["zaddn", rng.choice("gn"), x, p], ["zins", rng.choice("gn"), x, p],
                           ["zmove", x], ["zpos", p], ["zunlink"], ["zdestroy"], ["zrelink"], ["zclone"], ["zlclone"],
                           ["ztclone"], ["ztrav", rng.choice(ORDERS), rng.choice([1, 2, 3])], ["ztravh", x], ["zloc", p],
                           ["zfind"], ["znext"], ["zsame", rng.choice([0, 1, 2])], ["zsub", rng.choice([0, 1, 2])],
                           ["zparse", x]])

    def gen_parse(self, rng):
        """mpt_parse_node into nodes without children, with children (overlapping and disjoint names, nested
        sections), with texts that have no element and texts with an error, mixed with the other operations"""
        tr = Tracker()
        ops = []

        def emit(o):
            o = [str(x) for x in o]
            try:
                tr.apply(o)
            except Exception:
                pass
            ops.append(o)
        emit(["new", rng.choice(["a", "b", "c", "-"]), rng.choice([0, 0, 1])])
        if rng.random() < 0.35:
            for _ in range(rng.randint(1, 3)):
                emit(["new", rng.choice("abc"), rng.choice([0, 1, 2])])
                x = tr.count - 1
                emit([rng.choice(["ins", "nins"]), rng.choice([y for y in tr.name if y != x and not tr.anc_or_eq(x, y)]),
                      rng.choice([0, 1, -1]), x])
        for _ in range(rng.randint(2, 5)):
            alive = list(tr.name)
            if not alive:
                break
            root = 0 if tr.alive(0) and rng.random() < 0.65 else rng.choice(alive)
            r = rng.random()
            if r < 0.5:
                emit(parse_op(rng, root, random_forest(rng, rng.choice([1, 2, 3, 5, 7])), "K", rng.choice([0, 0.15, 0.4])))
            elif r < 0.72:
                emit(parse_op(rng, root, [], "K", rng.choice([0, 0.3, 0.7])))
            else:
                emit(parse_op(rng, root, random_forest(rng, rng.choice([0, 1, 2, 4, 6])) if rng.random() < 0.85 else [],
                              rng.choice(["E1", "E2", "E2", "E3"]), rng.choice([0, 0.2])))
            alive = list(tr.name)
            if alive and rng.random() < 0.6 and tr.count < 40:
                x = rng.choice(alive)
                y = rng.choice(alive)
                k = rng.choice(["tclone", "lclone", "unlink", "clear", "walk", "trav", "swap", "switch", "move", "destroy",
                                "relink", "find", "new", "ftclone"])
                if k in ("tclone", "lclone", "unlink", "clear", "destroy", "relink"):
                    emit([k, x])
                elif k == "ftclone":
                    emit([k, rng.choice([1, 2, 3, 5]), x])
                elif k == "walk":
                    emit(["walk", rng.choice(ORDERS), 3, rng.choice([0, 0, 2]), x])
                elif k == "trav":
                    emit(["trav", rng.choice(["pre", "in", "post"]), 3, x])
                elif k == "find":
                    emit(["find", x, rng.choice("abc"), rng.choice([0, 1, -1, 2])])
                elif k == "move":
                    heads = [d for d in alive if tr.sibs(d)[0] == d and tr.sibs(tr.top(d)) is not tr.sibs(tr.top(x))]
                    if heads:
                        emit(["move", x, rng.choice(heads)])
                elif k == "new":
                    emit(["new", rng.choice("abc"), rng.choice([0, 1])])
                    n = tr.count - 1
                    emit([rng.choice(["ins", "nins", "ins"]), x, rng.choice([0, 1, -1]), n])
                else:
                    emit([k, x, y])
        return " ".join(" ".join(o) for o in ops + [["end"]])

    def parse_sweep(self):
        """directed: three kinds of root x texts (no element in several spellings, options, sections, nested,
        repeated names) x outcomes of the parser (fine, brace too many at the end / in the middle, end inside a section)"""
        rng = random.Random(20261002)
        cases = []
        t0 = [("a", None), ("b", [("c", None), ("a", [("b", None)])]), ("c", None)]
        roots = ["new c 0",
                 "new c 0 new a 1 new b 0 ins 0 0 1 ins 0 0 2 new a 0 ins 2 0 3",           # 0(1a,2b(3a))
                 "new c 0 " + " ".join(parse_op(rng, 0, t0, "K", 0))]                        # 0(2a,3b(4c,5a(6b)),7c)
        forests = [[], [("a", None)], [("b", [])], [("b", [("a", None)])], [("c", None), ("a", None)],
                   [("b", [("c", None), ("a", [("b", None)])])], [("a", [("b", None)]), ("a", None)],
                   [("c", [("a", [("b", [("c", None)])])])], [("a", []), ("b", [("a", [("c", None), ("b", None)]), ("b", None)]), ("c", [])],
                   t0]
        empties = ["-", "0a", "20200a0a", "2320780a", "2378", "0a23207b0a0a", "09230a"]
        for r in roots:
            cases.append("%s zparse 0 end" % r)
            cases.append("%s zparse 9 tclone 0 end" % r)
            for e in empties:
                cases.append("%s parse 0 K %s - end" % (r, e))
                cases.append("%s parse 0 K %s - tclone 0 clear 0 end" % (r, e))
            for f in forests:
                for kind in ("K", "K", "E1", "E2", "E3"):
                    for tail in ("end", "tclone 0 end", "parse 0 K - - unlink 2 end"):
                        cases.append("%s %s %s" % (r, " ".join(parse_op(rng, 0, f, kind, rng.choice([0, 0.3]))), tail))
                # into a node below the root, and twice in a row
                cases.append("%s %s %s end" % (r, " ".join(parse_op(rng, 0, f, "K", 0.1)), " ".join(parse_op(rng, 2, f, "K", 0.1))))
                cases.append("%s %s %s end" % (r, " ".join(parse_op(rng, 0, f, "K", 0)), " ".join(parse_op(rng, 0, f, "K", 0))))
        return cases

    def gen_level(self, rng):
        """a forest of depth up to 4 with uneven levels (childless nodes between parents), walked in every order
        from several start nodes, with and without a handler that stops"""
        ops = []
        n = 0
        par = {}
        depth = {}
        for r in range(rng.choice([1, 2, 3])):
            ops.append("new %s %d" % (rng.choice("abc"), rng.choice([0, 0, 1])))
            if n and r:
                ops.append("after %d %d" % (roots[-1], n))
                roots.append(n)
            else:
                roots = [n]
            depth[n] = 0
            n += 1
        for _ in range(rng.randint(3, 10)):
            cand = [x for x in range(n) if depth[x] < 4]
            # prefer deep and late parents so that levels get holes
            p = rng.choice(cand + [x for x in cand if depth[x] >= 1] * 2)
            ops.append("new %s 0" % rng.choice("abc"))
            ops.append("ins %d %d %d" % (p, rng.choice([0, 0, 1, -1]), n))
            depth[n] = depth[p] + 1
            n += 1
        for _ in range(rng.choice([2, 3, 4])):
            x = rng.randrange(n) if rng.random() < 0.5 else roots[0]
            ops.append("walk %s %d %d %d" % (rng.choice(["level", "level", "level", "pre", "in", "post"]),
                                             rng.choice([1, 2, 3, 3]), rng.choice([0, 0, 0, rng.randint(1, n + 1)]), x))
        return " ".join(ops) + " end"

    def gen_link(self, rng, tr, emit, pos, x):
        tg = [p for p in tr.name if p != x and not tr.anc_or_eq(x, p)]
        if not tg:
            return
        p = rng.choice(tg)
        k = rng.choice(["after", "before", "add", "nadd", "ins", "nins", "ins", "nins"])
        if k in ("after", "before"):
            emit([k, p, x])
        elif k in ("add", "nadd"):
            f = tr.sibs(p)[0] if rng.random() < 0.9 else p
            emit([k, f, pos(len(tr.sibs(p))), x])
        else:
            emit([k, p, pos(len(tr.kids[p])), x])

    def gen_merge(self, rng):
        """two trees of depth 3 with overlapping names, merged, then cleared / cloned / destroyed"""
        ops = []
        n = 0

        def tree(names2):
            nonlocal n
            root = n
            ops.append("new c %d" % rng.choice([0, 1]))
            n += 1
            for nm in names2:
                k = n
                ops.append("new %s %d" % (nm, rng.choice([0, 0, 2])))
                n += 1
                ops.append("%s %d %d %d" % (rng.choice(["ins", "nins"]), root, rng.choice([0, 0, 1, -1]), k))
                for _ in range(rng.choice([0, 1, 1, 2])):
                    ops.append("new %s 0" % rng.choice("ab"))
                    ops.append("%s %d %d %d" % (rng.choice(["ins", "nins"]), k, rng.choice([0, 1, -1]), n))
                    n += 1
            return root
        a = tree([rng.choice("ab") for _ in range(rng.choice([1, 2, 2]))])
        b = tree([rng.choice("ab") for _ in range(rng.choice([1, 2, 2]))])
        if rng.random() < 0.7:
            ops.append("move %d %d" % (a, b + 1))
            if rng.random() < 0.6:
                ops.append("clear %d" % a)     # what mpt_parse_node does after the merge
        else:
            ops.append("unlink %d" % (a + 1))
            ops.append("lmove %d %d" % (a + 1, b + 1))
        for _ in range(rng.choice([0, 1, 2, 3])):
            x = rng.randrange(n)
            ops.append(rng.choice(["tclone %d", "lclone %d", "clear %d", "unlink %d", "destroy %d", "trav pre 3 %d",
                                   "relink %d", "trav in 3 %d", "trav post 1 %d"]) % x)
        return " ".join(ops) + " end"

    def exhaustive_small(self):
        """every way to link a 4th node into each of a few 3-node shapes, every position code"""
        cases = []
        shapes = [
            "new a 0 new b 0 new a 0 ins 0 0 1 ins 0 0 2",           # 0(1,2)
            "new a 0 new b 0 new a 0 ins 0 0 1 ins 1 0 2",           # 0(1(2))
            "new a 0 new a 0 new b 0 after 0 1 after 1 2",           # 0,1,2
            "new a 1 new b 0 new b 2 ins 0 0 1 after 0 2",           # 0(1),2
        ]
        for sh in shapes:
            for nm in ("a", "b", "c"):
                base = sh + " new %s 1" % nm
                for p in range(3):
                    cases.append(base + " after %d 3 end" % p)
                    cases.append(base + " before %d 3 end" % p)
                    for pos in range(-4, 5):
                        for k in ("add", "nadd", "ins", "nins"):
                            cases.append(base + " %s %d %d 3 end" % (k, p, pos))
            for x in range(3):
                for op in ("unlink", "destroy", "clear", "tclone", "lclone", "clone", "relink"):
                    cases.append(sh + " %s %d end" % (op, x))
                    cases.append(sh + " %s %d tclone 0 end" % (op, x))
                for y in range(3):
                    cases.append(sh + " swap %d %d end" % (x, y))
                    cases.append(sh + " switch %d %d end" % (x, y))
                for o in ("pre", "in", "post"):
                    for fl in (1, 2, 3):
                        cases.append(sh + " trav %s %d %d end" % (o, fl, x))
                for nm in NAMES:
                    cases.append(sh + " next %d %s end" % (x, nm))
                    for q in range(-3, 4):
                        cases.append(sh + " find %d %s %d end" % (x, nm, q))
                for o in ORDERS:
                    for fl in (1, 2, 3):
                        for k in range(0, 5):
                            cases.append(sh + " walk %s %d %d %d end" % (o, fl, k, x))
                for k in range(1, 5):
                    for op in ("fclone", "flclone", "ftclone"):
                        cases.append(sh + " %s %d %d end" % (op, k, x))
                        cases.append(sh + " %s %d %d tclone 0 end" % (op, k, x))
            for nc in (["zadd g 1 0", "zadd n 0 1", "zaddn g 0 1", "zaddn n 1 0", "zins g 0 0", "zins n 1 -1", "zmove 0", "zmove 2",
                        "zpos 0", "zpos 1", "zpos -1", "zunlink", "zdestroy", "zrelink", "zclone", "zlclone", "ztclone", "ztravh 0",
                        "zloc 0", "zloc 1", "zloc -1", "zfind", "znext", "zadd g 0 7", "ztravh 7", "zsame 0", "zsame 2", "zsub 0", "zsub 1",
                        "after 0 -", "before 1 -", "after - -", "before - -", "after - 2", "before - 0", "after 1 1", "before 2 2"]
                       + ["ztrav %s %d" % (o, fl) for o in ORDERS for fl in (1, 3)]):
                cases.append(sh + " " + nc + " end")
        # mpt_node_locate with every kind of query from every node of lists that hold every kind of identifier
        lists = ["new a 0 new b 0 new a 0 new L 0 new B 0 new - 0 new a 0 after 0 1 after 1 2 after 2 3 after 3 4 after 4 5 after 5 6",
                 "new c 0 new L 0 new a 0 new B 0 new L 0 ins 0 0 1 ins 0 0 2 ins 0 0 3 ins 0 0 4",
                 "new M 0 new a 0 new M 1 new L 0 new M 0 after 0 1 after 1 2 after 2 3 after 3 4 lclone 0"]
        for li, sh in enumerate(lists):
            for x in ((0, 3, 6) if li == 0 else (1, 2, 4) if li == 1 else (0, 2, 9)):
                for q in QUERIES:
                    for pos in range(-3, 4):
                        cases.append(sh + " loc %d %d %s end" % (x, pos, q))
            for nm in NAMES_X:
                for x in ((0, 3) if li == 0 else (1, 3) if li == 1 else (0, 7)):
                    cases.append(sh + " next %d %s end" % (x, nm))
                    for pos in (-2, -1, 0, 1, 2):
                        cases.append(sh + " find %d %s %d end" % (0, nm, pos))
        # clones that fail: a value that cannot be cloned / the k-th allocation, at every place of a tree of depth 3
        for bad in range(6):
            vals = [3 if i == bad else (1 if i == 2 else 0) for i in range(6)]
            t = ("new a %d new b %d new a %d new c %d new b %d new a %d ins 0 0 1 ins 0 0 2 ins 1 0 3 ins 1 0 4 ins 4 0 5"
                 % tuple(vals))                                    # 0(1(3,4(5)),2)
            for x in (0, 1, 4):
                for op in ("clone", "lclone", "tclone"):
                    cases.append(t + " %s %d end" % (op, x))
                    cases.append(t + " %s %d unlink 1 destroy 1 end" % (op, x))
        t = "new a 1 new b 0 new a 2 new c 0 new b 1 new a 0 ins 0 0 1 ins 0 0 2 ins 1 0 3 ins 1 0 4 ins 4 0 5"
        for k in range(1, 9):
            for x in (0, 1, 3):
                for op in ("fclone", "flclone", "ftclone"):
                    cases.append(t + " %s %d %d end" % (op, k, x))
                    cases.append(t + " %s %d %d lclone 0 end" % (op, k, x))
        # the same with long names: mpt_identifier_copy allocates
        t = "new L 1 new b 0 new L 2 new c 0 new L 1 new a 0 ins 0 0 1 ins 0 0 2 ins 1 0 3 ins 1 0 4 ins 4 0 5"
        for x in (0, 1, 4):
            for op in ("clone", "lclone", "tclone"):
                cases.append(t + " %s %d end" % (op, x))
            for k in range(1, 10):
                for op in ("fclone", "flclone", "ftclone"):
                    cases.append(t + " %s %d %d end" % (op, k, x))
        # level order on a forest with holes:   0(2(5,6(9)),3) 1(4(7(8)))   and   0(1,2(3(4)),5(6))
        for sh in ("new a 0 new b 0 after 0 1 new a 0 new b 0 new c 0 ins 0 0 2 ins 0 0 3 ins 1 0 4 new a 0 new b 0 new c 0 "
                   "ins 2 0 5 ins 2 0 6 ins 4 0 7 new a 0 new b 0 ins 7 0 8 ins 6 0 9",
                   "new a 0 new b 0 new c 0 new a 0 new b 0 new c 0 new a 0 ins 0 0 1 ins 0 0 2 ins 2 0 3 ins 3 0 4 ins 0 0 5 ins 5 0 6"):
            nn = sh.count("new ")
            for x in range(nn):
                for fl in (1, 2, 3):
                    cases.append(sh + " walk level %d 0 %d end" % (fl, x))
            for k in range(1, nn + 2):
                for o in ORDERS:
                    cases.append(sh + " walk %s 3 %d 0 end" % (o, k))
        # merges of two small trees with overlapping names
        for n1 in ("a", "b"):
            for n2 in ("a", "b"):
                for n3 in ("a", "c"):
                    t1 = "new c 0 new %s 1 new %s 2 ins 0 0 1 ins 0 0 2 new a 0 ins 1 0 3" % (n1, n2)     # 0(1(3),2)
                    t2 = "new c 0 new %s 0 new b 0 ins 4 0 5 ins 4 0 6 new %s 0 ins 5 0 7" % (n3, n1)    # 4(5(7),6)
                    cases.append(t1 + " " + t2 + " move 0 5 end")
                    cases.append(t1 + " " + t2 + " move 4 1 end")
                    cases.append(t1 + " " + t2 + " move 0 5 clear 0 end")
                    cases.append(t1 + " " + t2 + " unlink 1 lmove 1 5 end")
        return cases

    def small_ops(self, full):
        """single operations over the node indices 0..3 (3 is only ever the spare node)"""
        ops = []
        for p in range(3):
            for x in range(4):
                if p == x:
                    continue
                if full:
                    ops += ["after %d %d" % (p, x), "before %d %d" % (p, x)]
                    for q in (0, 1, -1, 2, -2):
                        for k in ("add", "nadd", "ins", "nins"):
                            ops.append("%s %d %d %d" % (k, p, q, x))
                    ops += ["move %d %d" % (p, x), "switch %d %d" % (p, x), "lmove %d %d" % (p, x), "swap %d %d" % (p, x)]
                else:
                    ops += ["before %d %d" % (p, x), "nins %d 0 %d" % (p, x), "add %d -1 %d" % (p, x), "move %d %d" % (p, x)]
        for x in range(4):
            ops += ["unlink %d" % x, "destroy %d" % x, "tclone %d" % x]
            if full:
                ops += ["clear %d" % x, "lclone %d" % x, "clone %d" % x, "relink %d" % x]
        return ops

    def exhaustive_histories(self, rng):
        """thorough tier: every history of 2 operations (full set) on two start shapes over 4 nodes with
        overlapping names, plus a sample of the histories of 3 operations over a reduced set"""
        cases = []
        starts = ["new a 0 new b 1 new a 0 new b 0 ins 0 0 1 ins 0 0 2",          # 0(1,2) 3
                  "new a 0 new a 1 new b 0 new a 0 ins 0 0 1 ins 1 0 2"]          # 0(1(2)) 3
        full, red = self.small_ops(True), self.small_ops(False)
        for st in starts:
            for a in full:
                for b in full:
                    cases.append("%s %s %s end" % (st, a, b))
        for _ in range(40000):
            cases.append("%s %s %s %s end" % (rng.choice(starts), rng.choice(red), rng.choice(red), rng.choice(red)))
        return cases

    def generate(self, rng, tier):
        cases = self.exhaustive_small()
        if tier != "quick":
            cases += self.exhaustive_histories(rng)
        n = 1800 if tier == "quick" else 40000
        for i in range(n):
            nops = rng.choice([4, 8, 12, 16, 20, 20])
            cases.append(self.gen_history(rng, nops, 8, 28))
        for i in range(n // 4):
            cases.append(self.gen_merge(rng))
        for i in range(n // 4):
            cases.append(self.gen_level(rng))
        cases += self.parse_sweep()
        cases += self.name_length_sweep()
        for i in range(n // 3):
            cases.append(self.gen_parse(rng))
        return [c for c in cases if allowed(c)]


PROP = C14()
