"""C16 — names are stored and compared faithfully at every length (mptcore/misc/identifier.c)."""
import random
import vcheck
from vcheck import DiffProperty

SIZES = [16, 24, 32, 64, 88, 128, 216, 256]
LIM = 65535
ARITY = {"set": 2, "setz": 2, "raw": 2, "copy": 2, "copyn": 1, "cmp": 2, "cmpz": 2, "cmpn": 2,
         "ineq": 2, "new": 1, "node": 1}


def hx(bs):
    return "".join("%02x" % b for b in bs) if bs else "-"


def dlen(d):
    if d == "-":
        return 0
    if d[0] == "g":
        return int(d[1:].split(".")[0])
    return len(d) // 2


def data(rng, n, zeros=False):
    """a data token of n bytes: generated (non-zero bytes) or literal hex"""
    if n > 24 or (n > 0 and not zeros and rng.random() < 0.5):
        return "g%d.%d" % (n, rng.randrange(1000))
    if zeros:
        return hx([rng.choice([0, 0, 0x41, rng.randrange(256)]) for _ in range(n)])
    return hx([rng.randrange(1, 256) for _ in range(n)])


def altered(rng, d, where=None):
    """same length, one byte different (default: the last one)"""
    n = dlen(d)
    if n == 0:
        return "41"
    p = n - 1 if where is None else where
    if d[0] == "g":
        f = d[1:].split(".")
        return "g%s.%s.%d" % (f[0], f[1], p)
    b = int(d[2 * p:2 * p + 2], 16)
    return d[:2 * p] + "%02x" % (1 if b == 255 else b + 1) + d[2 * p + 2:]


def name_lengths(mx, big=True):
    """text-name lengths (stored length is one more) around every case split for inline capacity mx"""
    s = {0, 1, 2, 3, 4, 5, 10, 11, 12, mx - 3, mx - 2, mx - 1, mx, mx + 1, mx + 2, 2 * mx, 300}
    if big:
        s |= {LIM - 2, LIM - 1}
    return sorted(x for x in s if x >= 0)


def raw_lengths(mx, big=True):
    s = {0, 1, 4, 5, 12, mx - 1, mx, mx + 1, mx + 2, 299}
    if big:
        s |= {LIM - 1, LIM}
    return sorted(x for x in s if x >= 0)


class C16(DiffProperty):
    pid = "C16"
    coq_dir = "C16"
    extract_vo = "C16/Extract.vo"
    mlname = "c16_model"
    driver = "c16_driver.ml"
    harness_src = "c16_ident.c"
    libs = ["mptcore"]
    claimed = True
    harness_env = vcheck.ASAN_LEAK_ENV
    rule = ("cases = 1..4 identifiers on exact-size heap storage (sizes 16,24,32,64,88,128,216,256 and random 16..256, or from "
            "mpt_identifier_new) + a history over set(text, explicit and strlen length)/set(NULL,n)/copy/copy(NULL)/compare(text)/"
            "compare(NULL,n)/inequal/new/node; quick: for every size the full (previous length x new length) table over the lengths "
            "around 0, the 4-byte start of the overlaid pointer, its end (12), the inline capacity -3..+2, twice the capacity, 300 and "
            "65533/65534 (text) resp. 65535 (raw), the too-long lengths 65535/65536, once by set-after-set and once by copy from a "
            "second identifier of every size, each followed by compare with the equal and a one-byte-different name and by inequal; "
            "plus random histories with lengths drawn from the same sets; a case is non-trivial when some identifier changes between "
            "inline and allocated content or a comparison is made; distinct = distinct case text")
    modelled = ("mptcore/misc/identifier.c {mpt_identifier_new (size ladder), _init, _set, _copy, _compare, _inequal, _data} and the "
                "size ladder of mptcore/node/node_new.c transcribed in coq/C16/IdentModel.v (inline bytes as cells that overlay the "
                "pointer field, ghost heap with allocation tokens); malloc failure, _identifier_init/_identifier_fini (type traits, "
                "property C05), mpt++/identifier.cpp wrappers (one-line forwards) and mpt_node_locate are not modelled")
    trusted = ["harness/c16_ident.c reads _len/_charset and the _len bytes behind mpt_identifier_data() after every operation; "
               "heap blocks are counted by the ASan malloc/free hooks while a library call is active, LeakSanitizer is asked at the end of each case",
               "malloc is assumed to succeed"]
    level_text = ("proof: Coq theorems C16_set_get / C16_set_get_cstring / C16_set_raw / C16_set_too_long_refused / "
                  "C16_refused_unchanged / C16_copy_equal_src_untouched / C16_compare_iff_equal / C16_compare_cstring_iff_equal / "
                  "C16_inequal_iff_equal / C16_step_refines_names / C16_history_refines_names / C16_heap_discipline / C16_new_capacity / "
                  "C16_new_limit state, for every inline capacity >= 12 (storage size 16..256 and beyond), every content length up to the "
                  "16-bit limit, every previous content (inline or allocated) and every history of set/copy/clear/compare/inequal "
                  "operations on any number of identifiers (no bound), that the transcribed mechanism (inline bytes overlaying the pointer "
                  "field, ghost heap of allocation tokens) reads back exactly the bytes and length that were set, copies without touching "
                  "the source, reports equality exactly for equal content, leaves refused operations without effect, never faults (no bad "
                  "free, no read through an overwritten pointer, no access outside the storage), frees every allocation exactly once and "
                  "holds no allocation after the identifiers are cleared; the model is tied to the code on every run by differential "
                  "execution under ASan/UBSan with malloc/free hooks and LeakSanitizer")
    level_note = ("trusted: Coq kernel; hand transcription of identifier.c (validated by the correspondence run, not verified); extraction "
                  "(ExtrOcamlBasic) and OCaml driver; harness; malloc success; C++ wrappers and type-traits callbacks not modelled. "
                  "Theorems are closed under the global context (no axioms).")
    technique = "Coq refinement proof (overlaid inline/allocated storage + ghost heap -> plain byte strings) + differential correspondence check"
    assumptions = ["malloc succeeds", "identifier storage is at least 16 bytes (sizeof(struct identifier)) and at most 256",
                   "caller buffers hold the announced number of bytes / a terminated string",
                   "an identifier is initialised once before use and not shared between threads"]

    # ------------------------------------------------------------------ views
    def project(self, tok):
        p = tok.split("|")
        if p[0] == "end":
            return tok
        if p[-1].startswith("h"):
            p = p[:-1]
        r = p[0]
        if r.startswith("c:") or r.startswith("q:"):
            r = "e:0" if r[2:] == "0" else "e:ne"
        elif r.startswith("n:") and r != "n:R":
            r = "n:ok"
        return "|".join([r] + p[1:])

    def split(self, case):
        t = case.split()
        k = t.index("--")
        hdr, rest = t[:k + 1], t[k + 1:]
        ops = []
        i = 0
        while i < len(rest):
            n = ARITY[rest[i]]
            ops.append(rest[i:i + n + 1])
            i += n + 1
        return hdr, ops

    def shrink_candidates(self, case):
        if case.startswith("L "):
            t = case.split()
            names = t[1].split(",")
            for k in range(len(names)):
                if len(names) > 1:
                    nn = names[:k] + names[k + 1:]
                    st = min(int(t[2]), len(nn) - 1)
                    yield "L %s %d %s %s" % (",".join(nn), st, t[3], t[4])
            return
        yield from self.shrink_ident(case)

    def shrink_ident(self, case):
        hdr, ops = self.split(case)
        for k in range(len(ops)):
            yield self.join(hdr, ops[:k] + ops[k + 1:])
        for k in range(1, len(ops)):
            yield self.join(hdr, ops[:k])
        # drop an unreferenced last identifier
        used = set()
        for o in ops:
            if o[0] not in ("new", "node"):
                used.add(int(o[1]))
                if o[0] in ("copy", "ineq"):
                    used.add(int(o[2]))
        ns = len(hdr) - 1
        if ns > 1 and (ns - 1) not in used:
            yield self.join(hdr[:ns - 1] + ["--"], ops)
        # smaller data / lengths
        for k, o in enumerate(ops):
            if o[0] in ("set", "setz", "cmp", "cmpz"):
                n = dlen(o[2])
                for m in sorted({n // 2, n - 1, n - 8, 5, 12}):
                    if 0 <= m < n:
                        yield self.join(hdr, ops[:k] + [[o[0], o[1], "g%d.1" % m if m else "-"]] + ops[k + 1:])
            if o[0] in ("raw", "cmpn", "new", "node"):
                n = int(o[-1])
                for m in sorted({n // 2, n - 1}):
                    if 0 <= m < n:
                        yield self.join(hdr, ops[:k] + [o[:-1] + [str(m)]] + ops[k + 1:])
        # smaller storage
        for k in range(ns):
            if hdr[k][0] == "s" and int(hdr[k][1:]) > 16:
                yield self.join(hdr[:k] + ["s16"] + hdr[k + 1:], ops)

    def maxes(self, hdr):
        mx = []
        for h in hdr:
            if h == "--":
                break
            n = int(h[1:])
            if h[0] == "w":
                if n > LIM:
                    continue
                size = 32
                if 32 < n + 4 <= 256:
                    while size < n + 4:
                        size *= 2
                mx.append(size - 4)
            elif n >= 16:
                mx.append(min(n - 4, 252))
        return mx

    def classify(self, case):
        if case.startswith("L "):
            t = case.split()
            return {"locate", "locate-pos%s" % ("+" if int(t[3]) > 0 else "0" if int(t[3]) == 0 else "-")}
        return self.classify_ident(case)

    def classify_ident(self, case):
        hdr, ops = self.split(case)
        mx = self.maxes(hdr)
        ln = [0] * len(mx)
        cl = set()

        def trans(kind, i, new):
            a = "ext" if ln[i] > mx[i] else "inl"
            b = "ext" if new > mx[i] else "inl"
            cl.add("%s:%s->%s" % (kind, a, b))
            if a == "ext" and b == "inl" and new > 4:
                cl.add(kind + ":ext->inl-over-pointer")
            if abs(new - mx[i]) <= 1:
                cl.add("at-capacity")
            if new >= LIM - 1:
                cl.add("len>=65534")
            ln[i] = new
        for o in ops:
            k = o[0]
            if k in ("new", "node"):
                cl.add("ladder")
                continue
            i = int(o[1])
            if i >= len(mx):
                continue
            if k in ("set", "setz"):
                n = dlen(o[2]) + 1
                if n > LIM:
                    cl.add("refused-too-long")
                else:
                    trans("set", i, n)
            elif k == "raw":
                n = int(o[2])
                if n < 0 or n > LIM:
                    cl.add("refused-too-long")
                else:
                    trans("raw", i, n)
            elif k == "copyn":
                trans("clear", i, 0)
            elif k == "copy":
                j = int(o[2])
                if j < len(mx):
                    if i == j:
                        cl.add("copy-self")
                    else:
                        trans("copy", i, ln[j])
            elif k in ("cmp", "cmpz", "cmpn", "ineq"):
                cl.add("compare")
        if len(ops) > 6:
            cl.add("history")
        return cl

    # ------------------------------------------------------------------ generator
    def pair_cases(self, rng, sizes, big_every):
        cases = []
        n = 0
        for sz in sizes:
            mx = sz - 4
            prevs = [("n", x) for x in name_lengths(mx)] + [("r", x) for x in raw_lengths(mx)]
            news = prevs + [("n", LIM), ("n", LIM + 1), ("r", LIM + 1), ("r", -1)]
            for pk, pl in prevs:
                for nk, nl in news:
                    n += 1
                    # the 65 k lengths are expensive for the model: keep a share of them
                    isbig = max(pl, nl) > 1000
                    if isbig and (n % (big_every if min(pl, nl) > 1000 else (big_every + 1) // 2)):
                        continue
                    sz2 = SIZES[n % len(SIZES)]

                    def put(i, k, l):
                        if k == "r":
                            return ["raw", str(i), str(l)], None
                        d = data(rng, l, zeros=(n % 7 == 0))
                        if n % 5 == 0 and l <= 300 and d[0] == "g":
                            return ["setz", str(i), d], d
                        return ["set", str(i), d], d
                    o1, _ = put(0, pk, pl)
                    o2, d2 = put(0, nk, nl)
                    chk = []
                    if d2 is not None:
                        chk = ["cmp", "0", d2, "cmp", "0", altered(rng, d2), "cmp", "0", altered(rng, d2, 0) if dlen(d2) else "-"]
                        if isbig:
                            chk = chk[:6]
                        elif dlen(d2) > 0:
                            chk += ["cmp", "0", data(rng, dlen(d2) - 1)]
                    else:
                        chk = ["cmpn", "0", str(max(nl - 1, 0)), "cmpn", "0", str(nl)]
                    # A: set after set on one identifier
                    cases.append(" ".join(["s%d" % sz, "--"] + o1 + o2 + chk))
                    # B: copy from a second identifier of another size, then change the source
                    o2b, d2b = put(1, nk, nl)
                    chkb = ["ineq", "0", "1"] if isbig else ["ineq", "0", "1", "ineq", "1", "0"]
                    if d2b is not None and nl + 1 <= LIM:
                        chkb += ["set", "1", altered(rng, d2b), "ineq", "0", "1", "cmp", "0", d2b]
                    else:
                        chkb += ["set", "1", "41", "ineq", "0", "1"]
                    cases.append(" ".join(["s%d" % sz, "s%d" % sz2, "--"] + o1 + o2b + ["copy", "0", "1"] + chkb))
        return cases

    def gen_op(self, rng, mx, ns, big):
        i = rng.randrange(ns)
        k = rng.choice(["set", "set", "set", "setz", "raw", "copy", "copy", "copy", "copyn", "cmp", "cmpz", "cmpn", "ineq"])
        if k in ("set", "setz", "cmp", "cmpz"):
            l = rng.choice(name_lengths(mx[i], big and rng.random() < 0.15) + [LIM] * (1 if rng.random() < 0.05 else 0))
            if k in ("setz", "cmpz") and l > 1000:
                l = 300
            if k in ("setz", "cmpz"):
                return [k, str(i), "g%d.%d" % (l, rng.randrange(50)) if l else "-"]
            return [k, str(i), data(rng, l, zeros=rng.random() < 0.15)]
        if k in ("raw", "cmpn"):
            l = rng.choice(raw_lengths(mx[i], big and rng.random() < 0.15) + [-1, LIM + 1] * (1 if rng.random() < 0.1 else 0))
            return [k, str(i), str(l)]
        if k in ("copy", "ineq"):
            return [k, str(i), str(rng.randrange(ns))]
        return [k, str(i)]

    def history(self, rng, big):
        ns = rng.choice([1, 2, 2, 3, 3, 4])
        hdr = []
        for _ in range(ns):
            r = rng.random()
            if r < 0.6:
                hdr.append("s%d" % rng.choice(SIZES))
            elif r < 0.8:
                hdr.append("s%d" % rng.randrange(16, 257))
            else:
                hdr.append("w%d" % rng.choice([0, 12, 28, 29, 60, 61, 124, 125, 252, 253, 1000, LIM]))
        mx = self.maxes(hdr)
        ops = []
        last = {}
        for _ in range(rng.choice([2, 3, 5, 8, 12, 16])):
            o = self.gen_op(rng, mx, ns, big)
            # make comparisons hit equal content half of the time
            if o[0] in ("cmp", "cmpz") and o[1] in last and rng.random() < 0.6:
                d = last[o[1]]
                if o[0] == "cmp" or (d[0] == "g" and dlen(d) <= 300):
                    o = [o[0], o[1], d if rng.random() < 0.6 else altered(rng, d, rng.randrange(max(1, dlen(d))))]
            if o[0] in ("set", "setz"):
                last[o[1]] = o[2]
            ops += o
        return " ".join(hdr + ["--"] + ops)

    def ladder_cases(self):
        ns = sorted({0, 1, 11, 12, 13, 27, 28, 29, 59, 60, 61, 123, 124, 125, 251, 252, 253, 254, 255, 256, 257, 1000,
                     LIM - 1, LIM, LIM + 1, LIM + 2, 100000, 23, 24, 25, 87, 88, 89, 215, 216, 217})
        out = []
        for a in range(0, len(ns), 6):
            ops = []
            for n in ns[a:a + 6]:
                ops += ["new", str(n), "node", str(n)]
            out.append("s16 -- " + " ".join(ops))
        return out

    def generate(self, rng, tier):
        quick = tier == "quick"
        cases = self.ladder_cases()
        cases += self.pair_cases(rng, SIZES, 12 if quick else 1)
        if not quick:
            cases += self.pair_cases(rng, [17, 20, 28, 33, 100, 200, 255], 3)
        for i in range(2000 if quick else 60000):
            cases.append(self.history(rng, big=(i % 5 == 0)))
        cases += self.locate_cases(rng, 1500 if quick else 30000)
        return cases

    # node lookup by name (mpt_node_locate): names around the inline capacity of each node size
    def locate_cases(self, rng, n):
        out = []
        lens = [1, 2, 3, 18, 19, 20, 21, 82, 83, 84, 85, 210, 211, 212, 213, 240, 260]
        for i in range(n):
            cnt = rng.choice([1, 2, 3, 4, 6])
            base = rng.choice(lens)
            pool = []
            for k in range(rng.choice([1, 2, 3])):
                ln = max(1, base + rng.choice([-1, 0, 0, 0, 1]))
                pool.append("g%d.%d" % (ln, rng.randrange(1, 5)))
            # near misses: same length, one byte altered
            pool.append("g%d.%d.%d" % (base, 1, rng.randrange(0, base)))
            names = [rng.choice(pool) for _ in range(cnt)]
            key = rng.choice(pool + names)
            start = rng.randrange(0, cnt)
            pos = rng.choice([-3, -2, -1, -1, 0, 0, 1, 1, 2, 3])
            out.append("L %s %d %d %s" % (",".join(names), start, pos, key))
        return out


PROP = C16()
