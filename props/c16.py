"""C16 — names are stored and compared faithfully at every length (mptcore/misc/identifier.c, mpt++/identifier.cpp)."""
import random
import vcheck
from vcheck import DiffProperty

SIZES = [16, 24, 32, 64, 88, 128, 216, 256]
LIM = 65535
ARITY = {"set": 2, "setz": 2, "raw": 2, "seta": 3, "setaz": 2, "copy": 2, "copyn": 1, "cmp": 2, "cmpz": 2, "cmpn": 2,
         "ineq": 2, "new": 1, "node": 1,
         # members of the C++ class identifier (harness/c16_cxx.cpp)
         "xset": 2, "xsetz": 2, "xraw": 2, "xeq": 2, "xeqz": 2, "xeqn": 2, "xname": 1,
         "xcopy": 2, "xctor": 2, "xnew": 2, "xitem": 1}
ITEM_IDENT = 24     # item<T>: 32 bytes, identifier part constructed with total = 24

# mpt_identifier_set(id, data(id) + off, len) while the content is INLINE and source and destination ranges overlap
# (0 < off < len): memcpy(id->_val, id->_val + off, len) on overlapping ranges -- undefined, ASan memcpy-param-overlap.
# docs/C16_alias_overlap.diff (memmove) repairs it; the model is the repaired code.  False keeps exactly these inputs
# out of the generated cases; flip to True once the fix is committed.
ALIAS_INLINE_OVERLAP = True


def gen_bytes(d):
    """the bytes a data token stands for (harness get_data / driver data_of)"""
    if d == "-":
        return b""
    if d[0] == "g":
        f = d[1:].split(".")
        n, seed = int(f[0]), int(f[1])
        b = bytearray(1 + ((seed * 31 + i * 7 + i // 253) % 255) for i in range(n))
        if len(f) > 2 and int(f[2]) < n:
            k = int(f[2])
            b[k] = 1 if b[k] == 255 else b[k] + 1
        return bytes(b)
    return bytes.fromhex(d)


class Names:
    """what the identifiers of a case hold (the list-of-names specification, in Python): used by the generator to
    know where a source inside the identifier's own content lies and what the result has to be"""

    def __init__(self, mx):
        self.mx = list(mx)
        self.val = [b""] * len(mx)

    def alias_arg(self, i, off, n):
        """(off', len', source is inline, ranges overlap) of seta (n >= 0) / setaz (n None) -- self_arg of IdentModel.v"""
        cur = self.val[i]
        off = min(off, len(cur))
        rest = cur[off:]
        if n is None:
            k = rest.find(b"\0")
            ln = k if k >= 0 else len(rest)
        else:
            ln = min(n, len(rest))
        inline = len(cur) <= self.mx[i]
        return off, ln, inline, inline and 0 < off < ln

    def step(self, o):
        k = o[0]
        if k in ("new", "node", "cmp", "cmpz", "cmpn", "ineq"):
            return None
        i = int(o[1])
        if i >= len(self.val):
            return None
        if k in ("set", "setz"):
            b = gen_bytes(o[2])
            if k == "setz" and b"\0" in b:
                b = b[:b.index(b"\0")]
            if len(b) + 1 <= LIM:
                self.val[i] = b + b"\0"
        elif k == "raw":
            n = int(o[2])
            if 0 <= n <= LIM:
                self.val[i] = bytes(n)
        elif k == "copyn":
            self.val[i] = b""
        elif k == "copy":
            j = int(o[2])
            if j < len(self.val):
                self.val[i] = self.val[j]
        elif k in ("seta", "setaz"):
            off, ln, inline, ov = self.alias_arg(i, int(o[2]), int(o[3]) if k == "seta" else None)
            before = len(self.val[i])
            self.val[i] = self.val[i][off:off + ln] + b"\0"
            return (i, before, off, ln, inline, ov)
        return None


def hx(bs):
    return "".join("%02x" % b for b in bs) if bs else "-"


def dlen(d):
    if d == "-":
        return 0
    if d[0] == "g":
        return int(d[1:].split(".")[0])
    return len(d) // 2


def data(rng, n, zeros=False):
    """a data token of n bytes: generated (non-zero bytes) or literal hex"""
    if n > 24 or (n > 0 and not zeros and rng.random() < 0.5):
        return "g%d.%d" % (n, rng.randrange(1000))
    if zeros:
        return hx([rng.choice([0, 0, 0x41, rng.randrange(256)]) for _ in range(n)])
    return hx([rng.randrange(1, 256) for _ in range(n)])


def altered(rng, d, where=None):
    """same length, one byte different (default: the last one)"""
    n = dlen(d)
    if n == 0:
        return "41"
    p = n - 1 if where is None else where
    if d[0] == "g":
        f = d[1:].split(".")
        return "g%s.%s.%d" % (f[0], f[1], p)
    b = int(d[2 * p:2 * p + 2], 16)
    return d[:2 * p] + "%02x" % (1 if b == 255 else b + 1) + d[2 * p + 2:]


def name_lengths(mx, big=True):
    """text-name lengths (stored length is one more) around every case split for inline capacity mx"""
    s = {0, 1, 2, 3, 4, 5, 10, 11, 12, mx - 3, mx - 2, mx - 1, mx, mx + 1, mx + 2, 2 * mx, 300}
    if big:
        s |= {LIM - 2, LIM - 1}
    return sorted(x for x in s if x >= 0)


def raw_lengths(mx, big=True):
    s = {0, 1, 4, 5, 12, mx - 1, mx, mx + 1, mx + 2, 299}
    if big:
        s |= {LIM - 1, LIM}
    return sorted(x for x in s if x >= 0)


class C16(DiffProperty):
    pid = "C16"
    coq_dir = "C16"
    extract_vo = "C16/Extract.vo"
    mlname = "c16_model"
    driver = "c16_driver.ml"
    harness_src = "c16_ident.c"
    libs = ["mptcore"]
    cxx_harness_src = "c16_cxx.cpp"     # cases that use the C++ class (built and run by evaluate() below)
    cxx_libs = ["mpt++", "mptcore"]
    claimed = True
    harness_env = vcheck.ASAN_LEAK_ENV
    rule = ("cases = 1..4 identifiers on exact-size heap storage (sizes 16,24,32,64,88,128,216,256 and random 16..256, or from "
            "mpt_identifier_new) + a history over set(text, explicit and strlen length)/set(NULL,n)/copy/copy(NULL)/compare(text)/"
            "compare(NULL,n)/inequal/new/node/set from a name INSIDE the identifier's own current content (data+off with explicit or strlen "
            "length: prefix stripping, truncation in place; content inline, at the capacity or allocated, result allocated or inline; "
            "inline sources with overlapping ranges are held back by ALIAS_INLINE_OVERLAP until docs/C16_alias_overlap.diff is committed); quick: for every size the full (previous length x new length) table over the lengths "
            "around 0, the 4-byte start of the overlaid pointer, its end (12), the inline capacity -3..+2, twice the capacity, 300 and "
            "65533/65534 (text) resp. 65535 (raw), the too-long lengths 65535/65536, once by set-after-set and once by copy from a "
            "second identifier of every size, each followed by compare with the equal and a one-byte-different name and by inequal; "
            "plus random histories with lengths drawn from the same sets; the C++ class identifier (mpt++/identifier.cpp, second harness "
            "binary c16_cxx.cpp with identifier.cpp compiled in): objects constructed by placement new on exact-size storage "
            "(identifier(total) for 16..256 bytes, item<T> = 32 bytes with a 24-byte identifier part, C objects from mpt_identifier_new) + "
            "set_name (explicit, default and NULL name)/equal/name/operator= (self assignment included)/destructor followed by copy "
            "construction from another object/destructor followed by identifier(total) or item<T>() in the same slot, mixed with the C "
            "functions on the same objects; quick: (previous length x new length) tables for 16, item<T>, 32, 256 bytes over the lengths "
            "0, 4, 11, capacity-1, capacity, twice the capacity (text) and 0, 5, capacity, capacity+1 (raw) plus the 65 k limits, by "
            "set_name after set_name, by operator= and by copy construction from a second object of another size, each followed by "
            "name(), equal() with the equal and one-byte-different names and inequal; construction over objects holding inline and "
            "allocated names; 600 random member/function histories; every case ends with the destructor of every object; "
            "a case is non-trivial when some identifier changes between "
            "inline and allocated content or a comparison is made; distinct = distinct case text")
    modelled = ("mptcore/misc/identifier.c {mpt_identifier_new (size ladder), _init, _set, _copy, _compare, _inequal, _data} and the "
                "size ladder of mptcore/node/node_new.c transcribed in coq/C16/IdentModel.v (inline bytes as cells that overlay the "
                "pointer field, ghost heap with allocation tokens); mpt++/identifier.cpp {identifier(size_t), identifier(const identifier &), "
                "equal, operator=, set_name, name} and the inline destructor of mptcore/core.h as compositions of those operations "
                "(xinit, xcopy_init = init 16 + copy, xequal = compare is 0, xassign = copy, xset_name = set, xname = charset test + data, "
                "xfini = set(NULL, 0)) run by the world operations OXSet/OXEqual/OXName/OXAssign/OXCtor/OXNew; mpt_node_locate in "
                "coq/C16/Locate.v; malloc failure, _identifier_init/_identifier_fini (type traits, property C05), the implicit copy "
                "constructor of item<T> and the reference<T> half of item<T> are not modelled")
    trusted = ["harness/c16_ident.c reads _len/_charset and the _len bytes behind mpt_identifier_data() after every operation; "
               "heap blocks are counted by the ASan malloc/free hooks while a library call is active, LeakSanitizer is asked at the end of each case",
               "harness/c16_cxx.cpp compiles mpt++/identifier.cpp into its translation unit, constructs and destroys the objects by placement "
               "new / explicit destructor calls on exact-size malloc storage and reads _len/_charset from the object bytes (offsets 0, 2), "
               "the name bytes through mpt_identifier_data() and, for name(), through the returned address",
               "malloc is assumed to succeed"]
    level_text = ("proof: Coq theorems C16_set_get / C16_set_get_cstring / C16_set_raw / C16_set_too_long_refused / "
                  "C16_refused_unchanged / C16_copy_equal_src_untouched / C16_compare_iff_equal / C16_compare_cstring_iff_equal / "
                  "C16_inequal_iff_equal / C16_step_refines_names / C16_set_from_own_content / C16_history_refines_names / C16_heap_discipline / C16_new_capacity / "
                  "C16_new_limit / C16_class_set_name_is_set / C16_class_assign_is_copy / C16_class_equal_iff_equal / C16_class_name_reads / "
                  "C16_class_set_name_then_name / C16_class_copy_ctor_equal_src_untouched / C16_class_ctor_unset / "
                  "C16_class_destroy_all_no_live_block state, for every inline capacity >= 12 (storage size 16..256 and beyond), every content length up to the "
                  "16-bit limit, every previous content (inline or allocated) and every history of set (name from a caller buffer or from inside the identifier's own content)/copy/clear/compare/inequal "
                  "operations and of the members of the C++ class (set_name, equal, name, operator=, destruction followed by copy "
                  "construction or construction, so the capacity of a slot changes) on any number of identifiers (no bound), that the transcribed mechanism (inline bytes overlaying the pointer "
                  "field, ghost heap of allocation tokens) reads back exactly the bytes and length that were set, copies without touching "
                  "the source, reports equality exactly for equal content, leaves refused operations without effect, never faults (no bad "
                  "free, no read through an overwritten pointer, no access outside the storage), frees every allocation exactly once and "
                  "holds no allocation after the identifiers are cleared (= after the destructor of every object); a copy-constructed "
                  "object has the 16-byte layout, equals its source and leaves it untouched, name() hands out exactly the stored text "
                  "name and NULL for other content; the model is tied to the code on every run by differential "
                  "execution under ASan/UBSan with malloc/free hooks and LeakSanitizer")
    level_note = ("trusted: Coq kernel; hand transcription of identifier.c (validated by the correspondence run, not verified); extraction "
                  "(ExtrOcamlBasic) and OCaml driver; both harnesses; malloc success; the members of mpt++/identifier.cpp are modelled as "
                  "compositions of the C operations (each is a forward of one or two lines; the composition is what the correspondence run "
                  "checks); type-traits callbacks and item<T>'s implicit copy constructor not modelled. "
                  "Theorems are closed under the global context (no axioms).")
    technique = "Coq refinement proof (overlaid inline/allocated storage + ghost heap -> plain byte strings) + differential correspondence check"
    assumptions = ["malloc succeeds", "identifier storage is at least 16 bytes (sizeof(struct identifier)) and at most 256",
                   "caller buffers hold the announced number of bytes / a terminated string; a name may lie inside the identifier's own content "
                   "(inline ranges that overlap: modelled as memmove, see docs/C16_alias_overlap.diff), not inside another identifier's storage",
                   "an identifier is initialised once before use and not shared between threads"]

    # ------------------------------------------------------------------ two harness binaries, one model run
    def is_cxx(self, case):
        if case.startswith("L "):
            return False
        t = case.split()
        k = t.index("--")
        return any(h[0] == "t" for h in t[:k]) or any(x in ARITY and x[0] == "x" for x in t[k + 1:])

    def evaluate(self, cases, workdir, tagsuffix=""):
        """cases that use the class identifier go to harness/c16_cxx.cpp (mpt++/identifier.cpp compiled in), the others
        to harness/c16_ident.c"""
        hx = vcheck.build_harness(self.harness_src, self.libs, extra=self.extra_harness_flags)
        mx = vcheck.build_model(self.mlname, self.driver, self.extract_vo)
        ided = ["c%d %s" % (i, c) for i, c in enumerate(cases)]
        parts = [(hx, "impl", [l for l, c in zip(ided, cases) if not self.is_cxx(c)]),
                 (None, "implcxx", [l for l, c in zip(ided, cases) if self.is_cxx(c)])]
        I, errs = {}, []
        for exe, tag, lines in parts:
            if not lines:
                continue
            if exe is None:
                exe = vcheck.build_harness(self.cxx_harness_src, self.cxx_libs, extra=self.extra_harness_flags)
            r, e = vcheck.run_cases(exe, lines, workdir, tag + tagsuffix, env=self.harness_env, args=self.harness_args)
            errs += e
            r = r.get("I", {})
            late = [l for l in lines if any(t.startswith("F:timeout") for t in (r.get(l.split(None, 1)[0]) or []))]
            if late and not self.harness_args:
                r2, e2 = vcheck.run_cases(exe, late, workdir, tag + "late" + tagsuffix, env=self.harness_env, args=["60"],
                                          shards=min(4, len(late)))
                r.update(r2.get("I", {}))
                errs += e2
            I.update(r)
        M, e3 = vcheck.run_cases(mx, ided, workdir, "model" + tagsuffix)
        res = []
        for i, c in enumerate(cases):
            k = "c%d" % i
            res.append(self.compare(c, I.get(k), M.get("M", {}).get(k), M.get("S", {}).get(k)))
        return res, errs + e3

    # ------------------------------------------------------------------ views
    def project(self, tok):
        p = tok.split("|")
        if p[0] == "end":
            return tok
        if p[-1].startswith("h"):
            p = p[:-1]
        r = p[0]
        if r.startswith("c:") or r.startswith("q:"):
            r = "e:0" if r[2:] == "0" else "e:ne"
        elif r.startswith("n:") and r != "n:R":
            r = "n:ok"
        return "|".join([r] + p[1:])

    def split(self, case):
        t = case.split()
        k = t.index("--")
        hdr, rest = t[:k + 1], t[k + 1:]
        ops = []
        i = 0
        while i < len(rest):
            n = ARITY[rest[i]]
            ops.append(rest[i:i + n + 1])
            i += n + 1
        return hdr, ops

    def shrink_candidates(self, case):
        if case.startswith("L "):
            t = case.split()
            names = t[1].split(",")
            for k in range(len(names)):
                if len(names) > 1:
                    nn = names[:k] + names[k + 1:]
                    st = min(int(t[2]), len(nn) - 1)
                    yield "L %s %d %s %s" % (",".join(nn), st, t[3], t[4])
            return
        yield from self.shrink_ident(case)

    def shrink_ident(self, case):
        hdr, ops = self.split(case)
        for k in range(len(ops)):
            yield self.join(hdr, ops[:k] + ops[k + 1:])
        for k in range(1, len(ops)):
            yield self.join(hdr, ops[:k])
        # drop an unreferenced last identifier
        used = set()
        for o in ops:
            if o[0] not in ("new", "node"):
                used.add(int(o[1]))
                if o[0] in ("copy", "ineq", "xcopy", "xctor"):
                    used.add(int(o[2]))
        ns = len(hdr) - 1
        if ns > 1 and (ns - 1) not in used:
            yield self.join(hdr[:ns - 1] + ["--"], ops)
        # smaller data / lengths
        for k, o in enumerate(ops):
            if o[0] in ("set", "setz", "cmp", "cmpz", "xset", "xsetz", "xeq", "xeqz"):
                n = dlen(o[2])
                for m in sorted({n // 2, n - 1, n - 8, 5, 12}):
                    if 0 <= m < n:
                        yield self.join(hdr, ops[:k] + [[o[0], o[1], "g%d.1" % m if m else "-"]] + ops[k + 1:])
            if o[0] in ("seta", "setaz"):
                for m in sorted({0, 1, int(o[2]) // 2, int(o[2]) - 1}):
                    if 0 <= m < int(o[2]):
                        yield self.join(hdr, ops[:k] + [[o[0], o[1], str(m)] + o[3:]] + ops[k + 1:])
                if o[0] == "seta":
                    n = int(o[3])
                    for m in sorted({n // 2, n - 1}):
                        if 0 <= m < n:
                            yield self.join(hdr, ops[:k] + [o[:3] + [str(m)]] + ops[k + 1:])
            if o[0] == "xnew" and int(o[2]) > 16:
                yield self.join(hdr, ops[:k] + [[o[0], o[1], "16"]] + ops[k + 1:])
            if o[0] in ("raw", "cmpn", "new", "node", "xraw", "xeqn"):
                n = int(o[-1])
                for m in sorted({n // 2, n - 1}):
                    if 0 <= m < n:
                        yield self.join(hdr, ops[:k] + [o[:-1] + [str(m)]] + ops[k + 1:])
        # smaller storage
        for k in range(ns):
            if (hdr[k][0] == "s" and int(hdr[k][1:]) > 16) or hdr[k][0] == "t":
                yield self.join(hdr[:k] + ["s16"] + hdr[k + 1:], ops)

    def maxes(self, hdr):
        mx = []
        for h in hdr:
            if h == "--":
                break
            n = int(h[1:])
            if h[0] == "t":
                mx.append(ITEM_IDENT - 4)
            elif h[0] == "w":
                if n > LIM:
                    continue
                size = 32
                if 32 < n + 4 <= 256:
                    while size < n + 4:
                        size *= 2
                mx.append(size - 4)
            elif n >= 16:
                mx.append(min(n - 4, 252))
        return mx

    def classify(self, case):
        if case.startswith("L "):
            t = case.split()
            return {"locate", "locate-pos%s" % ("+" if int(t[3]) > 0 else "0" if int(t[3]) == 0 else "-")}
        return self.classify_ident(case)

    def classify_ident(self, case):
        hdr, ops = self.split(case)
        mx = self.maxes(hdr)
        ln = [0] * len(mx)
        cl = set()

        def trans(kind, i, new):
            a = "ext" if ln[i] > mx[i] else "inl"
            b = "ext" if new > mx[i] else "inl"
            cl.add("%s:%s->%s" % (kind, a, b))
            if a == "ext" and b == "inl" and new > 4:
                cl.add(kind + ":ext->inl-over-pointer")
            if abs(new - mx[i]) <= 1:
                cl.add("at-capacity")
            if new >= LIM - 1:
                cl.add("len>=65534")
            ln[i] = new
        names = Names(mx) if any(o[0] in ("seta", "setaz") for o in ops) else None
        for o in ops:
            k = o[0]
            if k in ("new", "node"):
                cl.add("ladder")
                continue
            i = int(o[1])
            if i >= len(mx):
                continue
            if k[0] == "x":
                cl.add("cxx")
            if names is not None and k[0] != "x":
                a = names.step(o)
                if a is not None:
                    # the name lies inside the identifier's own inline bytes / its own block
                    cl.add("alias")
                    trans("alias-%s" % ("strlen" if k == "setaz" else "len"), i, a[3] + 1)
                    cl.add("alias:from-%s" % ("inline" if a[4] else "block"))
                    if a[5]:
                        cl.add("alias:inline-overlap")
                    continue
            if k in ("set", "setz", "xset", "xsetz"):
                n = dlen(o[2]) + 1
                if n > LIM:
                    cl.add("refused-too-long")
                else:
                    trans(k.rstrip("z"), i, n)
            elif k in ("raw", "xraw"):
                n = int(o[2])
                if n < 0 or n > LIM:
                    cl.add("refused-too-long")
                else:
                    trans(k, i, n)
            elif k == "xname":
                cl.add("cxx:name")
            elif k in ("xnew", "xitem"):
                # destructor of the old object, then a new capacity
                trans("xdtor", i, 0)
                mx[i] = ITEM_IDENT - 4 if k == "xitem" else min(int(o[2]) - 4, 252)
                cl.add("cxx:new-capacity")
            elif k == "xctor":
                j = int(o[2])
                if j < len(mx) and i != j:
                    trans("xdtor", i, 0)
                    mx[i] = 12
                    trans("xctor", i, ln[j])
            elif k == "xcopy":
                j = int(o[2])
                if j < len(mx):
                    if i == j:
                        cl.add("xcopy-self")
                    else:
                        trans("xcopy", i, ln[j])
            elif k == "copyn":
                trans("clear", i, 0)
            elif k == "copy":
                j = int(o[2])
                if j < len(mx):
                    if i == j:
                        cl.add("copy-self")
                    else:
                        trans("copy", i, ln[j])
            elif k in ("cmp", "cmpz", "cmpn", "ineq", "xeq", "xeqz", "xeqn"):
                cl.add("compare")
        if len(ops) > 6:
            cl.add("history")
        return cl

    # ------------------------------------------------------------------ generator
    def pair_cases(self, rng, sizes, big_every):
        cases = []
        n = 0
        for sz in sizes:
            mx = sz - 4
            prevs = [("n", x) for x in name_lengths(mx)] + [("r", x) for x in raw_lengths(mx)]
            news = prevs + [("n", LIM), ("n", LIM + 1), ("r", LIM + 1), ("r", -1)]
            for pk, pl in prevs:
                for nk, nl in news:
                    n += 1
                    # the 65 k lengths are expensive for the model: keep a share of them
                    isbig = max(pl, nl) > 1000
                    if isbig and (n % (big_every if min(pl, nl) > 1000 else (big_every + 1) // 2)):
                        continue
                    sz2 = SIZES[n % len(SIZES)]

                    def put(i, k, l):
                        if k == "r":
                            return ["raw", str(i), str(l)], None
                        d = data(rng, l, zeros=(n % 7 == 0))
                        if n % 5 == 0 and l <= 300 and d[0] == "g":
                            return ["setz", str(i), d], d
                        return ["set", str(i), d], d
                    o1, _ = put(0, pk, pl)
                    o2, d2 = put(0, nk, nl)
                    chk = []
                    if d2 is not None:
                        chk = ["cmp", "0", d2, "cmp", "0", altered(rng, d2), "cmp", "0", altered(rng, d2, 0) if dlen(d2) else "-"]
                        if isbig:
                            chk = chk[:6]
                        elif dlen(d2) > 0:
                            chk += ["cmp", "0", data(rng, dlen(d2) - 1)]
                    else:
                        chk = ["cmpn", "0", str(max(nl - 1, 0)), "cmpn", "0", str(nl)]
                    # A: set after set on one identifier
                    cases.append(" ".join(["s%d" % sz, "--"] + o1 + o2 + chk))
                    # B: copy from a second identifier of another size, then change the source
                    o2b, d2b = put(1, nk, nl)
                    chkb = ["ineq", "0", "1"] if isbig else ["ineq", "0", "1", "ineq", "1", "0"]
                    if d2b is not None and nl + 1 <= LIM:
                        chkb += ["set", "1", altered(rng, d2b), "ineq", "0", "1", "cmp", "0", d2b]
                    else:
                        chkb += ["set", "1", "41", "ineq", "0", "1"]
                    cases.append(" ".join(["s%d" % sz, "s%d" % sz2, "--"] + o1 + o2b + ["copy", "0", "1"] + chkb))
        return cases

    def alias_cases(self, rng, sizes, quick):
        """the new name lies inside the identifier's own current content (prefix stripping, truncation in place):
        for every size, previous contents inline / at the capacity / allocated (text, raw, copied from a second
        identifier) x offsets 0, 1, 7, 12, last byte, end (x half, beyond the end) x explicit lengths that keep the
        name allocated, make it inline, fill the capacity exactly, and the strlen interface; followed by a compare with
        the expected part and a second aliasing set (second half of the new content)"""
        cases = []
        n = 0
        for sz in sizes:
            mx = sz - 4
            prevs = [("n", x) for x in sorted({3, 11, mx - 1, mx, mx + 7, 2 * mx + 5, 300})] + [("r", mx), ("r", mx + 9)]
            if not quick:
                prevs += [("n", x) for x in (1, 12, mx - 2, mx + 1, 3 * mx)] + [("r", 5)]
            prevs.append(("n", LIM - 1))
            for pk, pl in prevs:
                big = pl > 1000
                ln = pl + 1 if pk == "n" else pl
                offs = sorted({0, 1, 7, 12, ln - 1, ln} | (set() if quick else {4, ln // 2, ln - mx, ln - mx - 1, ln + 3}))
                lens = sorted({0, 5, mx - 1, mx, ln} | (set() if quick else {1, 4, 12, mx + 1, ln - 8}))
                if big:
                    offs, lens = ([7, ln - mx] if quick else [0, 7, ln - mx, ln - 1]), [mx - 1, ln]
                    if quick and sz not in (16, 256):
                        continue
                for off in offs:
                    if off < 0:
                        continue
                    for al in [None] + [x for x in lens if 0 <= x and (x <= ln - off or x == ln)]:
                        n += 1
                        two = n % 3 == 0 and not big
                        i = 1 if two else 0
                        d = data(rng, pl, zeros=(n % 7 == 0)) if pk == "n" else None
                        o1 = ["set" if n % 5 else "setz", "0", d] if d is not None else ["raw", "0", str(pl)]
                        if o1[0] == "setz" and d[0] != "g":
                            o1[0] = "set"
                        hdr = ["s%d" % sz] + (["s%d" % SIZES[n % len(SIZES)]] if two else []) + ["--"]
                        ops = [o1] + ([["copy", "1", "0"]] if two else [])
                        oa = ["setaz", str(i), str(off)] if al is None else ["seta", str(i), str(off), str(al)]
                        names = Names(self.maxes(hdr))
                        for o in ops:
                            names.step(o)
                        if names.step(oa)[5] and not ALIAS_INLINE_OVERLAP:
                            continue
                        ops.append(oa)
                        exp = names.val[i][:-1]
                        if len(exp) <= 40 and not big:
                            ops.append(["cmp", str(i), hx(exp)])
                            ops.append(["cmp", str(i), altered(rng, hx(exp))])
                        if two:
                            ops.append(["ineq", "0", "1"])
                        h = len(names.val[i])
                        ops.append(["seta", str(i), str(h - h // 2), str(h // 2)])
                        if not big:
                            ops.append(["cmpn", str(i), str(h // 2)])
                        cases.append(self.join(hdr, ops))
        return cases

    def gen_op(self, rng, mx, ns, big):
        i = rng.randrange(ns)
        k = rng.choice(["set", "set", "set", "setz", "raw", "copy", "copy", "copy", "copyn", "cmp", "cmpz", "cmpn", "ineq",
                        "seta", "setaz"])
        if k in ("seta", "setaz"):
            off = rng.choice([0, 1, 4, 7, 12, mx[i] // 2, mx[i], mx[i] + 1, 2 * mx[i], 290])
            if k == "setaz":
                return [k, str(i), str(off)]
            return [k, str(i), str(off), str(rng.choice(name_lengths(mx[i], False)))]
        if k in ("set", "setz", "cmp", "cmpz"):
            l = rng.choice(name_lengths(mx[i], big and rng.random() < 0.15) + [LIM] * (1 if rng.random() < 0.05 else 0))
            if k in ("setz", "cmpz") and l > 1000:
                l = 300
            if k in ("setz", "cmpz"):
                return [k, str(i), "g%d.%d" % (l, rng.randrange(50)) if l else "-"]
            return [k, str(i), data(rng, l, zeros=rng.random() < 0.15)]
        if k in ("raw", "cmpn"):
            l = rng.choice(raw_lengths(mx[i], big and rng.random() < 0.15) + [-1, LIM + 1] * (1 if rng.random() < 0.1 else 0))
            return [k, str(i), str(l)]
        if k in ("copy", "ineq"):
            return [k, str(i), str(rng.randrange(ns))]
        return [k, str(i)]

    def history(self, rng, big):
        ns = rng.choice([1, 2, 2, 3, 3, 4])
        hdr = []
        for _ in range(ns):
            r = rng.random()
            if r < 0.6:
                hdr.append("s%d" % rng.choice(SIZES))
            elif r < 0.8:
                hdr.append("s%d" % rng.randrange(16, 257))
            else:
                hdr.append("w%d" % rng.choice([0, 12, 28, 29, 60, 61, 124, 125, 252, 253, 1000, LIM]))
        mx = self.maxes(hdr)
        ops = []
        last = {}
        names = Names(mx)
        for _ in range(rng.choice([2, 3, 5, 8, 12, 16])):
            o = self.gen_op(rng, mx, ns, big)
            if o[0] in ("seta", "setaz"):
                last.pop(o[1], None)
                if not ALIAS_INLINE_OVERLAP and names.alias_arg(int(o[1]), int(o[2]), int(o[3]) if o[0] == "seta" else None)[3]:
                    # keep the ranges apart: the second half of the content, at most as long as the first
                    ln = len(names.val[int(o[1])])
                    o = ["seta", o[1], str(ln - ln // 2), str(ln // 2)]
            names.step(o)
            # make comparisons hit equal content half of the time
            if o[0] in ("cmp", "cmpz") and o[1] in last and rng.random() < 0.6:
                d = last[o[1]]
                if o[0] == "cmp" or (d[0] == "g" and dlen(d) <= 300):
                    o = [o[0], o[1], d if rng.random() < 0.6 else altered(rng, d, rng.randrange(max(1, dlen(d))))]
            if o[0] in ("set", "setz"):
                last[o[1]] = o[2]
            ops += o
        return " ".join(hdr + ["--"] + ops)

    def ladder_cases(self):
        ns = sorted({0, 1, 11, 12, 13, 27, 28, 29, 59, 60, 61, 123, 124, 125, 251, 252, 253, 254, 255, 256, 257, 1000,
                     LIM - 1, LIM, LIM + 1, LIM + 2, 100000, 23, 24, 25, 87, 88, 89, 215, 216, 217})
        out = []
        for a in range(0, len(ns), 6):
            ops = []
            for n in ns[a:a + 6]:
                ops += ["new", str(n), "node", str(n)]
            out.append("s16 -- " + " ".join(ops))
        return out

    def generate(self, rng, tier):
        quick = tier == "quick"
        cases = self.ladder_cases()
        cases += self.pair_cases(rng, SIZES, 12 if quick else 1)
        cases += self.alias_cases(rng, SIZES if quick else SIZES + [17, 20, 28, 33, 100, 200, 255], quick)
        if not quick:
            cases += self.pair_cases(rng, [17, 20, 28, 33, 100, 200, 255], 3)
        for i in range(2000 if quick else 60000):
            cases.append(self.history(rng, big=(i % 5 == 0)))
        cases += self.locate_cases(rng, 1500 if quick else 30000)
        cases += self.cxx_cases(rng, quick)
        for i in range(600 if quick else 20000):
            cases.append(self.cxx_history(rng, big=(i % 10 == 0)))
        return cases

    # ---- the C++ class identifier (mpt++/identifier.cpp): harness/c16_cxx.cpp
    def cxx_cases(self, rng, quick):
        """(previous length x new length) tables through the members: set_name after set_name, operator= from a second
        object, destruction + copy construction from a second object (the new object always has capacity 12), each followed
        by name(), equal() with the equal and a one-byte-different name, inequal; C functions mixed in on the same objects"""
        cases = []
        hdrs = ["s16", "t32", "s32", "s256"] if quick else ["s16", "s17", "t32", "s24", "s32", "s64", "s88", "s128", "s216", "s256"]
        n = 0
        for hd in hdrs:
            mx = self.maxes([hd])[0]
            nl = sorted({0, 4, 11, mx - 1, mx, 2 * mx} if quick else set(name_lengths(mx, False)))
            rl = sorted({0, 5, mx, mx + 1} if quick else set(raw_lengths(mx, False)))
            prevs = [("n", x) for x in nl if x >= 0] + [("r", x) for x in rl]
            news = prevs + [("n", LIM), ("r", LIM + 1), ("r", -1), ("n", LIM - 1), ("r", LIM)]
            for pk, pl in prevs:
                for nk, nlen in news:
                    n += 1
                    if max(pl, nlen) > 1000 and n % (4 if quick else 1):
                        continue
                    hd2 = (hdrs + ["w60", "w0"])[n % (len(hdrs) + 2)]
                    cxx_first = n % 3 != 0      # otherwise the previous content is put by the C function

                    def put(i, k, l, cxx=True):
                        x = "x" if cxx else ""
                        if k == "r":
                            return [x + "raw", str(i), str(l)], None
                        d = data(rng, l, zeros=(n % 7 == 0))
                        if n % 5 == 0 and l <= 300 and d[0] == "g":
                            return [x + "setz", str(i), d], d
                        return [x + "set", str(i), d], d

                    def checks(i, d, l):
                        if d is not None and l + 1 <= LIM:
                            c = ["xname", str(i), "xeq", str(i), d, "xeq", str(i), altered(rng, d)]
                            if dlen(d) and l < 1000:
                                c += ["xeq", str(i), altered(rng, d, 0), "xeqz" if d[0] == "g" and l <= 300 else "xeq", str(i), d,
                                      "cmp", str(i), d]
                            return c
                        return ["xname", str(i), "xeqn", str(i), str(max(l - 1, 0)), "xeqn", str(i), str(l)]
                    o1, _ = put(0, pk, pl, cxx_first)
                    # A: set_name after set_name / set
                    o2, d2 = put(0, nk, nlen)
                    cases.append(" ".join([hd, "--"] + o1 + o2 + checks(0, d2, nlen)))
                    # B: operator= from a second object, then the source changes
                    o2b, d2b = put(1, nk, nlen, n % 4 != 0)
                    tail = ["ineq", "0", "1", "xset", "1", "41", "ineq", "0", "1"] + checks(0, d2b, nlen)[:5] + ["xcopy", "0", "0", "xname", "0"]
                    cases.append(" ".join([hd, hd2, "--"] + o1 + o2b + ["xcopy", "0", "1"] + tail))
                    # C: the object in slot 0 is destroyed, a copy of slot 1 is constructed there
                    cases.append(" ".join([hd, hd2, "--"] + o1 + o2b + ["xctor", "0", "1"] + tail))
        # construction with a total size / item<T> over objects that hold an allocated or inline name
        for hd in hdrs:
            mx = self.maxes([hd])[0]
            for l in (0, 11, mx - 1, mx, 300):
                for tgt in (["xnew", "0", "16"], ["xnew", "0", "256"], ["xnew", "0", str(rng.randrange(16, 257))], ["xitem", "0"]):
                    d = data(rng, l)
                    d2 = data(rng, rng.choice([3, 11, 19, 20, 40]))
                    cases.append(" ".join([hd, "--", "xset", "0", d] + tgt + ["xname", "0", "xeqn", "0", "0", "xset", "0", d2,
                                                                              "xname", "0", "xeq", "0", d2]))
        return cases

    def cxx_history(self, rng, big):
        ns = rng.choice([2, 2, 3, 3, 4])
        hdr = []
        for _ in range(ns):
            r = rng.random()
            if r < 0.5:
                hdr.append("s%d" % rng.choice(SIZES))
            elif r < 0.65:
                hdr.append("s%d" % rng.randrange(16, 257))
            elif r < 0.85:
                hdr.append("t32")
            else:
                hdr.append("w%d" % rng.choice([0, 12, 28, 29, 60, 61, 124, 252, 253, 1000]))
        mx = self.maxes(hdr)
        ops = []
        last = {}
        for _ in range(rng.choice([3, 5, 8, 12, 16])):
            i = rng.randrange(ns)
            k = rng.choice(["xset", "xset", "xsetz", "xraw", "xcopy", "xcopy", "xctor", "xctor", "xnew", "xitem", "xname", "xname",
                            "xeq", "xeqz", "xeqn", "set", "raw", "copy", "copyn", "cmp", "ineq"])
            if k in ("xset", "xsetz", "xeq", "xeqz", "set", "cmp"):
                l = rng.choice(name_lengths(mx[i], big and rng.random() < 0.15) + [LIM] * (1 if rng.random() < 0.05 else 0))
                if k in ("xsetz", "xeqz"):
                    o = [k, str(i), "g%d.%d" % (min(l, 300), rng.randrange(50)) if l else "-"]
                else:
                    o = [k, str(i), data(rng, l, zeros=rng.random() < 0.15)]
                if k in ("xeq", "xeqz", "cmp") and str(i) in last and rng.random() < 0.6:
                    d = last[str(i)]
                    if k != "xeqz" or (d[0] == "g" and dlen(d) <= 300):
                        o = [k, str(i), d if rng.random() < 0.6 else altered(rng, d, rng.randrange(max(1, dlen(d))))]
                if k in ("xset", "xsetz", "set"):
                    last[str(i)] = o[2]
            elif k in ("xraw", "xeqn", "raw"):
                l = rng.choice(raw_lengths(mx[i], big and rng.random() < 0.15) + [-1, LIM + 1] * (1 if rng.random() < 0.1 else 0))
                o = [k, str(i), str(l)]
                last.pop(str(i), None)
            elif k in ("xcopy", "copy", "ineq"):
                j = rng.randrange(ns)
                o = [k, str(i), str(j)]
                if k != "ineq" and str(j) in last:
                    last[str(i)] = last[str(j)]
                elif k != "ineq":
                    last.pop(str(i), None)
            elif k == "xctor":
                j = rng.choice([x for x in range(ns) if x != i])
                o = [k, str(i), str(j)]
                mx[i] = 12
                if str(j) in last:
                    last[str(i)] = last[str(j)]
                else:
                    last.pop(str(i), None)
            elif k == "xnew":
                sz = rng.choice(SIZES + [rng.randrange(16, 257)])
                o = [k, str(i), str(sz)]
                mx[i] = min(sz - 4, 252)
                last.pop(str(i), None)
            elif k == "xitem":
                o = [k, str(i)]
                mx[i] = ITEM_IDENT - 4
                last.pop(str(i), None)
            else:
                o = [k, str(i)]
                if k == "copyn":
                    last.pop(str(i), None)
            ops += o
        return " ".join(hdr + ["--"] + ops)

    # node lookup by name (mpt_node_locate): names around the inline capacity of each node size
    def locate_cases(self, rng, n):
        out = []
        lens = [1, 2, 3, 18, 19, 20, 21, 82, 83, 84, 85, 210, 211, 212, 213, 240, 260]
        for i in range(n):
            cnt = rng.choice([1, 2, 3, 4, 6])
            base = rng.choice(lens)
            pool = []
            for k in range(rng.choice([1, 2, 3])):
                ln = max(1, base + rng.choice([-1, 0, 0, 0, 1]))
                pool.append("g%d.%d" % (ln, rng.randrange(1, 5)))
            # near misses: same length, one byte altered
            pool.append("g%d.%d.%d" % (base, 1, rng.randrange(0, base)))
            names = [rng.choice(pool) for _ in range(cnt)]
            key = rng.choice(pool + names)
            start = rng.randrange(0, cnt)
            pos = rng.choice([-3, -2, -1, -1, 0, 0, 1, 1, 2, 3])
            out.append("L %s %d %d %s" % (",".join(names), start, pos, key))
        return out


PROP = C16()
