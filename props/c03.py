"""C03 — decoders are safe and honest on arbitrary bytes (COBS, COBS/R, COBS/ZPE, COBS/ZPE+R decoders)."""
import itertools
from vcheck import DiffProperty

def hx(bs):
    return "".join("%02x" % b for b in bs) if bs else "-"

BOUND = [0x00, 0x01, 0x02, 0x1f, 0x20, 0xde, 0xdf, 0xe0, 0xe1, 0xfe, 0xff]

def py_cobs(m, v):
    """generator-side encoder (only to obtain mostly-valid frames; not part of any oracle)"""
    ml = 255 if v < 2 else 223
    out = []
    block = []
    i = 0
    n = len(m)
    while i < n:
        b = m[i]
        if b == 0:
            code = len(block) + 1
            if v >= 2 and 1 < code < 32 and i + 1 < n and m[i + 1] == 0:
                out += [code + ml] + block
                i += 2
            else:
                out += [code] + block
                i += 1
            block = []
        else:
            block.append(b)
            i += 1
            if len(block) + 1 == ml:
                out += [ml] + block
                block = []
    code = len(block) + 1
    if v in (1, 3) and code > 1 and block[-1] > code and (v == 1 or block[-1] <= ml):
        out += [block[-1]] + block[:-1]
    else:
        out += [code] + block
    return out + [0]

LAYOUTS = ["100000", "100000", "100000", "3,100000", "1,0,2,100000", "16,16,100000", "5,0,0,100000", "8,100000", "17,1,100000"]

class C03(DiffProperty):
    pid = "C03"
    claimed = True
    rule = ("cases: (a) EXHAUSTIVE: every byte string of length <=3 (quick) / <=4 (thorough) over the boundary alphabet "
            "{00,01,02,1f,20,de,df,e0,e1,fe,ff} x every 2-way segmentation x 4 framings x slack {0,3}, each visibility step followed by "
            "repeated decoder calls (resuming after every return code); (b) longer strings over the alphabet with random cuts, slack "
            "0..40 and 1-, 2-, 3-, 4-fragment layouts incl. empty fragments; (c) streams of 1-3 valid frames (lengths 0..3, around one and "
            "two maximal blocks, zero pairs at codes 1,2,31,32), 30% mutated (byte replaced/inserted/deleted), delivered whole, byte-wise or "
            "at random cuts, with too little slack on purpose for ZPE, with peek/size calls sprinkled in; (d) the command decoder mpt_decode_command "
            "(variant 4) on streams of zero-terminated texts in arbitrary pieces over random fragment layouts (the 2-byte header is written in front "
            "of the text, possibly across a fragment border), compared with the mechanism model cmd_call state by state; (e) COMPLETE well-formed "
            "frames of all five framings with ample room in front, everything readable, fragment borders anywhere incl. exactly behind the decoded "
            "bytes (where COBS/R stores the inlined tail byte): the specification demands that the j-th call DELIVERS the j-th frame. Fragments are separately allocated, "
            "16-byte aligned, exact-size heap blocks under ASan/UBSan. non-trivial = every case; distinct = distinct case text")
    modelled = ("mptcore/convert/decode_cobs.c (_decode, _decode_r) and decode_cobs_zpe.c macros in coq/Cobs/DecModel.v: state checks, "
                "consumption of the previous message, target alignment (address residue = offset in the 16-aligned fragment), code byte read, "
                "block loop with gap accounting, peek mode, size query, reset, COBS/R wrapper. mpt_decode_command (text framing) in coq/Cobs/TextModel.v "
                "(cmd_call: flat view of the readable fragments, non-peek). mpt_message_read itself is not modelled (the fragment walking is "
                "observed through the decoders); queue_recv/queue_peek are modelled in coq/Cobs/QueueCodec.v (ring family, C02 harness)")
    trusted = ["fragment bases are 16-byte aligned in the harness (posix_memalign), so the address residue the C code adds is the offset inside the fragment"]
    assumptions = ["real memory safety of the C pointer walking is observed by ASan/UBSan on the explored cases, not proved"]
    level_text = ("proof: Coq theorems for EVERY byte list and every well-formed resume state: one decoder call writes only into the already "
                  "consumed part of the region and keeps the state well formed (C03_call_writes_only_consumed_part); gap accounting; resuming after "
                  "exhausted input equals one call on the concatenation (any segmentation); a delivered message is the reference decoding of the "
                  "consumed frame and a zero inside a block never becomes a message except as the COBS/R tail-inline decoding (honesty), at loop level AND "
                  "at call level (C03_call_delivers_reference_decoding: previous-message consumption, target alignment, code byte, COBS/R wrapper) and for "
                  "every history of calls and input feeds (C03_history_delivers_frames: what is delivered is, in order, the reference decoding of the frames "
                  "at the front of the input); well-formed frames are delivered as exactly the reference decoding when the gap suffices, and COBS / COBS/R "
                  "need no slack. Tied to the code by differential execution (return code, full state and buffer image after every call) incl. the "
                  "exhaustive small-string sweep")
    level_note = ("partial: (1) completeness (a well-formed frame IS delivered given enough gap) is proved for the block loop and for one call from a "
                  "state between messages (C03_call_delivers_accepted_frame, gap >= frame length + 16), and as liveness for a reader that makes room between messages (C03_spaced_reader_delivers_every_frame: every complete frame is delivered); liveness for a reader that only reacts to MissingBuffer: C03_call_never_refuses_complete_frame (a call in any state with any gap on a complete accepted frame delivers it or reports MissingBuffer in a state that is live again; never 'more input', never a decoding error), completed at ring level by C02_ring_round_delivers; C03_call_no_error_on_stream_prefix (on any prefix of a well-formed stream -- complete frames, the last one cut anywhere -- a call in any state with any gap yields a message, 'more input' or MissingBuffer, never a decoding error); (2) peek mode is covered by the correspondence run only (the call-level history theorem continues through MissingBuffer, "
                  "incl. resumption in the middle of a ZPE zero pair after the caller made room, and ends at a genuine decoding error). mpt_decode_command is covered by its own call-level and history theorems (C03_command_call_honest, C03_command_history_delivers; flat, non-peek model) and tied by family (d): state and buffer image after every call on multi-fragment layouts. "
                  "Termination: the model is structurally recursive on the input (each byte read at most once); C-level termination is observed (per-case timeout). "
                  "All theorems closed under the global context.")
    technique = "Coq proofs over the in-place decoder model (safety region, gap invariant, honesty, completeness) + exhaustive small-scope differential check"
    coq_dir = "Cobs"
    propfile = "Properties_C03.v"
    extract_vo = "Cobs/ExtractDec.vo"
    mlname = "cobsdec_model"
    driver = "c03_driver.ml"
    harness_src = "c03_decode.c"
    libs = ["mptcore"]

    def project(self, tok):
        if tok.startswith("D:"):
            f = tok[2:].split("|")
            if len(f) >= 3:          # implementation / model token
                return "D:1|" + f[2] if f[0] == "1" else "D:0"
            return tok               # specification token
        if tok.startswith("N:"):
            return "N:*"
        return tok

    def compare(self, case, it, mt, st):
        r = super().compare(case, it, mt, st)
        # specification: the delivered messages are, in order, a subsequence of the reference decodings
        # of the stream's well-formed frames; no operation faults
        if it is not None and st is not None:
            r["spec"] = None
            k = 0
            for j in range(len(it)):
                a = self.project(it[j])
                if a.startswith("F"):
                    r["spec"] = (j, a, "no fault")
                    break
                if not a.startswith("D:1|"):
                    continue
                b = st[j] if j < len(st) else "L:"
                frames = b[2:].split(",") if len(b) > 2 else []
                m = a[4:]
                idx = None
                for q in range(k, len(frames)):
                    if frames[q] == m:
                        idx = q
                        break
                if idx is None:
                    r["spec"] = (j, a, "a message among the reference decodings %s of the remaining frames" % ",".join(frames[k:][:6]))
                    break
                k = idx + 1
            # completeness (C03_call_never_refuses_complete_frame): the whole stream readable from the first call on, made of
            # well-formed frames only, and room of stream length + 16 in front (2 for the command decoder): the j-th call
            # delivers the j-th frame
            if r["spec"] is None:
                t = case.split()
                v, slack = int(t[0]), int(t[1])
                stream = t[3] if t[3] != "-" else ""
                n = len(stream) // 2
                ops = t[4:]
                if (len(ops) >= 3 and ops[0] == "vis" and int(ops[1]) >= slack + n and all(o == "dec" for o in ops[2:])
                        and n and stream.endswith("00") and slack >= (2 if v == 4 else n + 16)):
                    nz = sum(1 for q in range(0, len(stream), 2) if stream[q:q + 2] == "00")
                    b = st[1] if len(st) > 1 else "L:"
                    frames = b[2:].split(",") if len(b) > 2 else []
                    if len(frames) == nz and "X" not in frames:
                        for j in range(nz):
                            a = self.project(it[1 + j]) if 1 + j < len(it) else "missing"
                            if a != "D:1|" + frames[j]:
                                r["spec"] = (1 + j, it[1 + j] if 1 + j < len(it) else "-",
                                             "the complete, well-formed frame %d is delivered: %s" % (j, frames[j]))
                                break
        return r

    RING_OPS = {"rraw": "raw", "rrecv": "recv", "rpeek": "peek", "rpeekn": "peekn"}

    def ring_verdict(self, r):
        """ring family (mpt_queue_recv / mpt_queue_peek on arbitrary bytes, harness/c02_stream.c against the ring-level model of
        coq/Cobs/QueueCodec.v): correspondence token by token; specification as for the flat decoder: no fault, and the delivered
        messages are, in order, a subsequence of the reference decodings of the well-formed frames put into the ring so far"""
        it, st = r["I"], r["S"]
        r["spec"] = None
        if it is None or st is None:
            return r
        k = 0
        for j in range(len(it)):
            a = it[j].split("#")[0]
            if a.startswith("F") or "|" not in a:
                r["spec"] = (j, a, "no fault")
                break
            msgs = a.rsplit("|", 1)[0]
            if msgs == "-":
                continue
            b = st[j] if j < len(st) else "L:"
            frames = b[2:].split(",") if len(b) > 2 else []
            for m in msgs.split(","):
                idx = None
                for q in range(k, len(frames)):
                    if frames[q] == m:
                        idx = q
                        break
                if idx is None:
                    r["spec"] = (j, a, "a message among the reference decodings %s of the remaining frames" % ",".join(frames[k:][:6]))
                    break
                k = idx + 1
            if r["spec"]:
                break
        return r

    def evaluate(self, cases, workdir, tagsuffix=""):
        """flat decoder cases: harness c03_decode.c against DecModel.v; ring cases (R ...): delegated to the ring-level harness and
        model of the C02 check (the same binaries), with the C03 verdict"""
        import c02
        flat = [(i, c) for i, c in enumerate(cases) if not c.startswith("R ")]
        ring = [(i, c) for i, c in enumerate(cases) if c.startswith("R ")]
        res = [None] * len(cases)
        errs = []
        if flat:
            rr, e = super().evaluate([c for _, c in flat], workdir, tagsuffix)
            errs += e
            for (i, _), r in zip(flat, rr):
                res[i] = r
        if ring:
            tr = []
            for _, c in ring:
                t = c.split()
                tr.append(" ".join([t[1], "8", "0", t[2], t[3]] + [self.RING_OPS.get(x, x) for x in t[4:]]))
            rr, e = c02.PROP.evaluate(tr, workdir, tagsuffix + "ring")
            errs += e
            for (i, _), r in zip(ring, rr):
                res[i] = self.ring_verdict(r)
        return res, errs

    def split(self, case):
        t = case.split()
        hdr, rest = t[:4], t[4:]
        ar = {"vis": 1, "dec": 0, "peek": 0, "reset": 0, "size": 1, "rraw": 1, "rrecv": 0, "rpeek": 1, "rpeekn": 1}
        ops = []
        i = 0
        while i < len(rest):
            n = ar[rest[i]]
            ops.append(rest[i:i + n + 1])
            i += n + 1
        return hdr, ops

    def shrink_candidates(self, case):
        hdr, ops = self.split(case)
        for k in range(len(ops)):
            yield self.join(hdr, ops[:k] + ops[k + 1:])
        if hdr[2] != "100000":
            yield self.join([hdr[0], hdr[1], "100000", hdr[3]], ops)
        s = hdr[3]
        if s != "-" and len(s) > 2:
            yield self.join([hdr[0], hdr[1], hdr[2], s[:-2]], ops)
            yield self.join([hdr[0], hdr[1], hdr[2], s[2:]], ops)

    def classify(self, case):
        hdr, ops = self.split(case)
        cl = {"variant" + hdr[0]}
        if hdr[2] != "100000":
            cl.add("multi-fragment")
        if int(hdr[1]) == 0:
            cl.add("no-slack")
        nv = sum(1 for o in ops if o[0] == "vis")
        if nv > 1:
            cl.add("segmented")
        for o in ops:
            if o[0] in ("peek", "reset", "size"):
                cl.add("op:" + o[0])
        return cl

    @staticmethod
    def rand_layout(rng, total, slack=0):
        """fragment lengths with borders at random positions (some just behind the room in front, zero-length fragments between)"""
        k = rng.choice([0, 1, 1, 2, 3, 5])
        pts = sorted(rng.choice([rng.randrange(0, total + 1), rng.randrange(0, total + 1), slack, max(0, slack - 1), max(0, slack - 2)]) for _ in range(k))
        out, pos = [], 0
        for q in pts:
            out.append(str(q - pos)); pos = q
            if rng.random() < 0.15:
                out.append("0")
        return ",".join(out + ["100000"])

    def script(self, rng, total, slack, nframes, cuts):
        ops = []
        for c in cuts + [total]:
            ops += ["vis", str(slack + c), "dec"]
            if rng.random() < 0.15:
                ops += ["peek"]
            ops += ["dec"]
        ops += ["dec"] * nframes
        return ops

    def generate(self, rng, tier):
        cases = []
        L = 3 if tier == "quick" else 4
        # exhaustive over the boundary alphabet: every string x every 2-way cut x framings x slack {0,3}
        for n in range(0, L + 1):
            for s in itertools.product(BOUND, repeat=n):
                s = list(s)
                for v in range(4):
                    for slack in (0, 3):
                        for cut in range(0, max(1, n)):
                            ops = []
                            if cut:
                                ops += ["vis", str(slack + cut), "dec", "dec"]
                            ops += ["vis", str(slack + n), "dec", "dec", "dec", "dec"]
                            cases.append(" ".join([str(v), str(slack), "100000", hx(s)] + ops))
        # longer strings over the alphabet, random cuts, fragment layouts
        nr = 3000 if tier == "quick" else 80000
        for i in range(nr):
            v = i % 4
            n = rng.choice([4, 5, 6, 8, 12])
            s = [rng.choice(BOUND) for _ in range(n)]
            slack = rng.choice([0, 1, 2, 5, 16, 40])
            cuts = sorted(set(rng.randrange(0, n + 1) for _ in range(rng.choice([0, 1, 2, 3]))))
            ops = self.script(rng, n, slack, s.count(0), cuts)
            cases.append(" ".join([str(v), str(slack), rng.choice(LAYOUTS), hx(s)] + ops))
        # valid frames (several per stream), mutated, byte-wise / random segmentation
        nv = 3000 if tier == "quick" else 80000
        for i in range(nv):
            v = i % 4
            ml = 255 if v < 2 else 223
            stream = []
            nf = rng.choice([1, 1, 2, 3])
            for _ in range(nf):
                k = rng.random()
                if k < 0.25:
                    n = rng.choice([0, 1, 2, 3])
                elif k < 0.5:
                    n = (ml - 1) * rng.choice([1, 2]) + rng.choice([-2, -1, 0, 1, 2])
                else:
                    n = rng.randrange(0, 50)
                m = [0 if rng.random() < 0.2 else rng.choice(BOUND + [0x41, rng.randrange(1, 256)]) for _ in range(n)]
                if rng.random() < 0.25:
                    # long runs without a zero: maximal blocks (code MAXLEN) followed by a further block
                    run = rng.choice([ml - 2, ml - 1, ml, ml + 1, 2 * (ml - 1), 2 * (ml - 1) + 1])
                    m = [rng.randrange(1, 256) for _ in range(run)] + m[:rng.choice([0, 1, 3])]
                if n > 35 and rng.random() < 0.5:
                    p = rng.choice([0, 1, 30, 31])
                    m[p] = 0; m[p + 1] = 0
                stream += py_cobs(m, v)
            mut = rng.random()
            if mut < 0.3 and stream:
                for _ in range(rng.choice([1, 1, 2])):
                    p = rng.randrange(len(stream))
                    r = rng.random()
                    if r < 0.4:
                        stream[p] = rng.choice(BOUND)
                    elif r < 0.7:
                        stream.insert(p, rng.choice([0, 0, 1, 0xe0]))
                    else:
                        del stream[p]
            n = len(stream)
            # ZPE needs room before the data: sometimes too little on purpose
            slack = rng.choice([0, 0, 1, 2, 16, n + 16])
            k = rng.random()
            if k < 0.3 or n == 0:
                cuts = []
            elif k < 0.45 and n <= 60:
                cuts = list(range(1, n))
            else:
                cuts = sorted(set(rng.randrange(0, n + 1) for _ in range(rng.choice([1, 2, 4]))))
            ops = self.script(rng, n, slack, stream.count(0) + 1, cuts)
            if rng.random() < 0.1:
                ops = ["size", str(rng.randrange(0, 600))] + ops
            if rng.random() < 0.05:
                ops.insert(rng.randrange(len(ops) + 1) // 1, "reset") if False else None
            cases.append(" ".join([str(v), str(slack), rng.choice(LAYOUTS), hx(stream)] + ops))
        # the command decoder (variant 4: zero-terminated text, mechanism model Cobs/TextModel.cmd_call): texts in arbitrary
        # pieces over fragment layouts -- the header is written 2 bytes in front of the text, possibly across a fragment border
        nt = 2500 if tier == "quick" else 60000
        for i in range(nt):
            stream = []
            for _ in range(rng.choice([1, 1, 2, 3, 4])):
                stream += [rng.choice([0x41, 0x20, 0x01, 0xff, rng.randrange(1, 256)]) for _ in range(rng.choice([0, 1, 2, 3, 5, 9, 30]))] + [0]
            if rng.random() < 0.2:
                stream += [rng.randrange(1, 256) for _ in range(rng.choice([1, 4]))]        # unterminated tail
            if rng.random() < 0.15 and stream:
                stream.insert(rng.randrange(len(stream)), 0)                                 # empty text somewhere
            n = len(stream)
            slack = rng.choice([0, 1, 2, 2, 3, 5, 16])
            total = slack + n
            cuts = sorted(set(rng.randrange(0, n + 1) for _ in range(rng.choice([0, 1, 2, 4])))) if rng.random() < 0.7 else list(range(1, n))
            ops = []
            for c in cuts + [n]:
                ops += ["vis", str(slack + c), "dec"] + (["dec"] if rng.random() < 0.5 else [])
            ops += ["dec"] * (stream.count(0) + 1)
            cases.append(" ".join(["4", str(slack), self.rand_layout(rng, total), hx(stream)] + ops))
        # COMPLETE frames with ample room, everything readable, fragment borders anywhere (also inside the room in front and
        # exactly behind a frame's decoded bytes, where COBS/R stores the inlined tail byte): each call must DELIVER the next
        # frame (C03_call_never_refuses_complete_frame / dec_call_complete; checked by the specification, see compare)
        nc = 3000 if tier == "quick" else 80000
        for i in range(nc):
            v = i % 5
            ml = 255 if v < 2 else 223
            stream = []
            nf = rng.choice([1, 2, 2, 3, 4])
            for _ in range(nf):
                if v == 4:
                    stream += [rng.randrange(1, 256) for _ in range(rng.choice([0, 1, 2, 3, 7, 20]))] + [0]
                else:
                    n = rng.choice([0, 1, 2, 3, 4, 6, 9, 30, ml - 1, ml, ml + 3])
                    m = [0 if rng.random() < 0.2 else rng.randrange(1, 256) for _ in range(n)]
                    if m and rng.random() < 0.6:
                        m[-1] = rng.randrange(max(2, min(len(m) + 2, 255)), 256)     # large last byte: tail inline for COBS/R
                    stream += py_cobs(m, v)
            n = len(stream)
            slack = (n + 16 + rng.choice([0, 1, 7])) if v < 4 else rng.choice([2, 3, 5, n + 16])
            total = slack + n
            cases.append(" ".join([str(v), str(slack), self.rand_layout(rng, total, slack), hx(stream), "vis", str(total)] + ["dec"] * (nf + 1)))
        # ring level: mpt_queue_recv (incl. its MissingBuffer recovery) and mpt_queue_peek on rings of small capacities and
        # arbitrary offsets, fed with valid frames (long ZPE messages whose decoded part exceeds the 256-byte move chunks,
        # frames that wrap), mutated frames and arbitrary bytes, in arbitrary pieces, with peeks (with and without target) between
        nr = 1500 if tier == "quick" else 30000
        for i in range(nr):
            v = i % 4
            rcap = rng.choice([8, 12, 16, 17, 24, 32, 40, 64, 100, 300])
            roff = rng.randrange(0, rcap) if rng.random() < 0.7 else 0
            stream = []
            kind = rng.random()
            for _ in range(rng.choice([1, 2, 3])):
                if kind < 0.25 and v >= 2:
                    # long ZPE message: a long zero-free head, then zero pairs (the decoder runs out of scratch space late)
                    m = [rng.randrange(1, 256) for _ in range(rng.choice([200, 222, 223, 260, 300, 520]))]
                    for _ in range(rng.choice([2, 5, 10, 30])):
                        m += [rng.randrange(1, 256)] * rng.choice([0, 1, 2]) + [0, 0]
                else:
                    n = rng.choice([0, 1, 2, 3, 5, 9, 20, 60])
                    m = [0 if rng.random() < 0.3 else rng.randrange(1, 256) for _ in range(n)]
                f = py_cobs(m, v) + [0]
                if rng.random() < 0.3 and f:
                    k = rng.randrange(len(f))
                    c = rng.random()
                    if c < 0.4:
                        f[k] = rng.choice(BOUND)
                    elif c < 0.7:
                        f.insert(k, rng.choice(BOUND))
                    else:
                        del f[k]
                stream += f
            if kind > 0.85:
                stream = [rng.choice(BOUND + [0, 0, 1, 2]) for _ in range(rng.choice([1, 3, 8, 20]))]
            ops = []
            pos = 0
            while pos < len(stream):
                step = rng.choice([1, 1, 2, 3, 7, 16, 64, len(stream)])
                piece = stream[pos:pos + step]
                pos += step
                ops += ["rraw", hx(piece)]
                for _ in range(rng.choice([0, 1, 1, 2])):
                    r = rng.random()
                    if r < 0.7:
                        ops += ["rrecv"]
                    elif r < 0.85:
                        ops += ["rpeek", str(rng.choice([0, 1, 4, 13, 64, 600]))]
                    else:
                        ops += ["rpeekn", str(rng.choice([0, 1, 13, 600]))]
            ops += ["rrecv"] * rng.choice([2, 3, 5])
            cases.append(" ".join(["R", str(v), str(rcap), str(roff)] + ops))
        return cases

PROP = C03()
