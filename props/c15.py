"""C15 — reference counts track handles exactly (mptcore/misc/refcount.c, array/buffer_alloc.c, array/array_clone.c,
array/array_traits.c, convert/data_converter.c, meta/meta_reference_traits.c, meta/meta_geninfo.c, array/meta_buffer.c,
event/reply_deferrable.c (+ event/reply_set.c: the reply context with its reply data, detached replies and default reply), core.h reference<T> (also for objects that own a reference<T> to another object of their family), mpt++/refcount_wrap.cpp, mpt++/metatype_generic.cpp, mptplot/rawdata_create.c,
mptplot/values/iterator_file.c, mptio stream input)."""
import itertools
import os
from vcheck import DiffProperty, ASAN_LEAK_ENV, build_harness, build_model, run_cases

MAX = "ffffffffffffffff"
MAX1 = "fffffffffffffffe"
ARITY = {"new": 2, "mbuf": 2, "addref": 2, "unref": 1, "clone": 2, "conv": 2, "rinit": 3, "rfini": 2, "rcopy": 0,
         "aclone": 2, "aclear": 1, "detach": 1, "detachf": 1, "setin": 2, "defer": 2, "force": 2, "unforce": 0,
         "xnew": 1, "xassign": 2, "xcopy": 2, "xmove": 2, "xdetach": 2, "xset": 2, "xdrop": 1, "xgen": 1, "xclone": 2,
         "modify": 3, "advance": 1, "rget": 2, "rread": 1, "rconv": 1, "xsetnext": 2, "xnext": 2,
         "pnew": 2, "pset": 3, "pdefer": 2, "psend": 2, "preply": 2, "paddref": 2, "punref": 1, "pfail": 1,
         "set": 1, "raise": 0, "lower": 0}
MKINDS = ["hcnt", "huni", "gen", "cfg", "top", "reply", "raw", "stream", "iterf", "itern"]      # created by "new" in a metatype slot
COUNTED = ["hcnt", "reply", "raw", "stream", "iterf", "itern"]
CLONEABLE = ["huni", "gen", "cfg", "mbuf", "itern"]
# rawdata->advance() on an object WITHOUT stage buffer creates an untyped buffer: value stores assigned later are never
# released (docs/C15_rawdata_advance.diff).  The model is the patched code.  While the patch is not in the tree the
# generator emits `advance` only where the object is known to own a stage buffer; set to True after the fix is committed.
ADVANCE_EMPTY = True   # constant since the fix f56bd43 is committed: a returning defect is reported
# mpt_rawdata_type_traits() registers "mpt.rawdata" again on every call (its cache variable is not static), so only the FIRST
# call of a process returns the type: afterwards a rawdata object no longer converts to its own interface by type id and
# reports TypeMetaPtr as its type (replay `c new raw 0 rconv 0`, patch docs/C15_rawdata_type_traits.diff; no reference is
# involved: outside the C15 statement, closest to C06).  `rconv` (the conversion, three times) is generated only when True.
RAWDATA_TYPE_STABLE = True
RAW_OPS = ["modify 0 0 0", "modify 1 1 1", "modify 0 2 2", "modify 0 0 3", "modify 1 0 4", "rget 0 6", "rget 1 7",
           "setin 0 6", "setin 1 7", "aclear 6", "rread 0", "new buf 7", "aclone 7 6"]
BKINDS = ["buf", "hbuf"]
C_CLEAN = ["unforce"] + ["unref %d" % i for i in range(6)] + ["aclear %d" % i for i in (6, 7, 8)] + ["unref %d" % i for i in (9, 10, 11)]
X_CLEAN = ["unforce"] + ["xdrop %d" % i for i in (12, 13, 14)] + ["unref %d" % i for i in (15, 16, 17)]
N_CLEAN = ["xdrop %d" % i for i in (12, 13, 14)] + ["unref %d" % i for i in (15, 16, 17)]
# family n (linked nodes): operations tried after a chain has been built
N_OPS = ["xnext 12 12", "xnext 12 13", "xnext 13 13", "xnext 13 12", "xassign 12 13", "xassign 13 12", "xmove 12 13", "xmove 13 12",
         "xcopy 12 13", "xdrop 12", "xdrop 13", "xnew 13", "xnew 14", "xsetnext 12 13", "xsetnext 13 12", "xsetnext 14 12",
         "xsetnext 12 14", "xdetach 12 15", "xset 15 13", "addref 15 16", "unref 15", "unref 16"]
# family p (deferrable reply context): clean-up in two orders (detached replies first / metatype handles first)
P_CLEAN = (["pfail 0"] + ["preply %d 0" % i for i in (9, 10, 11)] + ["punref %d" % i for i in range(6)],
           ["pfail 0"] + ["punref %d" % i for i in range(6)] + ["preply %d 1" % i for i in (11, 10, 9)])
P_OPS = ["pset 0 2 11", "pset 0 4 22", "pset 0 0 1", "pset 0 5 3", "pdefer 0 9", "pdefer 0 10", "pdefer 1 11", "psend 0 1", "psend 0 0",
         "preply 9 1", "preply 9 0", "preply 10 1", "paddref 0 1", "punref 0", "punref 1", "pfail 1", "pfail 0",
         "pnew 2 8", "pset 2 8 33", "pdefer 2 11"]
# base flows into which a defer() is inserted at EVERY position (accepted where an id is pending, refused elsewhere)
P_FLOWS = [["pset 0 2 11", "pdefer 0 9", "pset 0 2 22", "preply 9 1", "punref 0"],
           ["pset 0 2 11", "psend 0 1", "pset 0 4 22", "pdefer 0 9", "punref 0", "preply 9 1"],
           ["pset 0 2 11", "paddref 0 1", "pdefer 1 9", "punref 0", "pset 1 2 22", "pdefer 1 10", "preply 10 0", "punref 1", "preply 9 1"],
           ["pset 0 4 11", "pfail 1", "psend 0 1", "pdefer 0 9", "preply 9 1", "pfail 0", "preply 9 1", "pset 0 1 5", "punref 0"],
           ["pset 0 2 11", "pdefer 0 9", "pset 0 2 22", "pdefer 0 10", "pset 0 2 33", "preply 10 1", "preply 9 0", "punref 0"],
           ["pnew 2 8", "pset 2 8 44", "pset 0 2 11", "pdefer 2 9", "pdefer 0 10", "punref 2", "punref 0", "preply 9 1", "preply 10 1"],
           ["pset 0 0 1", "pset 0 5 3", "pset 0 3 7", "pset 0 0 1", "punref 0"]]


def pcase(ops, k=0):
    return " ".join(["p", "pnew 0 4"] + list(ops) + P_CLEAN[k % 2])


def ccase(ops):
    return " ".join(["c"] + list(ops) + C_CLEAN)


def xcase(ops):
    return " ".join(["x"] + list(ops) + X_CLEAN)


def gcase(ops):
    return " ".join(["g"] + list(ops) + X_CLEAN)


def ncase(ops):
    return " ".join(["n"] + list(ops) + N_CLEAN)


def chain(n, d=12, t=13):
    """n nodes, each owning a reference to the one created before it; afterwards slot d holds the head (the node created
    last) and NOTHING else holds any of them: every other node lives through its predecessor only"""
    ops = ["xnew %d" % d]
    for _ in range(n - 1):
        ops += ["xnew %d" % t, "xsetnext %d %d" % (d, t), "xmove %d %d" % (t, d)]
    return ops


def mk(kind, d, a=6):
    """operations that put a fresh object of `kind` into metatype slot d (mbuf needs a buffer in array slot a)"""
    if kind == "mbuf":
        return ["new buf %d" % a, "mbuf %d %d" % (a, d)]
    return ["new %s %d" % (kind, d)]


class C15(DiffProperty):
    pid = "C15"
    claimed = True
    coq_dir = "C15"
    extract_vo = "C15/Extract.vo"
    mlname = "c15_model"
    driver = "c15_driver.ml"
    harness_src = "c15_refs.c"          # the C++ part c15_cxx.cpp is built by evaluate() below
    libs = ["mptcore", "mptplot", "mptio"]
    harness_args = ("60",)             # per-case wall-clock limit [s]: the LeakSanitizer pass stops the world, slow on a loaded machine
    harness_env = dict(ASAN_LEAK_ENV, ASAN_OPTIONS=ASAN_LEAK_ENV["ASAN_OPTIONS"] + ":symbolize=0",
                       LSAN_OPTIONS="exitcode=23:print_suppressions=0")
    rule = ("a case = one history of handle operations over up to three objects and up to six handle slots per kind, run from an "
            "empty state, followed by a clean-up (counters given back, every slot dropped) and a LeakSanitizer pass; families: "
            "c = C object kinds (harness counted/unique metatypes and buffer with logging vtables; library buffer, geninfo, meta "
            "buffer, config root and static top, deferrable reply context, rawdata (plot data object) with its stage buffer, stream input, file iterator by descriptor / by name) under new/addref/unref/clone/"
            "assignment through conversion/reference-traits init+fini (metatype, input and array traits)/element-wise reference "
            "array copy/array clone+clear/buffer detach (also with a refused content copy)/rawdata modify (scalar, vector, offset, refused type or cycle)+advance+stage "
            "array shared out into an array and handed to another rawdata object+accessors/reply defer/counter field forced to 1,2,max-1,max; "
            "x = mpt++ reference<T> under set_instance/copy-assign/copy-construct/move/detach/raw addref+unref/forced counter; "
            "g = the same operations plus clone on metatype::generic objects held by reference<metatype>; "
            "n = linked nodes: harness objects that OWN a reference<node> next, under the operations of x (no forced counter) plus "
            "next-of-the-object-in-slot-d := slot s (only towards an older object: no cycles) and slot d := next of the object in "
            "slot s (s = d: cur = cur->next): chains of 1..4 nodes built from the tail and held by ONE outside handle, walked to the "
            "end, with sharers on middle nodes, cut and re-linked; every history of length <= 2 (thorough: <= 3) over 22 operations "
            "after a chain of 1, 2, 3 nodes plus a 3 % sample of length 3, plus 500 random histories; "
            "p = the deferrable reply context of reply_deferrable.c with a recording send callback: create (id size 0..65536), set "
            "reply data (id length 0..16, accepted / too long), defer (accepted; REFUSED: nothing pending, second defer, after the "
            "answer was sent, after the id was cleared), answer through the context and through a detached reply with / without "
            "message while the transport works / refuses, metatype addref / unref, handles dropped in every order (two clean-up "
            "orders); 7 flows with a defer (single, double, on the second metatype handle, followed by its default reply) "
            "inserted at EVERY position, every history of length <= 2 (thorough <= 3) over 20 operations plus a 12 % sample of "
            "length 3, 1000 random histories of length 4..15; observed per operation: result, every call of the send callback "
            "(context, id, message or default reply), counter field, reply target, pending id of every context, every "
            "detached reply with the id it took over, destruction (ASan) and LeakSanitizer at the end; "
            "r,y = the bare counter through mpt_refcount_raise/lower and refcount::raise/lower from 0,1,2,max-1,max. quick: EVERY "
            "ordered pair (old kind, new kind) x shared/unshared x {conversion, traits init, rcopy} x target empty/held/same, "
            "every history of length <= 2 over a per-kind alphabet of 17..25 operations (plus a 6 % sample of length 3; x: "
            "length <= 2 over 20 operations, g: length <= 2 over 22 operations), every counter boundary value x every sharing operation, every raise/lower "
            "sequence of length <= 4 from each of 8 start values, plus 3000 random histories of length 4..14 mixing kinds; "
            "thorough: all histories of length <= 3, raise/lower sequences <= 8 and 70000 random histories. A case is non-trivial when it shares, "
            "replaces or destroys at least one handle (every generated case does); distinct = distinct case text")
    modelled = ("mptcore/misc/refcount.c, array/buffer_alloc.c (vtable addref/unref/detach for untyped content), array/array_clone.c, "
                "array/array_traits.c, meta/meta_reference_traits.c, mptio/input_traits.c, convert/data_converter.c "
                "(_mpt_metatype_wrap, TypeMetaRef target), meta/meta_geninfo.c, array/meta_buffer.c, config/config_global.c "
                "(reference part), event/reply_deferrable.c (counter, defer, deferred reply without message) as kind KReply of "
                "RefcountModel.v and in full (contextSend / contextSet / contextDefer with the pending-id test / deferReply with the kept "
                "handle on a refused message / contextDetach / contextRef / contextUnref with target cut and default reply, "
                "mpt_reply_deferrable, event/reply_set.c) in coq/C15/ReplyModel.v (own state space: contexts + metatype slots + "
                "detached-reply slots + transport flag), "
                "mptplot/rawdata_create.c (object + its stage array: create, addref/unref, clone refused, modify/advance as far as they create, "
                "detach or keep the stage buffer, cycle limit 0; the value store arrays and data buffers INSIDE a stage buffer are contents: "
                "typed copy/fini loops of C04/C05, checked here by a harness monitor and the sanitizers only), "
                "mptplot/values/iterator_file.c and mptio/stream/stream_input.c (reference part), core.h reference<T>, "
                "mpt++/refcount_wrap.cpp, mpt++/metatype_generic.cpp (addref/unref/clone) transcribed in coq/C15/RefcountModel.v; "
                "core.h reference<T> once more for a class with a member reference<T> (type::unref -> delete -> member destructor -> "
                "unref of the successor: the destruction cascade; operator= retains before it releases) in coq/C15/ChainModel.v "
                "(own state space: the node family shares no object with the other kinds; ownership restricted to older objects); "
                "not modelled: mptcore/array/buffer_map.c (its constructor can never succeed: page size test inverted), "
                "mptio/output_remote.c, mptplot/history/output_local.c, mpt++/io_buffer_metatype.cpp, io_stream_input.cpp; contents of buffers, typed buffer elements "
                "(C04/C05), reply transport (C12), malloc failure and threads are not modelled")
    trusted = ["harness/c15_refs.c and c15_cxx.cpp read every counter FIELD from the structure (library .c files are #included), "
               "observe destruction with __asan_address_is_poisoned on the object's block (freed blocks stay in ASan's quarantine) and, "
               "for their own vtables, with an addref/unref/destroy call log; LeakSanitizer (__lsan_do_recoverable_leak_check) after "
               "every case reports objects neither freed nor reachable",
               "uintptr_t is 64 bit (checked by the harness at run time; the model's modulus is 2^64)",
               "the element-wise copy loop with undo of ORefCopy is the harness' own (the traits contract), not library code",
               "rawdata: after every operation the harness walks every existing stage buffer and compares the counter field of each value "
               "store array with the number of stages referring to it and checks that every data buffer exists (token suffix !nested); "
               "values/dimension_count/stage_count/convert results are compared with the structure read back by the harness (rread); "
               "the stage member is only ever given stage buffers (setin restricted), all objects have cycle limit 0",
               "family n: the node class (virtual destructor logging the destruction, member reference<Node> next) is the harness' own; the "
               "guard that an object only owns handles on objects created before it (no cycles) is enforced by harness and model alike",
               "family p: the send callback is the harness' (returns 7, or -5 while the case's transport flag is set; it records context, "
               "id length, id, message pointer and checks the reply flag 0x80 on the id); ids are 1..127 repeated over the id length; "
               "counter, reply.send, data.len/val of the context and the data of every detached reply are read from the structures "
               "(reply_deferrable.c is #included); the harness treats a detached reply as consumed iff reply() returned >= 0",
               "c15_cxx.cpp reads the private counter member of metatype::generic by compiling meta.h with private/protected "
               "redefined to public (no layout change with g++)"]
    level_text = ("proof: Coq theorems (coq/C15/Properties.v) state for the transcribed mechanism, for EVERY history of the 30 handle "
                  "operations from the empty state (induction over the operation list, no bound on length, objects or counter "
                  "values) and all 16 object kinds: REFINEMENT of the counter-free handle-multiset specification (RefcountSpec.v: "
                  "state = created objects + slots, step = handle moves, alive/count/shareable DERIVED from the handles) by the "
                  "mechanism model (counter fields, destruction flags, vtable calls): every operation from every pair of related "
                  "states returns the specification's output and ends in a state related to the specification's next state "
                  "(C15_step_refines_spec; with the abstraction function: abs(model step) = clean(spec step(abs state)), "
                  "C15_step_commutes_with_abstraction); related states have the same observation and leak verdict "
                  "(C15_refinement_preserves_observation); for every history the model's observation sequence IS the "
                  "specification's (C15_history_refines_spec, C15_spec_observation_agrees, C15_spec_leak_agrees). Corollaries for "
                  "all histories: an object is destroyed exactly when the last handle (as counted by the specification's own "
                  "run) is dropped, never earlier, never later, and a live counter equals that handle count "
                  "(C15_destroyed_iff_last_handle_dropped, C15_destroy_exactly_at_zero, C15_count_is_handles, "
                  "C15_unreachable_only_if_forced, C15_unique_has_one_handle, C15_history_never_faults); a saturated counter or "
                  "a kind without counter refuses the share with the failure result and changes nothing observable "
                  "(C15_saturated_share_refused, C15_raise_refuses_zero_and_max, C15_lower_returns_remaining, "
                  "C15_counter_refines_spec); replacing a held reference by conversion, array clone or reference<T>::operator= "
                  "releases the old referent once and retains the new one once, any kind, target empty/held/same "
                  "(C15_assign_any_form_releases_old_once_retains_new_once, C15_assign_releases_old_once_retains_new_once, "
                  "C15_assign_refused_unchanged, C15_assign_same_unchanged); modify/advance of the plot data object never change a sharer's slot, "
                  "a shared stage buffer is detached for the object (C15_rawdata_modify_keeps_sharers); "
                  "OWNED handles of the same family (ChainModel.v / ChainSpec.v, 11 operations on linked nodes, every history): the model with "
                  "counters, destruction flags, retain-then-release operator= and the destruction cascade refines a specification that "
                  "only records which handle each object owns and what each slot holds and DERIVES existence and counts (an owned handle "
                  "of an existing object is a handle) — step refinement from every related pair, same observation, history refinement, no "
                  "fault, destroyed iff no handle left (C15_chain_step_refines_spec, C15_chain_refinement_preserves_observation, "
                  "C15_chain_history_refines_spec, C15_chain_history_never_faults, C15_chain_destroyed_iff_last_handle_dropped, "
                  "C15_chain_step_preserves_invariant); the cascade through owned handles terminates, restores the invariant and consumes "
                  "exactly the released handle (C15_chain_release_cascade); cur = cur->next keeps the successor alive even when the old "
                  "head held the only handle on it and dies in that assignment (C15_chain_step_keeps_successor; Example "
                  "C15_ex_release_first_faults: with release-before-retain the same step uses a destroyed object); "
                  "DEFERRABLE REPLY CONTEXT (ReplyModel.v / ReplySpec.v / ReplySim.v, 8 operations, every history): the model with counter, "
                  "destruction flag and length-field reply data refines a specification that keeps only the handles (metatype slots, "
                  "detached replies with the id they took over), the pending id and the reply target and DERIVES count and existence — "
                  "a commuting square with the abstraction function from every state satisfying counter = handles: same result, same "
                  "calls of the send callback, successor = abstraction of the successor (C15_reply_step_refines_spec), same "
                  "observation, no leak (C15_reply_refinement_preserves_observation), history refinement without fault "
                  "(C15_reply_history_refines_spec), destroyed iff the specification's own run has no handle left and a live counter = "
                  "its handle count (C15_reply_destroyed_iff_last_handle_dropped); a defer() with nothing pending hands out nothing and "
                  "leaves state, counter and handles exactly unchanged (C15_reply_refused_defer_unchanged); dropping the last handle of a "
                  "context with target and pending id sends the default reply for that id exactly once and destroys it "
                  "(C15_reply_last_unref_sends_default_reply_once); "
                  "the invariant is inductive from any state "
                  "(C15_step_preserves_invariant); the model is tied to the code on every run by differential execution under "
                  "ASan/UBSan/LSan with counter fields, destruction time and vtable call order compared")
    level_note = ("trusted: Coq kernel; hand transcription of the C/C++ sources (validated by the correspondence run, not verified); "
                  "extraction and OCaml driver; harness. The executable handle-multiset specification that is the oracle of the "
                  "check is now tied to the model by a proved step and history refinement (no longer only state-wise). Exact "
                  "wording of the commuting square: abs(step s o) = sclean(sstep(abs s) o) with equal outputs, where sclean erases "
                  "the records of objects the specification no longer counts as existing (it never erases a record, the model "
                  "clears the owned handle of a destroyed owner; Example C15_ex_owner_history shows a state where they differ); "
                  "the uncleaned specification state is related to the model state as well. The guard (harness preconditions) is "
                  "shared by model and specification. Still outside the proofs: "
                  "kinds whose destruction is seen only through ASan/LSan (stream input, rawdata, reply context, geninfo, meta "
                  "buffer, config root) are correspondence-level for the destruction TIME; buffer contents / typed elements "
                  "(C04/C05) and reply transport (C12) are outside. The theorems hold for the tree with the fix: commits "
                  "(data_converter.c, input_traits.c, array_clone.c, buffer_alloc.c detach failure path, metatype_generic.cpp). "
                  "The rawdata advance() defect is fixed in the tree (f56bd43; ADVANCE_EMPTY is a constant). "
                  "Linked nodes: the node family has its own model and specification (ChainModel.v/ChainSpec.v) instead of being a 17th "
                  "kind of RefcountModel.v — the main invariant says an owned object owns nothing, generalising it was not attempted; the "
                  "two share counter, slot numbering, observation format and proof technique. An object may own handles on OLDER "
                  "objects only (guard shared by harness, model and specification): ownership is acyclic by construction, existence is "
                  "computed from the youngest object down, the cascade's fuel bound is the object id; cycles (which leak by design) "
                  "are not explored. Counters of nodes are not forced (the saturated-counter path of operator= is covered by families "
                  "x and g). NOT YET IN THE TREE: mpt_rawdata_type_traits() registers its type name on every call (cache variable not "
                  "static), from the second call of a process on a rawdata object does not convert to its own interface any more "
                  "(replay c new raw 0 rconv 0: I ?iface, S D; patch docs/C15_rawdata_type_traits.diff; no reference involved, belongs "
                  "to the type registry's clients rather than C15); rconv cases are generated only with RAWDATA_TYPE_STABLE = True. "
                  "Reply context: own model and specification (third state space beside RefcountModel.v and ChainModel.v; kind KReply of the "
                  "main model stays, there defer() is always preceded by a pending request); counters are not forced in family p (the "
                  "saturated counter makes defer/addref refuse in model and specification, proved, but no case reaches 2^64-1 handles); "
                  "that a non-final metatype unref cuts the reply target (reply.send = 0) is modelled AS CODED in model and "
                  "specification (owner gone; C12's subject), so a context whose last handle is a detached reply never sends a default "
                  "reply; the message content and reply.ptr = 0 are outside (C12). "
                  "All theorems closed under the global context.")
    technique = ("Coq forward-simulation (refinement) proof mechanism model -> handle-multiset specification for every operation and "
                 "every history, invariant counter = handle multiset + differential correspondence check")
    assumptions = ["malloc succeeds", "single thread", "uintptr_t has 64 bits"]

    # family g (metatype::generic) runs under the full sanitizer options like every other family: the allocator
    # mismatch of metatype::generic::unref() was repaired in /repo (fix e591081, known_findings.json kind "fixed");
    # if it returns, ASan's alloc-dealloc-mismatch makes the g cases fail and the check reports a VIOLATION
    generic_env = harness_env

    # ---- two harnesses: C (families c, r) and C++ (families x, y, g)
    def evaluate(self, cases, workdir, tagsuffix=""):
        hc = build_harness("c15_refs.c", ["mptcore", "mptplot", "mptio"])
        hx = build_harness("c15_cxx.cpp", ["mpt++", "mptcore"])
        mx = build_model(self.mlname, self.driver, self.extract_vo)
        ided = ["c%d %s" % (i, c) for i, c in enumerate(cases)]
        fam = lambda l: l.split(None, 2)[1]
        I, errs = {}, []
        for exe, fams, tag, env in ((hc, ("c", "r", "p"), "implc", self.harness_env), (hx, ("x", "y", "n"), "implx", self.harness_env),
                                    (hx, ("g",), "implg", self.generic_env)):
            sub = [l for l in ided if fam(l) in fams]
            if sub:
                o, e = run_cases(exe, sub, workdir, tag + tagsuffix, env=env, args=self.harness_args)
                I.update(o.get("I", {}))
                errs += e
        M, e2 = run_cases(mx, ided, workdir, "model" + tagsuffix)
        res = []
        for i, c in enumerate(cases):
            k = "c%d" % i
            res.append(self.compare(c, I.get(k), M.get("M", {}).get(k), M.get("S", {}).get(k)))
        return res, errs + e2

    def project(self, tok):
        p = tok.split("|")
        return "|".join(p[:3]) if len(p) == 4 else tok

    def split(self, case):
        t = case.split()
        hdr, rest = t[:1], t[1:]
        ops, i = [], 0
        while i < len(rest):
            n = ARITY.get(rest[i], 0)
            ops.append(rest[i:i + n + 1])
            i += n + 1
        return hdr, ops

    def classify(self, case):
        hdr, ops = self.split(case)
        cl = {"family:" + hdr[0]}
        nclean = (len(C_CLEAN) if hdr[0] == "c" else len(X_CLEAN) if hdr[0] in ("x", "g") else len(N_CLEAN) if hdr[0] == "n"
                  else len(P_CLEAN[0]) if hdr[0] == "p" else 0)
        body = ops[:len(ops) - nclean] if nclean and len(ops) >= nclean else ops
        for k, o in enumerate(body):
            cl.add("op:" + o[0])
            if o[0] == "pdefer" and k and body[k - 1][0] == "pdefer" and body[k - 1][1] == o[1]:
                cl.add("defer-twice")
            if o[0] == "pdefer" and k and body[k - 1][0] in ("psend", "pnew"):
                cl.add("defer-nothing-pending")
            if o[0] == "preply":
                cl.add("detached-reply:" + ("message" if o[2] != "0" else "default"))
            if o[0] == "new":
                cl.add("kind:" + o[1])
            if o[0] == "mbuf":
                cl.add("kind:mbuf")
            if o[0] == "xnew":
                cl.add("kind:cxx" if hdr[0] != "n" else "kind:node")
            if o[0] == "xnext" and o[1] == o[2]:
                cl.add("step-along-chain")
            if o[0] == "xgen":
                cl.add("kind:xgen")
            if o[0] == "force":
                cl.add("force:" + ("max" if o[2] == MAX else "max-1" if o[2] == MAX1 else "small"))
            if o[0] == "set":
                cl.add("start:" + ("max" if o[1] == MAX else "max-1" if o[1] == MAX1 else o[1]))
            if o[0] in ("conv", "aclone", "xassign", "xcopy", "xmove", "xset", "setin") and o[1] == o[2]:
                cl.add("self-assign")
        return cl

    def shrink_candidates(self, case):
        hdr, ops = self.split(case)
        n = len(ops)
        # drop the whole clean-up, then single operations, then simplify forced values
        for k in (len(C_CLEAN), len(X_CLEAN), len(N_CLEAN), len(P_CLEAN[0])):
            if n > k:
                yield self.join(hdr, ops[:n - k])
        for k in range(n):
            yield self.join(hdr, ops[:k] + ops[k + 1:])
        for k, o in enumerate(ops):
            if o[0] == "force" and o[2] not in ("2",):
                yield self.join(hdr, ops[:k] + [[o[0], o[1], "2"]] + ops[k + 1:])

    # ---- generator
    def pair_cases(self):
        """assignment of a new referent over an old one: every (old kind, new kind), shared or not, every path"""
        cs = []
        kinds = MKINDS + ["mbuf"]
        for old in kinds + [None]:
            for new in kinds + [None]:
                for so in (0, 1):
                    for sn in (0, 1):
                        if (old is None and so) or (new is None and sn):
                            continue
                        pre = []
                        if new:
                            pre += mk(new, 0, 6)
                            if sn:
                                pre += ["addref 0 2"]
                        if old:
                            pre += mk(old, 1, 7)
                            if so:
                                pre += ["addref 1 3"]
                        cs.append(ccase(pre + ["conv 0 1", "conv 0 1", "conv 1 1", "conv 4 1"]))
                        cs.append(ccase(pre + ["conv 1 0", "unref 1", "conv 1 0"]))
                        if old is None:
                            cs.append(ccase(pre + ["rinit 0 0 1", "rfini 0 1", "rinit 1 0 1", "rfini 1 1", "rinit 0 1 5"]))
                        cs.append(ccase(pre + ["rcopy", "rfini 0 3", "rfini 1 4", "rcopy"]))
        for k1, k2 in itertools.product(BKINDS + [None], repeat=2):
            for so in (0, 1):
                pre = []
                if k1:
                    pre.append("new %s 6" % k1)
                if k2:
                    pre.append("new %s 7" % k2)
                    if so:
                        pre.append("addref 7 8")
                cs.append(ccase(pre + ["aclone 6 7", "aclone 6 7", "aclone 7 7", "aclear 6", "aclone 6 7"]))
                cs.append(ccase(pre + ["rinit 0 6 8", "rfini 0 7", "rinit 0 7 7", "detach 7", "detach 6"]))
        cs += self.raw_cases()
        return cs

    def raw_cases(self):
        """the plot data object: its stage buffer created, shared out, detached on modify, handed to another object"""
        cs = []
        adv = ["advance 0"]
        for share in ([], ["rget 0 6"], ["rget 0 6", "addref 6 7"], ["rget 0 6", "mbuf 6 1", "clone 1 2"],
                      ["rget 0 6", "new raw 1", "setin 1 6"], ["rget 0 6", "new raw 1", "setin 1 6", "aclear 6"],
                      ["addref 0 1", "rget 1 7", "rinit 0 7 8"]):
            for mod in (["modify 0 0 0"], ["modify 0 1 1", "modify 0 0 2"], ["modify 0 0 3", "modify 0 0 4"], ["rread 0"], adv,
                        adv + ["modify 0 1 0"], ["modify 1 0 0", "modify 0 0 0"]):
                cs.append(ccase(["new raw 0", "modify 0 0 0"] + share + mod +
                                ["rread 0", "rget 0 8", "aclear 6", "modify 0 2 0", "rread 1", "setin 0 7", "modify 0 0 1", "unref 0"]))
                cs.append(ccase(["new raw 0"] + share + ["modify 0 0 0"] + mod + ["unref 0", "rread 1", "aclear 6"]))
        # mpt_array_clone refuses to replace a typed (stage) buffer by an untyped one and the other way round
        for k in BKINDS:
            for ops in (["rget 0 8", "aclone 6 8", "aclone 8 6"], ["rget 0 6"], ["rget 0 7", "aclone 7 6", "aclone 6 7", "rinit 0 7 8"],
                        ["rget 0 8", "new raw 1", "setin 1 6", "setin 1 8", "rget 1 6", "aclear 6", "rget 1 6"]):
                cs.append(ccase(["new raw 0", "modify 0 0 0", "new %s 6" % k] + ops + ["rread 0", "modify 0 1 1", "unref 0"]))
        if RAWDATA_TYPE_STABLE:
            for ops in (["rconv 0"], ["modify 0 0 0", "rconv 0", "rget 0 6", "rconv 0"], ["rread 0", "rconv 0", "addref 0 1", "rconv 1"],
                        ["rconv 0", "new raw 1", "rconv 1", "rconv 0", "unref 0", "rconv 1"]):
                cs.append(ccase(["new raw 0"] + ops + ["unref 0"]))
        if ADVANCE_EMPTY:
            for tail in ([], ["modify 0 0 0"], ["rget 0 6", "modify 0 0 0"], ["rget 0 6", "new raw 1", "setin 1 6", "modify 1 0 0", "modify 0 1 1"]):
                cs.append(ccase(["new raw 0", "advance 0"] + tail + ["rread 0", "unref 0"]))
                cs.append(ccase(["new raw 0", "modify 0 0 0", "setin 0 8", "advance 0"] + tail + ["rread 0", "unref 0"]))
        return cs

    def alphabet(self, kind):
        a = ["addref 0 1", "addref 1 2", "unref 0", "unref 1", "unref 2", "clone 0 1", "clone 1 2", "conv 0 1", "conv 1 0",
             "conv 2 0", "conv 1 1", "rinit 0 0 2", "rinit 1 1 2", "rfini 0 0", "rfini 1 2", "rcopy", "rfini 0 3"]
        if kind == "reply":
            a += ["defer 0 9", "defer 1 10", "unref 9", "unref 10"]
        if kind == "raw":
            a += RAW_OPS + (["advance 0", "advance 1"] if ADVANCE_EMPTY else []) + (["rconv 0"] if RAWDATA_TYPE_STABLE else [])
        if kind == "mbuf":
            a += ["aclear 6", "addref 6 7", "detach 6", "aclear 7"]
        if kind in COUNTED:
            a += ["force 0 " + MAX, "force 0 " + MAX1, "force 0 2", "unforce"]
        return a

    def history_cases(self, depth):
        cs = []
        for kind in MKINDS + ["mbuf"]:
            a = self.alphabet(kind)
            for n in range(1, depth + 1):
                for seq in itertools.product(a, repeat=n):
                    cs.append(ccase(mk(kind, 0) + list(seq)))
        if not ADVANCE_EMPTY:
            # advance where the object owns a stage buffer for sure: after a modify, nothing in the alphabet empties the member
            a = [o for o in self.alphabet("raw") if not o.startswith("setin")] + ["advance 0", "advance 1"]
            for n in range(1, depth + 1):
                for seq in itertools.product(a, repeat=n):
                    if any(o.startswith("advance") for o in seq):
                        cs.append(ccase(["new raw 0", "modify 0 0 0"] + list(seq)))
        for kind in BKINDS:
            a = ["addref 6 7", "addref 7 8", "unref 6", "unref 7", "aclone 6 7", "aclone 7 6", "aclone 8 6", "aclone 7 7",
                 "aclear 6", "aclear 7", "rinit 0 6 8", "rfini 0 8", "detach 6", "detach 7", "detachf 6", "detachf 7", "mbuf 6 0", "clone 0 1", "unref 0",
                 "force 6 " + MAX, "force 6 " + MAX1, "unforce"]
            for n in range(1, depth + 1):
                for seq in itertools.product(a, repeat=n):
                    cs.append(ccase(["new %s 6" % kind] + list(seq)))
        return cs

    def boundary_cases(self):
        cs = []
        for kind in COUNTED:
            for v in ("1", "2", "3", MAX1, MAX):
                for share in (["addref 0 1", "addref 0 2"], ["conv 0 1", "conv 0 2"], ["rinit 0 0 1", "rinit 1 0 2"], ["rcopy"],
                              ["new gen 1", "conv 0 1", "new huni 2", "conv 0 2"], ["defer 0 9", "defer 0 10"],
                              ["new hcnt 1", "conv 1 0", "conv 0 1"]):
                    cs.append(ccase(["new %s 0" % kind, "force 0 " + v] + share + ["unref 0", "unforce"]))
                    cs.append(ccase(["new %s 0" % kind, "addref 0 3", "force 0 " + v] + share + ["unref 0", "unref 3"]))
        for kind in BKINDS:
            for v in ("1", "2", MAX1, MAX):
                for share in (["addref 6 7", "addref 6 8"], ["aclone 6 7", "aclone 6 8"], ["rinit 0 6 7", "rinit 0 6 8"],
                              ["mbuf 6 0", "mbuf 6 1", "clone 0 2"], ["detach 6"], ["detachf 6"], ["addref 6 7", "detachf 7", "detachf 6"], ["new raw 0", "setin 0 6", "new raw 1", "setin 1 6"]):
                    cs.append(ccase(["new %s 6" % kind, "force 6 " + v] + share + ["aclear 6", "unforce"]))
        for v in ("1", "2", "3", MAX1, MAX):
            for share in (["rget 0 7", "rget 0 8"], ["modify 0 0 0"], ["modify 0 1 1", "rread 0"], ["new raw 1", "setin 1 6", "modify 1 0 0"],
                          ["mbuf 6 1", "clone 1 2"], ["aclone 6 7", "aclone 6 8"], ["rinit 0 6 7", "modify 0 0 0"]):
                cs.append(ccase(["new raw 0", "modify 0 0 0", "rget 0 6", "force 6 " + v] + share + ["aclear 6", "unforce"]))
                cs.append(ccase(["new raw 0", "modify 0 0 0", "rget 0 6", "aclear 6", "rget 0 6", "force 6 " + v] + share + ["unref 0", "unforce"]))
        for v in ("1", "2", MAX1, MAX):
            for share in (["xassign 12 13", "xassign 12 14"], ["xcopy 12 13", "xcopy 13 14"], ["xmove 12 13", "xassign 13 12"],
                          ["xdetach 12 15", "addref 15 16", "addref 15 17"], ["xassign 12 13", "xcopy 12 13", "xassign 13 13"]):
                cs.append(xcase(["xnew 12", "force 12 " + v] + share + ["xdrop 12", "unforce"]))
                cs.append(xcase(["xnew 12", "xassign 12 14", "force 12 " + v] + share + ["xdrop 12", "xdrop 14"]))
                cs.append(gcase(["xgen 12", "force 12 " + v] + share + ["xclone 12 16", "xdrop 12", "unforce"]))
                cs.append(gcase(["xgen 12", "xassign 12 14", "force 12 " + v] + share + ["xclone 14 17", "xdrop 12", "xdrop 14"]))
        return cs

    def cxx_cases(self, depth):
        a = ["xnew 12", "xnew 13", "xassign 12 13", "xassign 13 12", "xassign 13 13", "xcopy 12 13", "xcopy 14 12", "xmove 12 13",
             "xmove 13 13", "xmove 14 12", "xdetach 12 15", "xdetach 13 16", "xset 15 12", "xset 15 13", "xset 16 12", "xdrop 12",
             "xdrop 13", "addref 15 16", "unref 15", "unref 16"]
        cs = []
        for n in range(1, depth + 1):
            for seq in itertools.product(a, repeat=n):
                cs.append(xcase(["xnew 12"] + list(seq)))
        # metatype::generic held by reference<metatype>: the same operations plus clone
        g = [o.replace("xnew", "xgen") for o in a] + ["xclone 12 15", "xclone 13 16"]
        for n in range(1, depth + 1):
            for seq in itertools.product(g, repeat=n):
                cs.append(gcase(["xgen 12"] + list(seq)))
        return cs

    def node_cases(self, depth, rng, sample):
        """objects that own a reference<T> to another object of their family: chains of 1..4 nodes held by ONE outside handle,
        then every history of length <= depth over N_OPS (plus a sample of length depth + 1)"""
        cs = []
        # the walk: cur = cur->next until the end, the tail dropped last; with a sharer on a middle node; cut and re-link
        for n in (2, 3, 4):
            cs.append(ncase(chain(n) + ["xnext 12 12"] * n))
            cs.append(ncase(chain(n) + ["xnext 12 13", "xdrop 12"] + ["xnext 13 13"] * (n - 1)))
            cs.append(ncase(chain(n) + ["xnext 12 13", "xnext 13 14", "xdrop 12", "xdrop 13", "xnext 14 14", "xnext 14 14"]))
            cs.append(ncase(chain(n) + ["xnext 12 13", "xsetnext 14 12", "xnext 12 12", "xsetnext 13 12", "xdrop 13", "xnext 12 12"]))
            cs.append(ncase(chain(n) + ["xdetach 12 15", "addref 15 16", "unref 15", "xset 16 13", "xnext 13 13", "xnext 13 13"]))
            cs.append(ncase(chain(n) + ["xnext 12 14", "xnew 13", "xsetnext 12 13", "xdrop 12", "xnext 13 13", "xnext 14 14", "xnext 13 13"]))
            cs.append(ncase(chain(n) + ["xcopy 12 13", "xnext 13 13", "xmove 13 12", "xnext 12 12", "xassign 14 12"]))
        for n in (1, 2, 3):
            pre = chain(n)
            for k in range(1, depth + 1):
                for seq in itertools.product(N_OPS, repeat=k):
                    cs.append(ncase(pre + list(seq)))
            for seq in itertools.product(N_OPS, repeat=depth + 1):
                if rng.random() < sample:
                    cs.append(ncase(pre + list(seq)))
        return cs

    def random_n(self, rng):
        d = rng.choice((12, 13, 14))
        ops = chain(rng.choice((1, 2, 2, 3, 3, 4)), d, rng.choice([i for i in (12, 13, 14) if i != d]))
        R = lambda: rng.choice((12, 13, 14))
        P = lambda: rng.choice((15, 16, 17))
        for _ in range(rng.randrange(3, 13)):
            r = rng.random()
            if r < 0.10:
                ops.append("xnew %d" % R())
            elif r < 0.32:
                d = R()
                ops.append("xnext %d %d" % (d if rng.random() < 0.6 else R(), d))
            elif r < 0.47:
                ops.append("xsetnext %d %d" % (R(), R()))
            elif r < 0.57:
                ops.append("xassign %d %d" % (R(), R()))
            elif r < 0.64:
                ops.append("xcopy %d %d" % (R(), R()))
            elif r < 0.72:
                ops.append("xmove %d %d" % (R(), R()))
            elif r < 0.78:
                ops.append("xdetach %d %d" % (R(), P()))
            elif r < 0.84:
                ops.append("xset %d %d" % (P(), R()))
            elif r < 0.91:
                ops.append("xdrop %d" % R())
            elif r < 0.95:
                ops.append("addref %d %d" % (P(), P()))
            else:
                ops.append("unref %d" % P())
        return ncase(ops)

    def reply_cases(self, depth, rng, sample):
        """the deferrable reply context: reply data set, defer accepted / refused (nothing pending, second defer, after the
        answer was sent), answers through the context and through detached handles (with and without message, refused by the
        transport), handles dropped in every order"""
        cs = []
        k = 0
        for flow in P_FLOWS:
            cs.append(pcase(flow, 0))
            cs.append(pcase(flow, 1))
            for pos in range(len(flow) + 1):
                for ins in (["pdefer 0 11"], ["pdefer 0 11", "pdefer 0 11"], ["pdefer 1 11"], ["pdefer 0 11", "preply 11 0"]):
                    k += 1
                    cs.append(pcase(flow[:pos] + ins + flow[pos:], k))
        for mx in ("0", "1", "2", "4", "5", "8", "10", "ffff", "10000"):
            for ln in ("0", "1", "2", "4", "5", "8", "10"):
                cs.append(" ".join(["p", "pnew 1 " + mx, "pset 1 %s 7f" % ln, "pdefer 1 9", "pdefer 1 10", "psend 1 1", "preply 9 1",
                                    "pset 1 1 1", "pdefer 1 10", "punref 1", "preply 10 0"] + P_CLEAN[0]))
        for n in range(1, depth + 1):
            for seq in itertools.product(P_OPS, repeat=n):
                k += 1
                cs.append(pcase(seq, k))
        for seq in itertools.product(P_OPS, repeat=depth + 1):
            if rng.random() < sample:
                k += 1
                cs.append(pcase(seq, k))
        return cs

    def random_p(self, rng):
        M = lambda: rng.choice((0, 0, 0, 1, 1, 2))
        D = lambda: rng.choice((9, 10, 11))
        ops = []
        for _ in range(rng.randrange(4, 16)):
            r = rng.random()
            if r < 0.06:
                ops.append("pnew %d %s" % (M(), rng.choice(("2", "4", "8"))))
            elif r < 0.28:
                ops.append("pset %d %s %x" % (M(), rng.choice(("0", "1", "2", "2", "4", "9")), rng.randrange(1, 128)))
            elif r < 0.50:
                ops.append("pdefer %d %d" % (M(), D()))
            elif r < 0.60:
                ops.append("psend %d %d" % (M(), rng.randrange(2)))
            elif r < 0.75:
                ops.append("preply %d %d" % (D(), rng.randrange(2)))
            elif r < 0.83:
                ops.append("paddref %d %d" % (M(), M()))
            elif r < 0.94:
                ops.append("punref %d" % M())
            else:
                ops.append("pfail %d" % rng.randrange(2))
        return pcase(ops, rng.randrange(2))

    def counter_cases(self, depth):
        cs = []
        for fam in ("r", "y"):
            for v in ("0", "1", "2", "3", MAX1, MAX, "8000000000000000", "7fffffffffffffff"):
                for n in range(1, depth + 1):
                    for seq in itertools.product(("raise", "lower"), repeat=n):
                        cs.append(" ".join([fam, "set", v] + list(seq)))
        return cs

    def random_c(self, rng):
        ops = []
        filled = {}     # slot -> kind (approximate: refusals at the counter maximum are ignored)
        n = rng.randrange(4, 15)
        kinds = rng.sample(MKINDS + ["mbuf"], rng.choice([1, 1, 2, 3]))
        for _ in range(n):
            r = rng.random()
            ms = [s for s in range(6) if s in filled]
            me = [s for s in range(6) if s not in filled]
            as_ = [s for s in (6, 7, 8) if s in filled]
            ae = [s for s in (6, 7, 8) if s not in filled]
            anym = lambda: rng.randrange(0, 6) if rng.random() < 0.8 else rng.randrange(0, 4)
            if (r < 0.18 or not ms) and me:
                k = rng.choice(kinds)
                d = rng.choice(me[:4] or me)
                if k == "mbuf":
                    a = rng.choice((6, 7, 8))
                    if a not in filled and rng.random() < 0.8:
                        ops.append("new %s %d" % (rng.choice(BKINDS), a))
                        filled[a] = "buf"
                    ops.append("mbuf %d %d" % (a, d))
                else:
                    ops.append("new %s %d" % (k, d))
                filled[d] = k
            elif r < 0.30 and ms and me:
                s, d = rng.choice(ms), rng.choice(me)
                ops.append("addref %d %d" % (s, d))
                if filled[s] in COUNTED + ["top"]:
                    filled[d] = filled[s]
            elif r < 0.42 and ms:
                s = rng.choice(ms)
                ops.append("unref %d" % s)
                del filled[s]
            elif r < 0.50 and ms and me:
                s, d = rng.choice(ms), rng.choice(me)
                ops.append("clone %d %d" % (s, d))
                if filled[s] in CLONEABLE:
                    filled[d] = filled[s]
            elif r < 0.68:
                s, d = anym(), anym()
                ops.append("conv %d %d" % (s, d))
                if s not in filled:
                    filled.pop(d, None)
                elif filled[s] in COUNTED + ["top"]:
                    filled[d] = filled[s]
            elif r < 0.74 and me:
                s, d = anym(), rng.choice(me)
                ops.append("rinit %d %d %d" % (rng.randrange(2), s, d))
                if s in filled and filled[s] in COUNTED + ["top"]:
                    filled[d] = filled[s]
            elif r < 0.79:
                d = anym()
                ops.append("rfini %d %d" % (rng.randrange(2), d))
                filled.pop(d, None)
            elif r < 0.82:
                ops.append("rcopy")
            elif r < 0.86:
                if ae and rng.random() < 0.5:
                    d = rng.choice(ae)
                    ops.append("new %s %d" % (rng.choice(BKINDS), d))
                    filled[d] = "buf"
                else:
                    s, d = rng.choice((6, 7, 8)), rng.choice((6, 7, 8))
                    ops.append("aclone %d %d" % (s, d))
                    if s in filled:
                        filled[d] = "buf"
                    else:
                        filled.pop(d, None)
            elif r < 0.89 and as_:
                a = rng.choice(as_)
                ops.append(rng.choice(["detach %d" % a, "detachf %d" % a, "aclear %d" % a]))
                if ops[-1].startswith("aclear"):
                    del filled[a]
            elif r < 0.92 and ms:
                s = rng.choice(ms)
                if filled[s] == "reply":
                    ops.append(rng.choice(["defer %d %d" % (s, rng.choice((9, 10, 11))), "unref %d" % rng.choice((9, 10, 11))]))
                elif filled[s] == "raw":
                    ops.append(rng.choice(["modify %d %d %d" % (s, rng.randrange(3), rng.randrange(5)), "modify %d 0 0" % s,
                                           "rget %d %d" % (s, rng.choice((6, 7, 8))), "setin %d %d" % (s, rng.choice((6, 7, 8))),
                                           "rread %d" % s] + (["advance %d" % s] if ADVANCE_EMPTY else []) +
                                          (["rconv %d" % s] if RAWDATA_TYPE_STABLE else [])))
                else:
                    ops.append("unref %d" % rng.choice((9, 10)))
            elif r < 0.97 and (ms or as_):
                s = rng.choice(ms + as_)
                ops.append("force %d %s" % (s, rng.choice(["1", "2", "3", MAX1, MAX1, MAX, MAX])))
            else:
                ops.append("unforce")
        return ccase(ops)

    def random_x(self, rng, fam="x"):
        new = "xnew" if fam == "x" else "xgen"
        ops = [new + " 12"]
        for _ in range(rng.randrange(3, 13)):
            r = rng.random()
            R = lambda: rng.choice((12, 13, 14))
            P = lambda: rng.choice((15, 16, 17))
            if fam == "g" and rng.random() < 0.1:
                ops.append("xclone %d %d" % (R(), P()))
            elif r < 0.12:
                ops.append("%s %d" % (new, R()))
            elif r < 0.32:
                ops.append("xassign %d %d" % (R(), R()))
            elif r < 0.44:
                ops.append("xcopy %d %d" % (R(), R()))
            elif r < 0.56:
                ops.append("xmove %d %d" % (R(), R()))
            elif r < 0.64:
                ops.append("xdetach %d %d" % (R(), P()))
            elif r < 0.72:
                ops.append("xset %d %d" % (P(), R()))
            elif r < 0.80:
                ops.append("xdrop %d" % R())
            elif r < 0.86:
                ops.append("addref %d %d" % (P(), P()))
            elif r < 0.91:
                ops.append("unref %d" % P())
            elif r < 0.97:
                ops.append("force %d %s" % (R(), rng.choice(["1", "2", "3", MAX1, MAX1, MAX, MAX])))
            else:
                ops.append("unforce")
        return xcase(ops) if fam == "x" else gcase(ops)

    def generate(self, rng, tier):
        quick = tier == "quick"
        cases = self.pair_cases() + self.boundary_cases() + self.counter_cases(4 if quick else 8)
        cases += self.history_cases(2 if quick else 3)
        cases += self.cxx_cases(2 if quick else 3)
        cases += self.node_cases(2 if quick else 3, rng, 0.03 if quick else 0.02)
        cases += self.reply_cases(2 if quick else 3, rng, 0.12 if quick else 0.05)
        if quick:
            # length 3 histories: every kind, a random third of the triples
            for kind in MKINDS + ["mbuf"]:
                a = self.alphabet(kind)
                for seq in itertools.product(a, repeat=3):
                    if rng.random() < 0.06:
                        cases.append(ccase(mk(kind, 0) + list(seq)))
        nc, nx = (2000, 500) if quick else (50000, 10000)
        cases += [self.random_c(rng) for _ in range(nc)]
        cases += [self.random_x(rng) for _ in range(nx)]
        cases += [self.random_x(rng, "g") for _ in range(nx)]
        cases += [self.random_n(rng) for _ in range(nx)]
        cases += [self.random_p(rng) for _ in range(2 * nx)]
        return cases


PROP = C15()
