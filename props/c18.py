"""C18 — visible line parts partition the data exactly
(mptplot/values/linepart_{linear,code,join}.c, mpt++/linepart.cpp, mpt++/polyline.cpp)."""
import itertools, multiprocessing, os
from fractions import Fraction
import vcheck
from vcheck import DiffProperty

ALPHA_MAIN = ("1/0", "3/0", ["0/0", "1/0", "2/0", "3/0", "4/0"])          # range [1,3]; below, at-min, inside, at-max, above
ALPHA_FRAC = ("-3/2", "5/3", ["-7/2", "-3/2", "-1/4", "5/3", "3/0"])      # range [-1.5, 0.625], thirds/sevenths as fractions
ALPHA_DEGEN = ("2/0", "2/0", ["1/0", "2/0", "2/0", "2/0", "5/0"])         # min = max: at-min = inside = at-max
ALPHA_EMPTY = ("3/0", "1/0", ["0/0", "1/0", "2/0", "3/0", "4/0"])         # min > max: nothing is in range
ALPHA_NONE = ("N", "N", ["0/0", "1/0", "2/0", "3/0", "4/0"])              # no range at all


# ------------------------------------------------------------------ values
def val_of(tok):
    """'<num>/<exp>[*count]' -> (Fraction, count)"""
    cnt = 1
    if "*" in tok:
        tok, c = tok.split("*")
        cnt = int(c)
    num, e = tok.split("/")
    num, e = int(num), int(e)
    return (Fraction(num, 2 ** e) if e >= 0 else Fraction(num * 2 ** (-e))), cnt


def small_dyadic(tok):
    if tok == "N":
        return True
    v, _ = val_of(tok)
    return abs(v) < 65536 and (v * 65536).denominator == 1


def case_values(case):
    t = case.split()
    if t[0] == "L":
        return t[1:3], t[3:]
    if t[0] == "E":
        return t[2:4], t[4:9] + t[10:]
    if t[0] == "J":
        return [], []
    return [], t[1:]


def case_small(case):
    rg, vs = case_values(case)
    return all(small_dyadic(x) for x in rg + vs)


def count_points(toks):
    return sum(val_of(x)[1] for x in toks)


# ------------------------------------------------------------------ reading observations
def parse_group(txt, sep):
    """'r.u.c.t<sep>...<sep>=total' -> (parts, total) or (None, text) for STALL/FAULT/- """
    items = [x for x in txt.split(sep) if x != ""]
    if not items or not items[-1].startswith("="):
        return None, txt
    try:
        parts = [tuple(int(y) for y in x.split(".")) for x in items[:-1]]
        if any(len(p) != 4 for p in parts):
            return None, txt
        return parts, int(items[-1][1:])
    except ValueError:
        return None, txt


def parse_spec(txt, sep):
    """'<classes><sep>x<i>:<num>/<den>...' -> (classes, {i: Fraction})"""
    items = txt.split(sep)
    cl = "" if items[0] == "-" else items[0]
    xs = {}
    for x in items[1:]:
        i, q = x[1:].split(":")
        a, b = q.split("/")
        xs[int(i)] = Fraction(int(a, 0), int(b, 0))
    return cl, xs


def code_of(t):
    """the 16-bit encoding the specification asks for: floor(65536 t) clipped to the field"""
    return min(65535, (t * 65536).numerator // (t * 65536).denominator)


def check_parts(parts, total, cl, xs, small):
    """the property, read on one part list; returns None or a description of what is wrong"""
    n = len(cl)
    tol = 0 if small else 1
    if sum(p[0] for p in parts) != total:
        return "sum-of-raw-differs-from-reported-position"
    if total != n:
        return "consumed=%d-of-%d-points" % (total, n)
    cnt = [0] * (n + 2)
    pos = 0
    for k, (raw, usr, cut, trim) in enumerate(parts):
        if raw < 1:
            return "part%d-no-progress" % k
        if usr > 0:
            if pos + usr > n:
                return "part%d-draws-past-the-data" % k
            cnt[pos] += 1
            cnt[pos + usr] -= 1
            for i in range(pos + 1, pos + usr - 1):
                if cl[i] != "1" and not on_boundary(cl, xs, i, tol):
                    return "part%d-draws-through-out-of-range-point-%d" % (k, i)
            if cl[pos] == "1":
                if cut != 0:
                    return "part%d-cut=%d-at-in-range-start" % (k, cut)
            else:
                if usr < 2 or cl[pos + 1] != "1" or pos not in xs:
                    return "part%d-starts-at-out-of-range-point-%d-without-crossing" % (k, pos)
                want = code_of(xs[pos])
                if abs(cut - want) > tol:
                    return "part%d-cut=%d-want=%d(+-%d)" % (k, cut, want, tol)
            last = pos + usr - 1
            if cl[last] == "1":
                if trim != 0:
                    return "part%d-trim=%d-at-in-range-end" % (k, trim)
            else:
                if usr < 2 or cl[last - 1] != "1" or (last - 1) not in xs:
                    return "part%d-ends-at-out-of-range-point-%d-without-crossing" % (k, last)
                want = code_of(xs[last - 1])
                if abs(trim - want) > tol:
                    return "part%d-trim=%d-want=%d(+-%d)" % (k, trim, want, tol)
        elif cut != 0 or trim != 0:
            return "part%d-draws-nothing-but-cut/trim-set" % k
        pos += raw
    c = 0
    for i in range(n):
        c += cnt[i]
        if cl[i] == "1" and c != 1:
            return "in-range-point-%d-drawn-%d-times" % (i, c)
        if cl[i] == "0" and c != 0:
            return "interior-out-of-range-point-%d-drawn-%d-times" % (i, c)
    return None


def on_boundary(cl, xs, i, tol):
    """an out-of-range point whose crossing fraction towards every in-range neighbour has code 0 lies, at the
    precision of the 16-bit encoding, on the range boundary; only such a point may sit inside a drawn line
    (a join of two parts whose trim and cut codes are both 0 produces this)"""
    if cl[i] != "*":
        return False
    for j, seg in ((i - 1, i - 1), (i + 1, i)):
        if 0 <= j < len(cl) and cl[j] == "1":
            if seg not in xs or code_of(xs[seg]) > tol:
                return False
    return True


def groups_close(a, b, small):
    """mechanism comparison of two observations of the same kind: everything equal, cut/trim within the rule"""
    if a == b:
        return True
    if small:
        return False
    pa, ta = a
    pb, tb = b
    if pa is None or pb is None or ta != tb or len(pa) != len(pb):
        return False
    for x, y in zip(pa, pb):
        if x[0] != y[0] or x[1] != y[1] or abs(x[2] - y[2]) > 1 or abs(x[3] - y[3]) > 1:
            return False
    return True


GROUP_NAMES = ("direct-loop", "set+apply", "apply")


def compare_seq(i_txt, m_txt, s_txt, small, sep, gsep):
    """one sequence: returns (corr, spec), each None or (impl text, other text)"""
    corr = spec = None
    ig = i_txt.split(gsep)
    if i_txt != m_txt:
        mg = m_txt.split(gsep)
        if len(ig) != len(mg) or small:
            corr = (i_txt, m_txt)
        else:
            for a, b in zip(ig, mg):
                if not groups_close(parse_group(a, sep), parse_group(b, sep), small):
                    corr = (i_txt, m_txt)
                    break
    cl, xs = parse_spec(s_txt, sep)
    for name, g in zip(GROUP_NAMES, ig):
        parts, total = parse_group(g, sep)
        if parts is None:
            why = "%s:%s" % (name, (total or "no-output").strip().replace(" ", "_")[:40])
        else:
            why = check_parts(parts, total, cl, xs, small)
            why = why and "%s:%s" % (name, why)
        if why:
            spec = (why + "|" + g.strip().replace(" ", ","), "every-point-once;in-range-drawn-once;interior-not-drawn;cut/trim=code(crossing)|" + s_txt[:200].replace(" ", ","))
            break
    if len(ig) != 3 and spec is None:
        spec = ("observation-incomplete|" + i_txt[:100].replace(" ", ","), "three-part-lists")
    return corr, spec


def compare_case(args):
    case, it, mt, st = args
    r = {"corr": None, "spec": None, "I": it, "M": mt, "S": st}
    if it is None or mt is None or st is None:
        r["corr"] = (-1, "missing output", "I=%s M=%s S=%s" % (it is not None, mt is not None, st is not None))
        return r
    kind = case.split(None, 1)[0]
    small = case_small(case)
    if kind == "L":
        c, s = compare_seq(" ".join(it), " ".join(mt), " ".join(st), small, " ", " | ")
        if c:
            j = next((k for k in range(max(len(it), len(mt))) if (it[k:k + 1] != mt[k:k + 1])), 0)
            r["corr"] = (j, c[0][:300], c[1][:300])
        if s:
            r["spec"] = (0, s[0][:400], s[1][:400])
        if len(it) > 40:
            r["I"], r["M"], r["S"] = it[:40], mt[:40], [x[:80] for x in st[:8]]
    elif kind == "E":
        n = max(len(it), len(mt), len(st))
        for j in range(n):
            a = it[j] if j < len(it) else "<none>"
            b = mt[j] if j < len(mt) else "<none>"
            s_ = st[j] if j < len(st) else None
            if a == "F" or s_ is None or b == "<none>":
                if r["corr"] is None and a != b:
                    r["corr"] = (j, a, b)
                if r["spec"] is None and a != "<none>":
                    r["spec"] = (j, "crash-or-missing-output|" + a, s_ or "<none>")
                break
            c, s = compare_seq(a, b, s_, small, ";", "|")
            if c and r["corr"] is None:
                r["corr"] = (j, c[0], c[1])
            if s and r["spec"] is None:
                r["spec"] = (j, s[0], s[1])
        if r["corr"] is None and r["spec"] is None:
            r["I"], r["M"], r["S"] = it[:4], mt[:4], st[:4]
    else:
        # J and C: plain token comparison; the specification leaves accept/refuse of a join to the code
        n = max(len(it), len(mt))
        for j in range(n):
            a = it[j] if j < len(it) else "<none>"
            b = mt[j] if j < len(mt) else "<none>"
            if a != b and not (kind == "C" and same_code_tok(a, b)):
                r["corr"] = (j, a, b)
                break
        n = max(len(it), len(st))
        for j in range(n):
            a = it[j] if j < len(it) else "<none>"
            b = st[j] if j < len(st) else "<none>"
            if a != b and not (kind == "C" and same_code_tok(a, b)):
                r["spec"] = (j, a, b)
                break
    return r


def same_code_tok(a, b):
    """'<code>:<num>/<den>' equal as numbers"""
    try:
        ca, qa = a.split(":")
        cb, qb = b.split(":")
        na, da = qa.split("/")
        nb, db = qb.split("/")
        return int(ca) == int(cb) and Fraction(int(na, 0), int(da, 0)) == Fraction(int(nb, 0), int(db, 0))
    except ValueError:
        return False


# ------------------------------------------------------------------ the property
class C18(DiffProperty):
    pid = "C18"
    claimed = True
    coq_dir = "C18"
    extract_vo = "C18/Extract.vo"
    mlname = "c18_model"
    driver = "c18_driver.ml"
    harness_src = "c18_linepart.cpp"
    libs = ["mpt++", "mptplot", "mptcore"]
    harness_env = dict(vcheck.ASAN_ENV, ASAN_OPTIONS=vcheck.ASAN_ENV["ASAN_OPTIONS"] + ":symbolize=0")
    harness_args = ("60",)
    extra_harness_flags = ["-fno-sanitize=vptr"]     # see the comment in harness/c18_linepart.cpp
    rule = ("a case = a visible range (or none) + a sequence of values, all given as exact dyadic rationals num*2^-exp; the model "
            "computes on exact rationals, the code in binary64.  Observed per sequence: the part records raw.usr.cut.trim and the "
            "position reached, three times: (1) loop 'pos += raw' over mpt_linepart_linear, (2) linepart::array::set(n)+apply() "
            "(what polyline::set does), (3) linepart::array::apply() on an empty array.  COMPARISON RULE: raw, usr and positions "
            "must be equal; cut/trim codes must be EQUAL when every value and range bound has <= 16 fractional bits and "
            "magnitude < 2^16 (then numerator and denominator of the crossing fraction are exact in binary64, the exact quotient "
            "p/q has q < 2^33, so 65536*p/q is an integer - and then the correctly rounded division is exact - or at least 2^-33 "
            "away from one, more than the 2^-37 error of one rounded division: Coq lemma C18_code_agrees_small_dyadic), otherwise "
            "|delta code| <= 1.  The same rule is used between the code and the specification, whose codes are "
            "min(65535, floor(65536*t)) of the exact crossing fraction t.  Property-level reading of a part list (python, "
            "check_parts): sum of raw = n, every raw >= 1, every in-range point in [pos,pos+usr) of exactly one part, every "
            "out-of-range point without in-range neighbour in none, an out-of-range point is drawn only as first/last point of a "
            "part next to an in-range point and then cut/trim = code of the exact crossing fraction, else cut/trim = 0.  "
            "Generator: EXHAUSTIVE over the ordered alphabet {below, at-min, inside, at-max, above} = {0,1,2,3,4} against [1,3] "
            "for every length <= 8 (quick) / 10 (thorough); exhaustive to length 6 / 8 for four more alphabets (fractional "
            "bounds, min=max, min>max, no range); random dyadic sequences (equal neighbours, several ranges, 53-bit mantissas "
            "with exponents -40..40 for the |delta|<=1 regime); runs of 65533..65537 and 131070.. points around the per-part "
            "limit; pairs of parts for join around the 65535 sums; values for code/real.  A case is non-trivial when it has a "
            "range and at least one crossing or a run over the limit; distinct = distinct case text (an E case stands for "
            "5^depth sequences; the number of sequences of the run is appended below)")
    modelled = ("mptplot/values/linepart_linear.c, linepart_code.c, linepart_join.c and linepart::array::set/apply of "
                "mpt++/linepart.cpp (both loops) transcribed in coq/C18/LinepartModel.v over exact rationals; uint16 fields are "
                "written mod 2^16.  Not modelled: binary64 rounding (compared by the rule), NaN/infinite inputs, apply() with more "
                "than one dimension (only one-dimensional merge is run), polyline::set's value_store plumbing, apply_data")
    trusted = ["harness/c18_linepart.cpp copies every sequence into an exact-size heap block, calls the real functions and prints the "
               "records it reads back from the linepart structs / the linepart::array; a transform subclass whose part() calls "
               "mpt_linepart_linear with the case's range stands in for layout::graph::transform3",
               "props/c18.py check_parts is the executable reading of the specification on the implementation's part list "
               "(the Coq counterpart is parts_ok/draw_count in coq/C18/LinepartSpec.v)",
               "IEEE-754 binary64 division of the host is correctly rounded (hypothesis of C18_code_agrees_small_dyadic)"]
    level_text = ("proof: Coq theorems over exact rationals, for EVERY value sequence (any length, induction over the driver loop "
                  "with fuel |data| whose sufficiency is proved) and every range (also min=max, min>max, none): C18_progress (a call "
                  "on >= 1 values consumes between 1 and min(len,65535) values and never reads outside), "
                  "C18_consumes_each_point_once (the loop 'pos += raw' ends and the raw counts sum to n), C18_in_range_drawn_once, "
                  "C18_out_of_range_interior_not_drawn, C18_parts_as_specified (every drawn out-of-range point is the clipped first or "
                  "last point of its part next to an in-range point), C18_cut_trim_precision (code = floor(65536 x) clipped to 65535 "
                  "for the exact crossing fraction x with o + x(v-o) = bound, |decode - x| <= 2^-16, else 0), "
                  "C18_code_is_clipped_floor, C18_join_preserves_totals, C18_join_draws_union, C18_set_apply_covers_all and "
                  "C18_set_apply_points (the same per-point statements for linepart::array::set+apply, the path polyline::set takes, "
                  "joins included), C18_code_agrees_small_dyadic (binary64 vs exact codes, rounding properties as hypotheses); the "
                  "model is tied to the code on every run by differential execution under ASan/UBSan (exhaustive over the 5-class "
                  "alphabet to length 8, random dyadic sequences, runs around 65535 points)")
    level_note = ("trusted: Coq kernel; hand transcription of linepart_linear/code/join.c and linepart::array::set/apply (validated by "
                  "the correspondence run, not verified); extraction and OCaml driver; harness; python reading of the part lists. "
                  "The theorems are about exact rational arithmetic; the C computes the two fractions in binary64 - the link is the "
                  "stated comparison rule (codes equal for small dyadic inputs, |delta| <= 1 otherwise) and "
                  "C18_code_agrees_small_dyadic, whose two rounding facts (relative error <= 2^-53, representable quotients exact) "
                  "are explicit hypotheses, not proved from an IEEE model.  NaN and infinities are outside the model (observed, "
                  "not in the check: {0, NaN, 2} against [1,3] returns raw = 0, see docs/notes_C18.md).  apply() with a second "
                  "dimension (intersection of two part lists) is not modelled.  The theorems hold for the tree with the fix: commit "
                  "'mpt_linepart_join keeps the trim of the appended part'.  All 12 theorems are closed under the global context.")
    technique = "Coq proof (per-part invariant, induction over the driver loop) + differential correspondence check with a stated rounding rule"
    assumptions = ["binary64 division/subtraction are correctly rounded (IEEE-754), no excess precision",
                   "inputs are finite doubles (no NaN/infinity)"]
    quick_exh = 8
    thorough_exh = 10

    # ---- evaluation in chunks, comparison in parallel
    def evaluate(self, cases, workdir, tagsuffix=""):
        hx = vcheck.build_harness(self.harness_src, self.libs, extra=self.extra_harness_flags)
        mx = vcheck.build_model(self.mlname, self.driver, self.extract_vo)
        res, errs = [], []
        CH = 1500
        pool = multiprocessing.Pool(min(16, vcheck.NPROC)) if len(cases) > 64 else None
        try:
            for c0 in range(0, len(cases), CH):
                chunk = cases[c0:c0 + CH]
                ided = ["c%d %s" % (i, c) for i, c in enumerate(chunk)]
                sh = min(vcheck.NPROC, max(1, len(chunk) // 8))
                I, e1 = vcheck.run_cases(hx, ided, workdir, "impl" + tagsuffix, env=self.harness_env, args=self.harness_args, shards=sh)
                M, e2 = vcheck.run_cases(mx, ided, workdir, "model" + tagsuffix, shards=sh)
                errs += e1 + e2
                args = [(c, I.get("I", {}).get("c%d" % i), M.get("M", {}).get("c%d" % i), M.get("S", {}).get("c%d" % i))
                        for i, c in enumerate(chunk)]
                res += pool.map(compare_case, args, chunksize=8) if pool else [compare_case(a) for a in args]
        finally:
            if pool:
                pool.close()
        return res, errs

    def compare(self, case, it, mt, st):
        return compare_case((case, it, mt, st))

    # ---- case structure / statistics
    def classify(self, case):
        t = case.split()
        cl = set()
        if t[0] == "E":
            cl.add("exhaustive-depth-%s-len-%d" % (t[1], int(t[1]) + count_points(t[10:])))
            if t[2] != "N":
                cl.add("range")
        elif t[0] == "L":
            n = count_points(t[3:])
            if t[1] != "N":
                rg = (val_of(t[1])[0], val_of(t[2])[0])
                if rg[0] > rg[1]:
                    cl.add("min>max")
                elif rg[0] == rg[1]:
                    cl.add("min=max")
                if n <= 200:
                    vs = [val_of(x)[0] for x in t[3:] for _ in range(val_of(x)[1])]
                    ins = [rg[0] <= v <= rg[1] for v in vs]
                    if any(a != b for a, b in zip(ins, ins[1:])):
                        cl.add("crossing")
                    if any(a == b for a, b in zip(vs, vs[1:])):
                        cl.add("equal-neighbours")
                else:
                    cl.add("crossing?")
            else:
                cl.add("no-range")
            if n > 65535:
                cl.add("over-part-limit")
            elif n >= 65533:
                cl.add("at-part-limit")
            if not case_small(case):
                cl.add("rounding-regime(|d|<=1)")
            if cl == {"no-range"} or not cl:
                cl = set() if n < 2 else {"plain"}
        elif t[0] == "J":
            cl.add("join")
        elif t[0] == "C":
            cl.add("code/real")
        return cl

    def sequences(self, cases):
        n = 0
        for c in cases:
            t = c.split(None, 2)
            n += 5 ** int(t[1]) if t[0] == "E" else 1
        return n

    # ---- shrinking
    def e_to_l(self, case, idx):
        t = case.split()
        depth, mn, mx, alpha, pre = int(t[1]), t[2], t[3], t[4:9], t[10:]
        w = []
        for _ in range(depth):
            w.append(alpha[idx % 5])
            idx //= 5
        return " ".join(["L", mn, mx] + pre + w[::-1])

    def shrink(self, case, kind, workdir, budget=14):
        if case.startswith("E"):
            res, _ = self.evaluate([case], workdir, tagsuffix="_fo")
            r = res[0][kind]
            if r is None or r[0] < 0:
                return case
            case = self.e_to_l(case, r[0])
        return DiffProperty.shrink(self, case, kind, workdir, budget)

    def shrink_candidates(self, case):
        t = case.split()
        if t[0] == "L":
            hdr, vs = t[:3], t[3:]
            for k in range(len(vs)):
                yield " ".join(hdr + vs[:k] + vs[k + 1:])
                if "*" in vs[k]:
                    b, c = vs[k].split("*")
                    c = int(c)
                    for c2 in (c // 2, c - 1, 65536, 65535, 65534, 65533):
                        if 1 <= c2 < c:
                            yield " ".join(hdr + vs[:k] + ["%s*%d" % (b, c2)] + vs[k + 1:])
            if len(vs) > 4:
                yield " ".join(hdr + vs[:len(vs) // 2])
                yield " ".join(hdr + vs[len(vs) // 2:])
            if hdr[1] != "N":
                # move every value to a small integer grid with the same order relative to the range
                mn, mx = val_of(hdr[1])[0], val_of(hdr[2])[0]
                if mn < mx:
                    def sym(x):
                        v, c = val_of(x)
                        s = "0/0" if v < mn else "1/0" if v == mn else "2/0" if v < mx else "3/0" if v == mx else "4/0"
                        return s if c == 1 else "%s*%d" % (s, c)
                    yield " ".join(["L", "1/0", "3/0"] + [sym(x) for x in vs])
        elif t[0] == "J":
            ps = [t[1 + 8 * i: 9 + 8 * i] for i in range((len(t) - 1) // 8)]
            if len(ps) > 1:
                for p in ps:
                    yield " ".join(["J"] + p)
            for k in range(len(ps)):
                yield " ".join(["J"] + [x for p in ps[:k] + ps[k + 1:] for x in p])
        elif t[0] == "C":
            for k in range(1, len(t)):
                yield " ".join(t[:k] + t[k + 1:])

    # ---- generator
    def exhaustive(self, alpha, maxlen, depth):
        mn, mx, syms = alpha
        out = []
        for n in range(0, maxlen + 1):
            d = min(depth, n)
            for pre in itertools.product(syms, repeat=n - d):
                out.append(" ".join(["E", str(d), mn, mx] + syms + ["|"] + list(pre)))
        return out

    def rand_value(self, rng, mode):
        if mode == "grid":
            return "%d/0" % rng.randrange(-2, 8)
        if mode == "small":        # <= 16 fractional bits, magnitude < 2^16: codes must be equal
            e = rng.choice([0, 1, 2, 4, 8, 15, 16])
            return "%d/%d" % (rng.randrange(-(1 << (15 + e)), 1 << (15 + e)) if rng.random() < 0.3 else rng.randrange(-40, 40) * (1 << e) // rng.choice([1, 2, 3, 8]), e)
        # full doubles: 53-bit mantissa, moderate exponents
        m = rng.getrandbits(53) | (1 << 52)
        if rng.random() < 0.5:
            m = -m
        return "%d/%d" % (m, 52 - rng.randrange(-40, 41))

    def rand_seq(self, rng, mode, n):
        vs = []
        pool = [self.rand_value(rng, mode) for _ in range(rng.choice([2, 3, 5, 8, n + 1]))]
        while len(vs) < n:
            v = rng.choice(pool) if rng.random() < 0.7 else self.rand_value(rng, mode)
            k = rng.choice([1, 1, 1, 2, 3])       # equal neighbours
            vs += [v] * k
        vs = vs[:n]
        srt = sorted(set(vs), key=lambda x: val_of(x)[0])
        a, b = rng.choice(srt), rng.choice(srt)
        if a == b and len(srt) > 1 and rng.random() < 0.8:
            b = rng.choice([x for x in srt if x != a])
        r = rng.random()
        if r < 0.6:
            a, b = sorted([a, b], key=lambda x: val_of(x)[0])
        elif r < 0.7:
            b = a
        elif r < 0.8:
            a, b = self.rand_value(rng, mode), self.rand_value(rng, mode)
            if rng.random() < 0.8:
                a, b = sorted([a, b], key=lambda x: val_of(x)[0])
        elif r < 0.85:
            a = b = "N"
        return " ".join(["L", a, b] + vs)

    def long_runs(self, rng, tier):
        out = []
        IN, LO, HI = "2/0", "0/0", "4/0"
        hdr = ["L", "1/0", "3/0"]
        for n in (65533, 65534, 65535, 65536, 65537):
            out.append(" ".join(hdr + ["%s*%d" % (IN, n)]))                               # all visible
            out.append(" ".join(hdr + ["%s*%d" % (LO, n)]))                               # all invisible
            out.append(" ".join(["L", "N", "N", "%s*%d" % (IN, n)]))                      # no range
            out.append(" ".join(hdr + [LO, "%s*%d" % (IN, n - 1)]))                       # cut, then visible to the limit
            out.append(" ".join(hdr + ["%s*%d" % (IN, n - 1), HI]))                       # trim exactly at the end
            out.append(" ".join(hdr + ["%s*%d" % (IN, n - 2), HI, IN]))                   # trim, then a new part
            out.append(" ".join(hdr + ["%s*%d" % (IN, n - 2), HI, LO]))
            out.append(" ".join(hdr + ["%s*%d" % (LO, n - 1), IN, IN]))                   # invisible run up to the limit, then visible
            out.append(" ".join(hdr + [IN, "%s*%d" % (HI, n - 2), IN, HI]))
        for n in (131069, 131070, 131071):
            out.append(" ".join(hdr + ["%s*%d" % (IN, n), HI, IN]))
            out.append(" ".join(hdr + [LO, "%s*%d" % (IN, 65533), HI, "%s*%d" % (LO, n - 65535), IN]))
        k = 6 if tier == "quick" else 60
        for _ in range(k):
            a = rng.choice([65530, 65531, 65532, 65533, 65534, 65535, 65536])
            toks = [rng.choice([LO, IN, HI]) for _ in range(rng.randrange(0, 4))]
            toks += ["%s*%d" % (rng.choice([IN, IN, LO]), a)]
            toks += [rng.choice([LO, IN, HI, "1/0", "3/0"]) for _ in range(rng.randrange(0, 6))]
            if rng.random() < 0.3:
                toks += ["%s*%d" % (rng.choice([IN, LO]), rng.choice([65533, 65535]))] + [rng.choice([LO, IN, HI])]
            out.append(" ".join(hdr + toks))
        return out

    def join_cases(self, rng, tier):
        out = []
        edge = [0, 1, 2, 3, 32767, 32768, 65532, 65533, 65534, 65535]
        pairs = []
        for r1 in edge:
            for r2 in edge:
                for (u1, u2) in ((r1, r2), (r1, max(0, r2 - 1)), (max(0, r1 - 1), r2), (min(65535, r1 + 1), r2), (r1, min(65535, r2 + 1))):
                    for (t1, c2, t2) in ((0, 0, 0), (0, 0, 77), (5, 0, 0), (0, 9, 0), (0, 0, 65535)):
                        pairs.append([r1, u1, rng.choice([0, 0, 123]), t1, r2, u2, c2, t2])
        for _ in range(400 if tier == "quick" else 4000):
            r1, r2 = rng.choice(edge + [rng.randrange(65536)]), rng.choice(edge + [rng.randrange(65536)])
            pairs.append([r1, rng.choice([r1, r1, max(0, r1 - 1), min(65535, r1 + 1)]), rng.choice([0, 0, rng.randrange(65536)]),
                          rng.choice([0, 0, 0, rng.randrange(65536)]), r2, rng.choice([r2, r2, 0, min(65535, r2 + 1)]),
                          rng.choice([0, 0, 0, rng.randrange(65536)]), rng.choice([0, 0, rng.randrange(65536)])])
        for i in range(0, len(pairs), 50):
            out.append("J " + " ".join(str(x) for p in pairs[i:i + 50] for x in p))
        return out

    def code_cases(self, rng, tier):
        vs = ["0/0", "1/0", "1/1", "1/16", "1/17", "65535/16", "131071/17", "131069/17", "-1/0", "-1/60", "2/0", "65537/16", "3/1",
              "1/3", "1/60", "1/1000", "4503599627370495/52", "9007199254740991/53", "9007199254740992/53"]
        for _ in range(300 if tier == "quick" else 5000):
            e = rng.choice([8, 16, 17, 20, 30, 51, 52])      # num stays below 2^53: exactly representable
            vs.append("%d/%d" % (rng.randrange(-3, (1 << e) + 4) if rng.random() < 0.8 else rng.choice([0, 1, (1 << e) - 1, 1 << e, (1 << e) + 1]), e))
        return ["C " + " ".join(vs[i:i + 60]) for i in range(0, len(vs), 60)]

    def generate(self, rng, tier):
        quick = tier == "quick"
        cases = []
        n1 = self.quick_exh if quick else self.thorough_exh
        cases += self.exhaustive(ALPHA_MAIN, n1, 4 if quick else 5)
        n2 = 6 if quick else 8
        for al in (ALPHA_FRAC, ALPHA_DEGEN, ALPHA_EMPTY, ALPHA_NONE):
            cases += self.exhaustive(al, n2, 4)
        cases += self.long_runs(rng, tier)
        cases += self.join_cases(rng, tier)
        cases += self.code_cases(rng, tier)
        nr = 4000 if quick else 120000
        for i in range(nr):
            mode = ("grid", "small", "full")[i % 3]
            n = rng.choice([1, 2, 3, 5, 8, 12, 20, 40]) if i % 50 else rng.choice([100, 300])
            cases.append(self.rand_seq(rng, mode, n))
        if not hasattr(self, "_rule0"):
            self._rule0 = self.rule
        self.rule = self._rule0 + " [this run: %d value sequences in %d generated cases]" % (self.sequences(cases), len(cases))
        return cases

    def run(self, tier, seed, replay=None):
        return DiffProperty.run(self, tier, seed, replay=replay)


PROP = C18()
